#!/usr/bin/env python3
"""tools/mk_prompts.py seed|benign <root dir> <Cxx[:mechanism index]> ...
Writes <root>/<Cxx>.prompt.txt for a fresh sub-agent and creates its scratch worktree <root>/<Cxx> of /repo HEAD.
The prompt carries the property text only (nothing from /verif); an optional mechanism index asks the agent to put
its change into that anchor, so that successive rounds cover different code."""
import json, os, subprocess, sys

kind, root = sys.argv[1], sys.argv[2]
props = {json.loads(l)["id"]: json.loads(l) for l in open("/verif/properties.jsonl")}
os.makedirs(root, exist_ok=True)

HEAD = """You are helping to evaluate a verification effort by writing a *{what}* for the C/C++ library rtosc (realtime-safe OSC messaging library).

Your private scratch git worktree of the library is at {wt} (a checkout of the current source). Work ONLY inside that directory (and {wt}.out for outputs). Do NOT read or use anything under /verif or /repo, and do not touch other directories under /tmp.

Here is a semantic property that the library is supposed to satisfy:

-----
ID: {id}
TITLE: {title}

STATEMENT:
{statement}

QUANTIFIED OVER: {quant}

WHY THE EXISTING TESTS CANNOT SETTLE IT:
{why}

CODE ANCHORS (where the mechanism lives):
{anchors}

-----
"""

SEED = """
TASK: make ONE small, realistic source change to the library (files under src/ or include/ of your worktree; not the tests) that BREAKS this property, such that
  1. the library and its test suite still compile, and ALL existing tests still pass:
       cmake -S {wt} -B {wt}/_b -G Ninja -DCMAKE_BUILD_TYPE=RelWithDebInfo >/dev/null && cmake --build {wt}/_b -j8 && ctest --test-dir {wt}/_b -j8
     (31 tests; they must all pass with your change applied);
  2. the breakage needs something SPECIFIC to manifest - a particular unusual input, a boundary value, a multi-step sequence of operations, a particular interleaving, an error path, one specific macro/port kind or type tag, or two cooperating sites that each look fine alone - NOT something ordinary use would expose at once. It should look like a plausible mistake or "optimisation"/refactoring a maintainer could commit (an off-by-one, a wrong comparison, a dropped case, a reordered pair of statements, a wrong cast, an unchecked length, ...), not sabotage with a magic constant;
  3. you provide a DEMONSTRATION: a small standalone test program (C or C++, single file, with a main() returning non-zero / aborting on failure) that FAILS with your change and PASSES on the unchanged source. Build it against the sources of the worktree (e.g. compile the needed src/*.c / src/cpp/*.cpp files together with the demo, with -I{wt}/include; sanitizers such as -fsanitize=address,thread are allowed if the failure is a memory/thread error). Verify both directions yourself: run it on the unchanged tree (save your change with `git diff > {wt}.out/patch.diff`, then `git checkout -- .`, run, then `git apply` the patch again) and with the change. NEVER use `git stash` (the stash is shared between worktrees and other people use it).
{focus}
DELIVERABLES (write them, then stop):
  {wt}.out/patch.diff      - `git -C {wt} diff` of your change (source change only, no build dirs, no new test files)
  {wt}.out/demo.c or demo.cpp - the demonstration program
  {wt}.out/build_demo.sh   - shell script taking the source root as $1 that builds the demo into ./demo_bin and runs it (exit status = demo's exit status)
  {wt}.out/meta.json       - {{"property": "{id}", "summary": "...what was changed...", "needs_to_manifest": "...the specific input/sequence/interleaving...", "files_changed": [...], "commands_run": [...], "tests_pass_with_change": true, "demo_fails_with_change": true, "demo_passes_without_change": true}}
If, while building your demonstration, you notice that the UNCHANGED library already misbehaves on some input (a crash, a wrong result, an uninitialised read, text that does not round-trip), describe it under "observations" in meta.json with the exact input - do not fix it and do not use it as your change.
Leave the worktree with your change applied (uncommitted). Remove your build directories ({wt}/_b and any others) before finishing to save disk space. Keep your final answer to a few lines: what you changed and what it needs to manifest.
"""

BENIGN = """
TASK: write a BEHAVIOUR-PRESERVING refactoring of the code behind this property (files under src/ or include/ of your worktree; not the tests): the kind of clean-up a maintainer would commit - extract or inline a helper, turn an if-chain into a switch or a table (or back), rewrite a loop (while/for/do, index/pointer), introduce early returns or guard clauses, hoist or rename locals, invert conditions and swap branches, replace a hand-written scan by the equivalent library call (or back), reorder independent statements, split a function, move a check into the callers or into the callee. Touch at least four different places of the anchored code and be bold about the *shape* of the code, but the property - and all observable behaviour of the public API on every input, including error paths, boundary values and what is written into caller-supplied buffers - must stay EXACTLY the same.
  1. The library and its test suite must still compile and ALL existing tests pass:
       cmake -S {wt} -B {wt}/_b -G Ninja -DCMAKE_BUILD_TYPE=RelWithDebInfo >/dev/null && cmake --build {wt}/_b -j8 && ctest --test-dir {wt}/_b -j8
  2. Convince yourself that behaviour is unchanged: write a differential harness that calls the old and the new code (e.g. the old source files copied aside and compiled under another name or into another binary) on many systematically generated and random inputs, including the corner cases the property names, under -fsanitize=address,undefined, and compare results and buffers byte for byte. If a difference shows up, fix the refactoring (not the harness). If the OLD code misbehaves on some input (crash, sanitizer report, wrong result), keep that behaviour out of the comparison, do not fix it, and describe it under "observations" with the exact input.
  NEVER use `git stash` (the stash is shared between worktrees and other people use it).
{focus}
DELIVERABLES (write them, then stop):
  {wt}.out/patch.diff  - `git -C {wt} diff` of your refactoring (source change only)
  {wt}.out/meta.json   - {{"property": "{id}", "summary": "...what was refactored, place by place...", "files_changed": [...], "differential_check": "...what was compared, how many inputs...", "tests_pass_with_change": true, "observations": [...]}}
Leave the worktree with your change applied (uncommitted). Remove your build directories and harness binaries before finishing to save disk space. Keep your final answer to a few lines.
"""

SEED2 = SEED.replace("It should look like a plausible mistake", "Prefer a kind of mistake OTHER than a changed comparison operator or a changed constant - e.g. state that survives between two calls, two statements in the wrong order, a helper used for one more purpose than it was written for, an assumption about the caller that one caller does not meet, a type that is too narrow, a missing case in a chain, an early return that skips a clean-up, a copy where a reference was meant (or the reverse). It should look like a plausible mistake")

MODERATE = BENIGN.replace("Touch at least four different places of the anchored code and be bold about the *shape* of the code, but", "Keep it to what a maintainer would do in one sitting - three to five places, each a recognisable clean-up of the existing code rather than a rewrite -, and remember that")

for spec in sys.argv[3:]:
    pid, _, mech = spec.partition(":")
    name = pid if not mech else pid
    p = props[pid]
    wt = os.path.join(root, name)
    anchors = "\n".join("- %s (%s)" % (m["name"], m["where"]) for m in p["anchors"]["mechanism"])
    focus = ""
    if mech:
        ms = [p["anchors"]["mechanism"][int(i)] for i in mech.split(",")]
        focus = "\nFOCUS (so that different people cover different code): put your change into this part of the anchored code, or code that directly serves it: %s.\n" % \
            "; or ".join("%s (%s)" % (m["name"], m["where"]) for m in ms)
    txt = HEAD.format(what="seeded defect" if kind in ("seed", "seed2") else "behaviour-preserving refactoring", wt=wt, id=pid, title=p["title"],
                      statement=p["statement"], quant=p["quantifier"]["text"], why=p["why_tests_cant"], anchors=anchors)
    txt += (SEED if kind == "seed" else (SEED2 if kind == "seed2" else (MODERATE if kind == "moderate" else BENIGN))).format(wt=wt, id=pid, focus=focus)
    open(wt + ".prompt.txt", "w").write(txt)
    if not os.path.isdir(wt):
        subprocess.check_call(["git", "-C", "/repo", "worktree", "add", "-q", "--detach", wt, "HEAD"])
    os.makedirs(wt + ".out", exist_ok=True)
    print("prepared", wt)
