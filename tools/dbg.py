#!/usr/bin/env python3
"""tools/dbg.py : debugging helper - `from tools.dbg import F; f = F("/tmp/worktree")` gives the facts of that tree (default /repo)"""
import sys
sys.path.insert(0, "/verif")
from sa import facts


def F(repo=None, ndebug=True):
    return facts.extract(ndebug=ndebug, repo=repo)
