#!/usr/bin/env python3
"""Regenerates MANIFEST.json from the table below (kept here so the manifest is always schema-valid)."""
import json, os
V = os.path.dirname(os.path.dirname(os.path.abspath(__file__)))
props = [json.loads(l) for l in open(os.path.join(V, "properties.jsonl"))]
ids = [p["id"] for p in props]

CLAIMS = {
 "C10": dict(cat="other", tech="finite-domain evaluation of the printer's and scanner's escape tables over all 128 characters x 2 modes (inverse bijection), set comparison of printer case labels vs tags the scanner can produce, literal/keyword/prefix agreement printer -> scanner/checker, per-case union-member discipline, time-tag extent agreement of scanner and checker on the printer's own spellings",
    text="Narrow claim (table agreement only): every character the printer escapes scans back to itself and vice versa in both quoting modes; the printer has a case for every tag and the scanner can produce every printed tag; reserved words and prefixes the printer emits are read back under the same tag by both readers, with the right truth value for true/false; inside the case of tag X printer, scanner and arg-val-math.c touch only X's union member. Numeric round trip, look-ahead, line breaking and range compression are not decided.",
    note="Trusted: clang AST, sa/fdeval.py.",
    ref="DESIGN.md 2 C10"),
 "C11": dict(cat="other", tech="sibling-recogniser agreement between the syntax checker and the scanner: first-character sets, ordered token-class tests of the default branches (differently spelled tests evaluated over ~3300 probe strings with a model of the sscanf directives they use), keyword->tag tables, evaluation of the white-space/comment skipping statements of the four entry loops over separator probes, and evaluation of the scanner's and checker's time-tag branches over date probes (sscanf model with assignments): same extent, no unassigned local read",
    text="Narrow claim: the two hand-written recognisers dispatch on the same first characters, test the same token classes in the same order and agree on every probe string where a test is spelled differently (this is the rule that exposed the date test defect fixed here: \"0 0 -7\" was three integers for the checker and a time stamp for the scanner); they map the reserved words to the same tags; and every entry loop skips any run of white space and %-comments (several comments at one boundary included). Value denotation, ranges and canonicalisation are not decided.",
    note="Trusted: clang AST, sa/fdeval.py, the sscanf model and probe sets in sa/rules/recog.py (agreement is established on the probes only).",
    ref="DESIGN.md 2 C11"),
 "C04": dict(cat="other", tech="IR dominance and instruction-level path search in Ports::dispatch (d.port set / d.obj restored / d.loc truncated / NUL-terminated / matches counted), verdict-table agreement of the type-matcher copies (each copy evaluated on the AST over 5824 (pattern, type string) probes), post-dominance of refreshMagic in the table-building constructors, finite-domain comparison of run-time and build-time hash formulas",
    text="Protocol clauses only: each port callback runs with d.port set to its port, d.obj is restored after every callback, every path from a callback in the location branches to the next iteration or return cuts d.loc back to old_end and appended bytes are NUL-terminated before the callback; d.matches is incremented exactly for leaf ports and for default-handler calls; the three hand-written copies of the type-tag matcher (one used by the linear scan, one by the hashed lookup) are the same function; every constructor that fills the table ends in refreshMagic(); the hash computed at dispatch time is the formula the table was built with, and remap[t] is read only with t in range. Whether the perfect hash and the linear scan accept the same addresses for every table is not decided.",
    note="Trusted: clang AST/-O0 IR, sa/irlib.py, sa/rules/flow.py. Unwind edges are not followed.",
    ref="DESIGN.md 2 C04"),
 "C05": dict(cat="other", tech="finite-domain evaluation of rtosc_match_number's predicate, def-use of its operands, call-site shape (result honoured), restore-before-retry rule on the goto structure of rtosc_match_options; rtosc_match_path (with rtosc_match_options / rtosc_match_number in place, goto followed) evaluated on about 1400 (pattern, address) probe pairs against a transcription of the statement",
    text="Narrow claim: `#N` admits exactly indices < N (predicate table over 0..5 x 0..5, operands traced to atoi of message / pattern digits, both digit runs required and consumed, every caller fails the match on false, rtosc_match_partial uses the same strict bound) and every retry of a `{a,b}` alternative restores the message cursor to its entry value first. On 66 patterns of the documented form x one-place variations of a matching address the path matcher matches exactly when the statement says so and returns the start of the type alternatives. Larger patterns, ambiguous alternatives and the product with type strings are not decided.",
    note="Trusted: clang AST, sa/fdeval.py.",
    ref="DESIGN.md 2 C05"),
 "C09": dict(cat="other", tech="instruction-level path search on the IR of walk_ports / walk_ports_recurse0 / bundle_foreach (truncation at old_end, NUL termination before consumers), finite-domain evaluation of the #N expansion loops, key agreement with rEnabledBy / rSelf",
    text="Narrow claim: the shared name buffer is cut back to old_end on every path after anything wrote into it (walk_ports loop, bundle_foreach exit); bytes appended through a cursor are NUL-terminated before the recursion / walker reads the buffer; the #N expansion loops emit exactly 0..N-1 with N = atoi after '#', the set the matcher accepts; `enabled by` and `self:` are the literals the macros emit. Exactly-once enumeration, run-time pruning and multi-component name surgery are not decided.",
    note="Trusted: clang AST/-O0 IR, sa/rules/flow.py, sa/fdeval.py; snprintf is assumed to NUL-terminate.",
    ref="DESIGN.md 2 C09"),
 "C12": dict(cat="other", tech="metadata-key agreement between savefile-path lookups (AST, literal and literal-prefix keys) and the keys read off the macro expansions in witness units; vararg-count discipline of rtosc_v2args call sites; OSC-format rule on the captured replies",
    text="Narrow structural claim: the keys the save/load pipeline looks up are exactly keys the port macros can emit (a renamed key on either side silently drops defaults, option maps, blob types or enablement); each caller of rtosc_v2args passes the number of value-carrying tags of the same string or guards a single unpack by has_reserved on the same tag (the capture of value-less replies such as a toggle's \"T\" depends on it - the defect fixed here); the replies the capture consumes are type-correct for every macro kind x field type. Does not decide that save->load reproduces the state, minimality, or rejection of malformed files.",
    note="Trusted: clang AST, witness/meta_matrix.cpp + witness/sugar_matrix.cpp. Keys computed at run time are checked through their literal prefix only.",
    ref="DESIGN.md 2 C12"),
 "C13": dict(cat="other", tech="set equality between the key literals scan_deps iterates over and the keys emitted by the dependency macros (witness expansion); separator agreement",
    text="Narrow structural claim: the dependency kinds the sorter reads are exactly the kinds the macros can declare (enabled by / depends / default depends), each used as the metadata lookup key, and dependency lists are split at the separator rDepends emits. Necessary for order independence: an unread kind is applied in file order. Path resolution, transitive edges and the topological sort are not decided.",
    note="Trusted: clang AST, witness/meta_matrix.cpp.",
    ref="DESIGN.md 2 C13"),
 "C19": dict(cat="other", tech="AST sentinel-discipline rule (fields whose none value is -1 never converted to bool), finite-domain enumeration of the conditions guarding learn-queue decrements, finite-domain evaluation of the setSlotSub emit branches (mapped value -> emitted argument, helpers inlined), OSC-format rule, metadata-key agreement with the range macros",
    text="Narrow structural claim: the slot fields using -1 as `none` are discovered from the stores and must never be tested by truthiness; every decrement of a queue position / learn_queue_len must sit under conditions that, enumerated over positions {-1,1,2,3} per slot expression, cannot hold while the reference slot is -1 (the exact history class of the defect fixed here: clearing an idle slot while another waits); setSlotSub's clamp evaluated around the bounds is clamp(v,min,max), precedes the emit and only monotone functions follow; emit calls are type-correct; the metadata keys read are the ones rLinear/rLog/rLogWithLogmin emit. Does not decide linearity of the mapping or queue order over whole histories.",
    note="Trusted: clang AST, sa/fdeval.py, witness/meta_matrix.cpp. The sentinel convention is read off the current tree (>= 6 stores of -1).",
    ref="DESIGN.md 2 C19"),
 "C16": dict(cat="other", tech="finite-domain evaluation of the per-tag case bodies of the two hand-written comparison tables (extracted from the AST, libc memcmp/strcmp modelled) over value domains with ties/prefixes; truth-table comparison of the array guards; AST use-def check that list-level code reads arrays only through the range iterator",
    text="For every scalar tag and every pair/triple of values from a small domain chosen to contain ties, prefixes, zero-extended blobs, NULL strings and the 'immediately' time tag, the extracted case bodies satisfy: eq(l,r) == (cmp(l,r)==0), antisymmetry, the documented order, transitivity, and read only the union member of their tag; the array element-type guards of eq and cmp are the same truth table over all tag pairs; type mismatches are unequal and antisymmetric; eq/cmp/avmessage touch argument arrays only through rtosc_arg_val_itr_*, so range compression cannot be observed by them. The evaluation is exhaustive over the listed finite domains, not over all values; NaN and the iterator's internal arithmetic are not decided.",
    note="Trusted: clang AST, sa/fdeval.py, memcmp/strcmp models (sign of first difference), the domains in sa/props/C16.py.",
    ref="DESIGN.md 2 C16"),
 "C06": dict(cat="other", tech="IR access classification of the three ring indices (atomic load/store + ordering, AST check of explicit memory orders), CFG reachability between publish store and buffer copies, call-graph ownership of index stores, dominance of space and MaxMsg guards",
    text="Decides the structural obligations every interleaving relies on: indices are std::atomic and accessed only atomically with acquire/release or stronger order; in ring_write (ring_read) no copy into (out of) the ring buffer is reachable after the index is published (released) and every copy is followed by an index advance; `write` is stored only from the producer API, `read`/`read_lookahead` only from the consumer API; each ring_write call is dominated by the free-space test on the same length and by a MaxMsg bound. A publish-before-copy or release-before-copy reordering - invisible to the single-threaded test - is reported with both lines. Linearizability and the modular index arithmetic are not decided.",
    note="Trusted: clang -O0 IR, sa/irlib.py; assumes one producer and one consumer thread and that seq_cst/acq-rel atomics provide the visibility order.",
    ref="DESIGN.md 2 C06"),
 "C14": dict(cat="other", tech="witness translation unit instantiating every port macro x field type; typed-AST shape rules on each generated callback; finite-domain evaluation of the clamp statements; OSC-format rule with the va_arg table extracted from rtosc_v2args",
    text="Quantifies over programs: every callback-producing macro of port-sugar.h is expanded over the field types it is used with (41 callbacks) and each expansion must satisfy: format/argument type agreement for every literal type string; a pure query branch answering at data.loc; incoming value read from the union member of the port's tag; clamp statements that, evaluated over values around the bounds in all four min/max presence configurations, compute clamp(v,min,max) with atoi/atof matching the variable type, before the single store, before the broadcast; exactly one correctly shaped /undo_change for numeric/option kinds and none for toggles/strings; array kinds index with one variable parsed from the address. A wrong cast or bound in one macro kind (e.g. floats only) is reported at that kind.",
    note="Trusted: clang AST of the expansions, sa/fdeval.py, the witness matrix (witness/gen_matrix.py). Does not decide option symbol lookup (enum_key) or arithmetic on particular values beyond the evaluated clamp table.",
    ref="DESIGN.md 2 C14"),
 "C07": dict(cat="other", tech="AST shape rules (deref-only access, guarded subscripts, bounded returns), IR taint analysis of lengths assembled from buffer bytes with dominance of bounding comparisons, IR dominance of byte reads by len comparisons, validator/reader table agreement",
    text="Decides, for every byte buffer, the structural soundness conditions of rtosc_message_length / rtosc_valid_message_p: ring memory is read only through the bounds-checked deref(); each subscript in deref() is under its own bound test; every returned non-zero length was tested against the available bytes; a length decoded from the buffer enters position arithmetic only after an upper-bound comparison (otherwise 32-bit wrap defeats the final bound - the defect class found and fixed here); rtosc_valid_message_p reads msg bytes only under a strict counter<len (or len!=0 for msg[0]) edge; and the validator accounts per tag for exactly what arg_size/extract_arg consume. It does not decide agreement with an independent decoder on values.",
    note="Trusted: clang AST/-O0 IR, sa/rules/taint.py (flow-insensitive on stack slots, arithmetic does not propagate taint), sa/irlib.py dominators. R07.5 is a necessary condition only.",
    ref="DESIGN.md 2 C07"),
 "C08": dict(cat="other", tech="IR guard dominance for bundle writers, big-endian sequence check, finite-domain evaluation of the writer/sizer strides over element sizes 4..32, evaluation of the four bundle readers on probe bundles laid out as the writer does (count, offsets, sizes, total length), magic/offset agreement between writer and readers",
    text="Decides structural conditions of lossless bundling for all element sequences: rtosc_bundle and append_bundle write only under an exact capacity guard whose compared amount equals the amount written; length and time-tag codecs are big-endian; writer, size pre-computation and the four independent walkers step by size+4 for every size; magic bytes and header offsets (0/8/16) agree between writer and every reader; prefix value, copy length and advance are one variable measured from the copied message.",
    note="Trusted: clang AST/-O0 IR, sa/fdeval.py, sa/rules/guard.py. Element sizes are assumed to be multiples of 4. Byte identity of nested elements is not decided.",
    ref="DESIGN.md 2 C08"),
 "C17": dict(cat="other", tech="writer/reader agreement: the metadata iterator (MetaContainer::begin, MetaIterator constructor and operator++, metaiterator_advance) is evaluated finite-domain on its AST over every metadata block the port macros produce (macro expansions read off witness units as string literals with embedded NULs) plus hand-made corner cases, and compared with the pairs the block spells; MetaContainer::length evaluated on the same blocks for both ways a container is built; shape rule for find/operator[]",
    text="Narrow claim: on every metadata block that the library's own macros produce (23 metadata macros expanded alone, the complete blocks of 41 macro-generated ports) and on hand-made blocks for the corner cases the statement names (values containing ':' and '=', repeated keys, entries without value, empty value, no leading ':'), the iterator yields in order exactly the (key, value) pairs the block spells; find() and operator[] range over the container and answer with the first entry whose key compares equal; length() reports the block's byte length including its terminator, for a container built on the block as written and behind the stripped ':'. Not decided: arbitrary byte strings as keys and values (keys beginning with ':').",
    note="Trusted: clang AST, sa/fdeval.py, witness/meta_matrix.cpp and witness/sugar_matrix.cpp. The evaluation covers the listed blocks only.",
    ref="DESIGN.md 2 C17"),
 "C15": dict(cat="other", tech="writer/reader agreement on the argument roles of the undo event (AST), finite-domain evaluation of the seek and record bookkeeping over all positions/sizes/distances of a small history (std::deque operations modelled), token evaluation (symbolic events, entries and ages) of rewind, replay and mergeEvent over 351 small histories",
    text="Narrow claim: rewind/replay/mergeEvent take address, old and new value from the argument positions at which the parameter macros put them (C14 R14d) with the matching single type tag; seekHistory rewinds newest first / replays oldest first exactly the events up to the destination clamped to [0,size]; recordEvent drops the undone tail, appends unless merged, and caps the history at max_history_size (= 20) by dropping the oldest; mergeEvent scans newest first, stops at events more than 2 s old and merges on equal address. Not decided: the values carried over whole histories, the wall-clock behaviour.",
    note="Trusted: clang AST, sa/fdeval.py; std::deque assumed to behave as documented.",
    ref="DESIGN.md 2 C15"),
 "C01": dict(cat="other", tech="AST table extraction + finite-domain evaluation: per-tag payload tables of 7 sibling codec functions vs the OSC 1.0 table, big-endian shift sequences, alignment-step tables over pos mod 4, cursor-offset discipline, va_arg/union-member agreement, argument-slot discipline of rtosc_avmessage against rtosc_amessage's over all tag sequences up to length 3",
    text="Decides structural necessary conditions of the wire format for every input: each of the seven hand-written functions that carry a private copy of the type-tag table assigns every tag its OSC 1.0 payload class; every numeric emit/extract sequence is big-endian on consecutive bytes; every alignment step computes the table of its field kind (evaluated over pos mod 4, not matched textually); type-string loops classify the element they tested and skip exactly '[' and ']'; rtosc_v2args reads the promoted C type into the union member the writer reads; the wrappers share one decoder/forward buffers unchanged. It does not decide the bytes for particular values - that part of the property quantifies over run-time values.",
    note="Trusted: clang AST, sa/fdeval.py, idiom recognisers in sa/rules/codec.py (an unknown idiom is exit 2, not a pass), the OSC tag table in sa/props/C01.py.",
    ref="DESIGN.md 2 C01"),
 "C02": dict(cat="other", tech="IR dominance analysis (writes through the destination vs the fits-edge of an exact capacity comparison), sizer/writer summary equality, call-site capacity resolution over the AST",
    text="Decides every clause structurally: writes through (buffer) in rtosc_amessage, rtosc_bundle and append_bundle are dominated by the fits-edge of an exact total<=len comparison whose total comes from the sizer; the does-not-fit edge only zero-fills len bytes and returns 0; the NULL edge reaches no write; vsosc_null mirrors the writer summary for the header and all 17 tags, which bounds every writer index by total<=len; wrappers forward (buffer,len); and all 38 library call sites pass len <= resolved capacity.",
    note="Trusted: clang -O0 IR, sa/irlib.py dominators, pointer derivation (slot/GEP/bitcast, flow-insensitive), sa/rules/capacity.py shapes. assert() is not counted as a guard (NDEBUG build).",
    ref="DESIGN.md 2 C02"),
 "C03": dict(cat="proof", tech="interprocedural effect analysis over the -O0 LLVM IR call graph (allocator/lock/throw/copy primitives, external allow-list, indirect-call policy)",
    text="Every realtime entry point (C API of rtosc.c/dispatch.c, Ports::dispatch, RtData defaults, ThreadLink API, metadata accessors, and every callback generated by the port macros in the witness unit) is a root; the check proves that no allocator, lock, throw, static-init guard, stdio call, std::function/string/vector copy, unlisted external or unexplained indirect call is reachable from it in the whole-program call graph. This is a universal statement over code paths and therefore over all inputs; it is the level the property (an effect property) calls for.",
    note="Trusted: clang -O0 lowering, sa/irlib.py, the external allow-list and indirect-call policy in sa/props/C03.py. Assumes user callbacks are RT safe (documented library contract) and that virtual RtData calls resolve to the RtData defaults. Does not decide page faults, syscalls that are not locks, or loop bounds.",
    ref="DESIGN.md 2 C03"),
}
NA = {
 "C18": "collapsePath / apropos / path_search correctness lives in run-time index and string values (in-place pointer arithmetic, recursive partial matching, sort-and-filter over pairs); no structural necessary condition could be named without freezing a code fragment",
 "C20": "which controller drives which callback is a function of the whole map/unmap/CC history over immutable snapshots rebuilt per step; no clause is visible in the code's shape",
}
DEFAULT_NA = "not yet implemented in this revision of the framework (see DESIGN.md section 2 for the planned rule)"

checks = []
# clauses added in later rounds (kept apart so that the original claim texts stay readable)
ALSO = {
 "C07": " Also decided by evaluation on 65 probe messages (whole, split over two ring segments, followed by other bytes, cut short) and on strings whose first byte is NUL: the validator returns the specified length and agrees with the readers on where every argument lies.",
 "C02": " Where sizer and writer are not written as a tag switch in a loop, they are compared by evaluation on the same probe messages.",
 "C01": " Also decided by evaluation on 65 probe messages against the OSC 1.0 encoding written down from the specification: the sizer's length, every byte the writer emits, and the tag and offset the readers find for every argument. Also decided: the argument iterator, evaluated on probe type strings with nested / adjacent / empty arrays, yields every tag but '[' and ']' in order.",
 "C06": " Also decided: no length or offset is computed from two different loads of the index the other thread advances (label flow on the AST; comparisons exempt).",
 "C04": " Also decided: MergePorts takes two ports for duplicates only if their whole names are equal (test evaluated on name pairs); every lookup branch of Ports::dispatch ends in the default handler when nothing matched.",
 "C17": " Also decided: a metadata macro handed preprocessor constants writes what it writes for their values (witness pairs).",
 "C09": " Also decided: port_is_enabled looks for the enabling port below the sub-tree exactly when the 'enabled by' value begins with the sub-tree's own name and '/' (evaluated on name pairs). Also decided for walk_ports: bytes appended by hand are NUL-terminated before the walker or the recursion reads the buffer.",
 "C10": " Also decided: the printer leaves the second value of a range out exactly when the step is +-1 in the run's own type and no differing value of that type precedes (rtosc_print_range evaluated on symbolic runs), and it has a run's count confirmed by the readers' function for both spellings.",
 "C11": " Also decided: a local the checker is handed as an output it may leave unwritten is defined before, or the call's result is used, or it is not read (IR); the checker's choice of a range's left neighbour sets arrays apart as the scanner's does; the scanner's identifier parser and the checker's consume the same characters on probe words.",
 "C12": " Also decided: the buffer of the composed key `default <value>` holds any printed 32-bit integer; load_from_file, interpreted with a sscanf model on 12 probe files, dispatches only after both header lines scanned completely with the exact application name.",
 "C13": " Also decided: in-degree increments and decrements range over the same collection; the recursive dependency scan is told the level it came from (no endless re-walk for a sub-tree enabled by a port inside it).",
 "C14": " The clamp tables include negative incoming values in the clamp variable's own type, restricted to what the storage type represents.",
 "C16": " Also decided: the range-aware iterator, evaluated on 11 slot layouts, stands on each value once per repetition and leaves a finished range behind the whole repeated value.",
 "C19": " Also decided: every numeric branch of setSlotSub applies exp exactly when the scale is logarithmic (the bounds are kept as logarithms for every type); the counted loops that renumber the learn queue visit every slot.",
}
for i in ids:
    if i in CLAIMS:
        c = dict(CLAIMS[i])
        c["text"] = c["text"] + ALSO.get(i, "")
        checks.append({
            "property_id": i,
            "quick_cmd": "./check %s --tier quick" % i,
            "thorough_cmd": "./check %s --tier thorough" % i,
            "evidence_file": "evidence/%s.json" % i,
            "replay_cmd_template": "./check %s --replay {path}" % i,
            "engine": "sa",
            "level_claimed": {"category": c["cat"], "text": c["text"], "design_ref": c["ref"]},
            "level_note": c["note"],
            "technique": c["tech"],
        })
na = [{"property_id": i, "reason": NA.get(i, DEFAULT_NA)} for i in ids if i not in CLAIMS]
m = {
 "version": 1,
 "setup_cmd": "./setup.sh",
 "hooks": {"guard": "RTOSC_VERIF", "enable": "none needed: the checks analyse /repo's sources as built (no hook is compiled in)",
           "baseline_off_cmd": "cmake -S /repo -B /tmp/rtosc-baseline -G Ninja -DCMAKE_BUILD_TYPE=RelWithDebInfo && cmake --build /tmp/rtosc-baseline -j16 && ctest --test-dir /tmp/rtosc-baseline -j8 --timeout 900; rc=$?; rm -rf /tmp/rtosc-baseline; exit $rc",
           "source_commits": [], "add_only": True},
 "engines": [{"name": "sa", "path": "sa/", "serves_properties": sorted(CLAIMS),
              "kind_free_text": "repository-specific static analysis: clang JSON AST (plugin/repo_ast.cc) + -O0 LLVM IR parsed by sa/irlib.py; rules in sa/rules, per-property instances in sa/props"}],
 "checks": checks,
 "not_applicable": na,
 "notes": "Technique family: static analysis only. Exit codes: 0 holds, 1 VIOLATION, 2 analysis broken (no verdict). See DESIGN.md.",
}
json.dump(m, open(os.path.join(V, "MANIFEST.json"), "w"), indent=1)
print("claimed:", sorted(CLAIMS), "n/a:", [x["property_id"] for x in na])
