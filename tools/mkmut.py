#!/usr/bin/env python3
"""tools/mkmut.py out.diff file 'old' 'new' [file 'old' 'new' ...] : make a patch by exact text replacement in /repo (reverted afterwards)."""
import subprocess, sys
out = sys.argv[1]
trip = sys.argv[2:]
assert len(trip) % 3 == 0 and trip
assert subprocess.run(["git", "-C", "/repo", "diff", "--quiet"]).returncode == 0, "/repo dirty"
try:
    for i in range(0, len(trip), 3):
        f, old, new = trip[i:i+3]
        p = "/repo/" + f
        s = open(p).read()
        assert s.count(old) == 1, "%s: pattern occurs %d times: %r" % (f, s.count(old), old)
        open(p, "w").write(s.replace(old, new))
    d = subprocess.run(["git", "-C", "/repo", "diff"], capture_output=True, text=True).stdout
    open(out, "w").write(d)
    print("wrote", out, len(d.splitlines()), "lines")
finally:
    subprocess.run(["git", "-C", "/repo", "checkout", "--", "."])
