#!/bin/sh
# usage: tools/take_seed.sh <out dir of the agent> <seed name, e.g. C06-c> : confirm, store under seeded/, evaluate (scratch worktree)
O="$1"; N="$2"
if tools/confirm_seed.sh "$O" > /tmp/take.$N.log 2>&1; then
  mkdir -p seeded/$N && cp "$O"/patch.diff "$O"/demo.* "$O"/build_demo.sh "$O"/meta.json seeded/$N/
  P=$(python3 -c "import json;print(json.load(open('seeded/$N/meta.json'))['property'])")
  echo "$N CONFIRMED"; EL=${SE_LINES:-2} EW=${SE_WIDTH:-300} tools/eval_scratch.sh seeded/$N/patch.diff $P
else echo "$N NOT CONFIRMED"; tail -6 /tmp/take.$N.log; fi
