#!/bin/sh
# Build /repo's working tree in a scratch dir with the normal flags (guard off) and run its test suite.
B=$(mktemp -d /tmp/rtosc-baseline.XXXXXX)
trap 'rm -rf "$B"' EXIT INT TERM
cmake -S /repo -B "$B" -G Ninja -DCMAKE_BUILD_TYPE=RelWithDebInfo >/dev/null 2>&1 || { echo "configure failed"; exit 2; }
cmake --build "$B" -j16 2>&1 | tail -3
ctest --test-dir "$B" -j8 --timeout 900 2>&1 | tail -6
