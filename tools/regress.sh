#!/bin/bash
# usage: tools/regress.sh Cxx [Cyy...] : every stored breaking change of the property must be reported (exit 1) and every
# behaviour-preserving variant must not be (exit 0, or 2 = no verdict). Works on scratch worktrees, /repo is left alone.
# One job per patch (jobs for the same tree content would race for the same facts cache entry).
cd /verif
one() {
  kind=$1; patch=$2; shift 2
  EL=0 tools/eval_scratch.sh "$patch" "$@" 2>&1 | grep ' exit=' | while read id rest; do
    rc=$(echo "$rest" | sed -n 's/.*exit=\([0-9]*\).*/\1/p')
    if [ "$kind" = break ]; then [ "$rc" = 1 ] && s=ok || s="MISSED(exit=$rc)"; else [ "$rc" = 1 ] && s="FALSE-ALARM" || s="ok(exit=$rc)"; fi
    echo "$id $kind $patch $s"
  done
}
export -f one
OUT=/tmp/regress.$$.out
{
for id in "$@"; do
  for p in mutants/$id/*.diff seeded/$id-*/patch.diff; do [ -f "$p" ] && echo "break $p $id"; done
done
for p in mutants/benign/*.diff; do echo "benign $p $*"; done
} | xargs -P ${JOBS:-8} -L1 bash -c 'one "$0" "$@"' | sort > $OUT
grep -v " ok" $OUT; for p in mutants/*/*.diff seeded/*/patch.diff; do :; done
grep -c "exit=3" $OUT >/dev/null && grep "exit=3" $OUT | sed 's/^/STALE (does not apply to the current tree): /'
echo "regress: $(grep -c ' break .* ok$' $OUT) breaking reported, $(grep -c 'MISSED' $OUT) missed, $(grep -c ' benign .* ok(exit=0)' $OUT) benign silent, $(grep -c ' benign .* ok(exit=2)' $OUT) benign no-verdict, $(grep -c FALSE-ALARM $OUT) false alarms"
grep 'ok(exit=2)' $OUT
rm -f $OUT
