#!/bin/sh
# usage: tools/mut.sh <patch.diff> <Cxx> [Cxx...]   - apply a patch to /repo, run the checks, always revert.
# Prints one line per property: <id> exit=<n> ; exit 1 is the expected outcome for a property-breaking patch.
P="$1"; shift
cd /verif
if ! git -C /repo diff --quiet; then echo "/repo has uncommitted changes - refusing"; exit 3; fi
git -C /repo apply "$P" || { echo "patch does not apply"; exit 3; }
trap 'git -C /repo checkout -- . ' EXIT INT TERM
for id in "$@"; do
  ./check "$id" > /tmp/mut.$$.out 2>&1; rc=$?
  echo "$id exit=$rc $(grep -c '^VIOLATION' /tmp/mut.$$.out) violation line(s)"
  grep -E '^  R|ANALYSIS-BROKEN' /tmp/mut.$$.out | cut -c1-400 | head -${MUT_LINES:-6}
done
rm -f /tmp/mut.$$.out
