#!/bin/sh
# usage: tools/seed_eval.sh <seed dir under /verif/seeded> [check ids...]  (default: the property named in meta.json)
D=$(cd "$1" && pwd); shift
P=$(python3 -c "import json,sys;print(json.load(open('$D/meta.json'))['property'])")
[ $# -gt 0 ] || set -- "$P"
cd /verif
if ! git -C /repo diff --quiet; then echo "/repo dirty"; exit 3; fi
git -C /repo apply "$D/patch.diff" || exit 3
trap 'git -C /repo checkout -- .' EXIT INT TERM
for id in "$@"; do
  ./check "$id" > /tmp/se.$$.out 2>&1; rc=$?
  echo "seed $(basename $D) vs $id: exit=$rc"
  grep -E '^  R|ANALYSIS-BROKEN' /tmp/se.$$.out | cut -c1-${SE_WIDTH:-330} | head -${SE_LINES:-3}
done
rm -f /tmp/se.$$.out
