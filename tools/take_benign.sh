#!/bin/sh
# usage: tools/take_benign.sh <out dir of the agent> <name, e.g. refactor3_C06> : store the refactoring under mutants/benign/ and run
# every check against it in a scratch worktree; prints only the checks that are not silent (exit 1 = false alarm, 2 = no verdict)
O="$1"; N="$2"
ALL="C01 C02 C03 C04 C05 C06 C07 C08 C09 C10 C11 C12 C13 C14 C15 C16 C17 C19"
git -C /repo apply --check "$O/patch.diff" || { echo "$N: patch does not apply to /repo HEAD"; exit 3; }
cp "$O/patch.diff" mutants/benign/$N.diff
tools/eval_scratch.sh mutants/benign/$N.diff $ALL 2>&1 | cut -c1-${EW:-330} | awk '/exit=0/ {ok++; next} {print} END {print "'$N': " ok+0 " of 18 silent"}'
