#!/bin/sh
# usage: tools/confirm_seed.sh <dir with patch.diff, build_demo.sh, demo.*>
# Confirms, in a scratch worktree of /repo HEAD: demo passes without the patch; with the patch the library builds,
# all 31 tests pass and the demo fails. Prints CONFIRMED / NOT-CONFIRMED with the reasons. Cleans up after itself.
D=$(cd "$1" && pwd)
W=$(mktemp -d /tmp/seedconf.XXXXXX)
git -C /repo worktree add -q --detach "$W/src" HEAD || exit 3
cleanup() { git -C /repo worktree remove --force "$W/src" 2>/dev/null; rm -rf "$W"; }
trap cleanup EXIT INT TERM
cd "$W" || exit 3
cp "$D"/demo.* "$W"/ 2>/dev/null
# the agent's script may hard-code its own worktree path: rewrite to $1 usage if needed
sed "s#/tmp/w[a-z]*[0-9]*/C[0-9][0-9][a-z]*#$W/src#g" "$D/build_demo.sh" > "$W/build_demo.sh"; chmod +x "$W/build_demo.sh"
( cd "$W" && sh ./build_demo.sh "$W/src" >"$W/demo_clean.log" 2>&1 ); rc_clean=$?
git -C "$W/src" apply "$D/patch.diff" || { echo "NOT-CONFIRMED: patch does not apply"; exit 1; }
cmake -S "$W/src" -B "$W/b" -G Ninja -DCMAKE_BUILD_TYPE=RelWithDebInfo >/dev/null 2>&1 && cmake --build "$W/b" -j16 >"$W/build.log" 2>&1; rc_build=$?
ctest --test-dir "$W/b" -j8 --timeout 600 >"$W/ctest.log" 2>&1; rc_test=$?
npass=$(grep -c "Passed" "$W/ctest.log")
( cd "$W" && rm -f demo_bin && sh ./build_demo.sh "$W/src" >"$W/demo_patched.log" 2>&1 ); rc_patched=$?
echo "demo without patch: exit $rc_clean ; build with patch: exit $rc_build ; ctest with patch: exit $rc_test ($npass passed) ; demo with patch: exit $rc_patched"
if [ $rc_clean -eq 0 ] && [ $rc_build -eq 0 ] && [ $rc_test -eq 0 ] && [ $rc_patched -ne 0 ]; then echo CONFIRMED; exit 0; fi
echo NOT-CONFIRMED; tail -5 "$W/demo_clean.log" "$W/demo_patched.log" | head -30; exit 1
