#!/bin/sh
# usage: tools/eval_scratch.sh <patch> <Cxx> [Cxx...] : apply the patch to a scratch worktree of /repo HEAD and run the checks
# against it (VERIF_REPO), without touching /repo's working tree.
P=$(readlink -f "$1"); shift
W=$(mktemp -d /tmp/evalscratch.XXXXXX)
git -C /repo worktree add -q --detach "$W/src" HEAD || exit 3
trap 'git -C /repo worktree remove --force "$W/src" 2>/dev/null; rm -rf "$W"' EXIT INT TERM
git -C "$W/src" apply "$P" || { for id in "$@"; do echo "$id exit=3 patch does not apply"; done; exit 3; }
cd /verif
for id in "$@"; do
  VERIF_REPO="$W/src" ./check "$id" > "$W/out" 2>&1; rc=$?
  echo "$id exit=$rc $(grep -c '^VIOLATION' "$W/out") violation line(s)"
  [ -n "$EKEEP" ] && [ "$rc" != 0 ] && cp "$W/out" "$EKEEP/$(basename "$P").$id.out"
  grep -E '^  R|ANALYSIS-BROKEN' "$W/out" | sed "s#$W/src#<scratch>#g" | cut -c1-${EW:-330} | head -${EL:-4}; true
done
