// clang frontend plugin "repo-ast": dump, as clang's own JSON AST, exactly the
// declarations whose expansion location lies under one of the given path
// prefixes (plugin args: out=<file> prefix=<dir> [prefix=<dir> ...]).
// Namespaces and extern "C" blocks are entered, so the output is a flat JSON
// array of function / record / variable / typedef / enum declarations.
#include "clang/AST/ASTConsumer.h"
#include "clang/AST/ASTContext.h"
#include "clang/AST/Decl.h"
#include "clang/AST/DeclCXX.h"
#include "clang/Basic/SourceManager.h"
#include "clang/Frontend/CompilerInstance.h"
#include "clang/Frontend/FrontendPluginRegistry.h"
#include "llvm/Support/raw_ostream.h"
#include <string>
#include <vector>

using namespace clang;

namespace {
struct Opts {
  std::string out;
  std::vector<std::string> prefixes;
};

class Consumer : public ASTConsumer {
  Opts O;
  bool first = true;

public:
  explicit Consumer(Opts o) : O(std::move(o)) {}

  bool wanted(const Decl *D, const SourceManager &SM) {
    SourceLocation L = SM.getExpansionLoc(D->getLocation());
    if (L.isInvalid())
      return false;
    PresumedLoc P = SM.getPresumedLoc(L);
    if (P.isInvalid())
      return false;
    std::string F = P.getFilename();
    for (auto &p : O.prefixes)
      if (F.compare(0, p.size(), p) == 0)
        return true;
    return false;
  }

  void walk(const DeclContext *DC, ASTContext &Ctx, llvm::raw_ostream &OS) {
    const SourceManager &SM = Ctx.getSourceManager();
    for (const Decl *D : DC->decls()) {
      if (auto *NS = dyn_cast<NamespaceDecl>(D)) {
        walk(NS, Ctx, OS);
        continue;
      }
      if (auto *LS = dyn_cast<LinkageSpecDecl>(D)) {
        walk(LS, Ctx, OS);
        continue;
      }
      if (D->isImplicit())
        continue;
      if (!wanted(D, SM))
        continue;
      if (!first)
        OS << ",\n";
      first = false;
      D->dump(OS, /*Deserialize=*/false, ADOF_JSON);
    }
  }

  void HandleTranslationUnit(ASTContext &Ctx) override {
    std::error_code EC;
    llvm::raw_fd_ostream OS(O.out, EC);
    if (EC) {
      llvm::errs() << "repo-ast: cannot open " << O.out << "\n";
      return;
    }
    OS << "[\n";
    walk(Ctx.getTranslationUnitDecl(), Ctx, OS);
    OS << "\n]\n";
  }
};

class Action : public PluginASTAction {
  Opts O;

protected:
  std::unique_ptr<ASTConsumer> CreateASTConsumer(CompilerInstance &,
                                                 llvm::StringRef) override {
    return std::make_unique<Consumer>(O);
  }
  bool ParseArgs(const CompilerInstance &,
                 const std::vector<std::string> &args) override {
    for (auto &a : args) {
      if (a.rfind("out=", 0) == 0)
        O.out = a.substr(4);
      else if (a.rfind("prefix=", 0) == 0)
        O.prefixes.push_back(a.substr(7));
    }
    return !O.out.empty();
  }
  ActionType getActionType() override { return ReplaceAction; }
};
} // namespace

static FrontendPluginRegistry::Add<Action> X("repo-ast",
                                              "dump repo declarations as JSON");
