#!/bin/sh
# Build the AST-dump plugin (the only compiled artefact of the framework). Offline, ~11 s.
set -e
cd "$(dirname "$0")"
mkdir -p build evidence reports
clang++ $(llvm-config-14 --cxxflags) -fPIC -shared plugin/repo_ast.cc -o build/repo_ast.so
echo "plugin built: build/repo_ast.so"
