"""Parser for clang-14 -O0 textual LLVM IR (typed pointers) plus the graph
algorithms the rules need: CFG, dominators, post-dominators, reachability,
and a module-spanning call graph joined by symbol name.
"""
import re
import subprocess

from .facts import AnalysisBroken

_NAME = r'(?:@[-\w.$]+|@"[^"]+"|%[-\w.$]+|%"[^"]+")'
_RE_DEFINE = re.compile(r'^define\s+(.*?)(@[-\w.$]+|@"[^"]+")\((.*)\)\s*([^{]*)\{\s*$')
_RE_DEFNAME = re.compile(r'^define\s+(.*?)(@[-\w.$]+|@"[^"]+")\(')
_RE_DECLARE = re.compile(r'^declare\s+(.*?)(@[-\w.$]+|@"[^"]+")\((.*)\)(.*)$')
_RE_LABEL = re.compile(r'^([-\w.$]+|"[^"]+"):')
_RE_ASSIGN = re.compile(r'^\s+(%[-\w.$]+|%"[^"]+")\s*=\s*(.*)$')
_RE_DBG = re.compile(r'!dbg !(\d+)')
_RE_CALLEE = re.compile(r'(?<![\w"*])(' + _NAME + r')\(')
_RE_SSA = re.compile(r'(?<![\w"])(%[-\w.$]+|%"[^"]+")')
_RE_GLOBAL = re.compile(r'(@[-\w.$]+|@"[^"]+")')
_RE_MD = re.compile(r'^!(\d+) = (?:distinct )?!(\w+)\((.*)\)\s*$')
_RE_ATTRGRP = re.compile(r'^attributes #(\d+) = \{(.*)\}\s*$')


def _is_type_name(o):
    return o.startswith('%"') or o.startswith(("%struct.", "%class.", "%union.", "%\"struct", "%\"class", "%\"union"))


def _strip_name(n):
    n = n[1:]
    if n.startswith('"'):
        n = n[1:-1]
    return n


def split_top(s, sep=","):
    out, depth, cur, inq = [], 0, [], False
    for ch in s:
        if ch == '"':
            inq = not inq
        if not inq:
            if ch in "([{<":
                depth += 1
            elif ch in ")]}>":
                depth -= 1
            elif ch == sep and depth == 0:
                out.append("".join(cur).strip())
                cur = []
                continue
        cur.append(ch)
    t = "".join(cur).strip()
    if t:
        out.append(t)
    return out


class Inst:
    __slots__ = ("fn", "block", "idx", "res", "op", "text", "dbg", "callee", "indirect", "args", "ops",
                 "succs", "attrs", "cases")

    def __init__(self):
        self.callee = None
        self.indirect = False
        self.args = []
        self.succs = []
        self.attrs = ()
        self.cases = None

    @property
    def line(self):
        return self.fn.module.dbg_line(self.dbg)

    @property
    def file(self):
        return self.fn.module.dbg_file(self.dbg)

    def where(self):
        return "%s:%s" % (self.file or self.fn.file, self.line)

    def __repr__(self):
        return "<%s %s @%s>" % (self.op, (self.res or ""), self.where())


class Block:
    __slots__ = ("label", "insts", "succs", "preds", "index")

    def __init__(self, label, index):
        self.label = label
        self.insts = []
        self.succs = []
        self.preds = []
        self.index = index


class Function:
    def __init__(self, module, name, header):
        self.module = module
        self.name = name
        self.header = header
        self.internal = bool(re.search(r'\b(internal|private)\b', header))
        self.linkonce = bool(re.search(r'\b(linkonce_odr|weak_odr|linkonce|weak|available_externally)\b', header))
        self.blocks = []
        self.bmap = {}
        self.params = []
        self.dbg_sp = None
        self.attr_groups = ()
        self._dom = None
        self._pdom = {}
        self._defs = None

    @property
    def file(self):
        return self.module.sp_file(self.dbg_sp)

    @property
    def line(self):
        return self.module.sp_line(self.dbg_sp)

    @property
    def key(self):
        return (self.module.name + ":" + self.name) if self.internal else self.name

    def insts(self):
        for b in self.blocks:
            for i in b.insts:
                yield i

    def calls(self):
        for i in self.insts():
            if i.op in ("call", "invoke"):
                yield i

    def defs(self):
        if self._defs is None:
            self._defs = {i.res: i for i in self.insts() if i.res}
        return self._defs

    # ------------------------------------------------------------- dominators
    def _compute_dom(self, blocks, entry, succs_of, preds_of):
        # iterative set-based algorithm (functions are small)
        allb = set(b.label for b in blocks)
        dom = {b.label: set(allb) for b in blocks}
        dom[entry] = {entry}
        order = [b.label for b in blocks]
        changed = True
        while changed:
            changed = False
            for l in order:
                if l == entry:
                    continue
                ps = [p for p in preds_of(l) if p in dom]
                if ps:
                    new = set.intersection(*(dom[p] for p in ps)) | {l}
                else:
                    new = {l}
                if new != dom[l]:
                    dom[l] = new
                    changed = True
        return dom

    def dom(self):
        if self._dom is None:
            reach = self.reachable_blocks(self.blocks[0].label)
            blocks = [b for b in self.blocks if b.label in reach]
            self._dom = self._compute_dom(blocks, self.blocks[0].label,
                                          lambda l: self.bmap[l].succs,
                                          lambda l: [p for p in self.bmap[l].preds if p in reach])
        return self._dom

    def pdom(self, exits_ops=("ret",)):
        """Post-dominator sets w.r.t. a virtual exit joined to every block whose terminator op is in exits_ops.
        Blocks that cannot reach such an exit (abort paths) are not in the result."""
        key = tuple(exits_ops)
        if key not in self._pdom:
            exits = [b.label for b in self.blocks if b.insts and b.insts[-1].op in exits_ops]
            EXIT = "<exit>"
            # blocks that can reach an exit
            can = set(exits)
            work = list(exits)
            while work:
                l = work.pop()
                for p in self.bmap[l].preds:
                    if p not in can:
                        can.add(p)
                        work.append(p)

            class _B:
                def __init__(s, label):
                    s.label = label
            blocks = [_B(EXIT)] + [_B(b.label) for b in reversed(self.blocks) if b.label in can]

            def rsucc(l):  # successors in reverse graph = preds
                return []

            def rpreds(l):  # predecessors in the reverse graph = successors in the CFG (+ virtual exit)
                if l == EXIT:
                    return []
                ps = [s for s in self.bmap[l].succs if s in can]
                if l in exits:
                    ps.append(EXIT)
                return ps
            self._pdom[key] = self._compute_dom(blocks, EXIT, rsucc, rpreds)
        return self._pdom[key]

    def dominates(self, a, b):
        """Instruction a dominates instruction b (a executes before b on every path from entry)."""
        if a.block is b.block:
            return a.idx < b.idx
        d = self.dom()
        return b.block.label in d and a.block.label in d[b.block.label]

    def postdominates(self, a, b, exits_ops=("ret",)):
        """Instruction a post-dominates b: every path from b to a normal exit passes a."""
        if a.block is b.block and a.idx > b.idx:
            return True
        pd = self.pdom(exits_ops)
        if b.block.label not in pd:
            return True   # b cannot reach a normal exit at all
        return a.block is not b.block and a.block.label in pd[b.block.label]

    def reachable_blocks(self, start, avoid=()):
        seen = {start}
        work = [start]
        while work:
            l = work.pop()
            for s in self.bmap[l].succs:
                if s not in seen and s not in avoid:
                    seen.add(s)
                    work.append(s)
        return seen

    def reaches(self, a, b):
        """Is there a CFG path from just after instruction a to instruction b?"""
        if a.block is b.block and a.idx < b.idx:
            return True
        seen = set()
        work = list(a.block.succs)
        while work:
            l = work.pop()
            if l in seen:
                continue
            seen.add(l)
            if l == b.block.label:
                return True
            work.extend(self.bmap[l].succs)
        return False

    def _short_circuit(self, pred_label, label):
        """`a && b` / `a || b` at -O0 meet in a block `%p = phi i1 [const, A], [%b, B]; br i1 %p, T, F`.  Coming from A the
        branch is decided: returns the only successor that can follow (else None).  Used to keep dominance queries from
        following the infeasible path A -> join -> (other side)."""
        b = self.bmap[label]
        real = [i for i in b.insts if not (i.op == "call" and i.callee and i.callee.startswith("llvm.dbg"))]
        if len(real) != 2 or real[0].op != "phi" or real[1].op != "br" or len(real[1].succs) != 2:
            return None
        phi, br = real
        if not phi.text.startswith("phi i1") or phi.res not in br.ops:
            return None
        for val, lab in re.findall(r'\[ *([^,\]]+), *%([-\w.$"]+) *\]', phi.text):
            if lab.strip('"') == pred_label and val.strip() in ("true", "false"):
                return br.succs[0] if val.strip() == "true" else br.succs[1]
        return None

    def edge_dominates(self, src_label, dst_label, target_inst):
        """Does the CFG edge src->dst dominate target_inst (every path from entry to target uses that edge)?
        Computed by deleting the edge and testing reachability of target from entry; short-circuit joins are threaded."""
        entry = self.blocks[0].label
        seen = {entry}
        work = [entry]
        tgt = target_inst.block.label
        while work:
            l = work.pop()
            for s in self.bmap[l].succs:
                if l == src_label and s == dst_label:
                    continue
                t = self._short_circuit(l, s) if s != tgt else None
                if t is not None:
                    # pass through the join block without making it (or its other side) reachable
                    if s == src_label and t == dst_label:
                        continue
                    key = (s, t)
                    if key not in seen:
                        seen.add(key)
                        if t not in seen:
                            seen.add(t)
                            work.append(t)
                    continue
                if s not in seen:
                    seen.add(s)
                    work.append(s)
        if tgt not in seen:
            return True
        return False


class Module:
    def __init__(self, name):
        self.name = name
        self.functions = {}
        self.declares = {}
        self.md = {}
        self.attr_groups = {}
        self.globals = {}
        self.aliases = {}

    def _mdfield(self, mid, field):
        m = self.md.get(mid)
        if not m:
            return None
        r = re.search(r'\b' + field + r': ([^,)]+|"[^"]*")', m[1])
        return r.group(1) if r else None

    def dbg_line(self, mid):
        v = self._mdfield(mid, "line")
        return int(v) if v and v.isdigit() else None

    def _scope_file(self, mid, depth=0):
        if mid is None or depth > 50:
            return None
        m = self.md.get(mid)
        if not m:
            return None
        if m[0] == "DIFile":
            r = re.search(r'filename: "([^"]*)"', m[1])
            d = re.search(r'directory: "([^"]*)"', m[1])
            fn = r.group(1) if r else None
            if fn and not fn.startswith("/") and d:
                fn = d.group(1).rstrip("/") + "/" + fn
            return fn
        f = self._mdfield(mid, "file")
        if f and f.startswith("!"):
            return self._scope_file(int(f[1:]), depth + 1)
        s = self._mdfield(mid, "scope")
        if s and s.startswith("!"):
            return self._scope_file(int(s[1:]), depth + 1)
        return None

    def dbg_file(self, mid):
        s = self._mdfield(mid, "scope")
        if s and s.startswith("!"):
            return self._scope_file(int(s[1:]))
        return None

    def sp_file(self, mid):
        return self._scope_file(mid)

    def sp_line(self, mid):
        return self.dbg_line(mid)

    def is_noreturn_decl(self, name):
        d = self.declares.get(name)
        if not d:
            return False
        for g in re.findall(r'#(\d+)', d):
            if "noreturn" in self.attr_groups.get(int(g), ""):
                return True
        return "noreturn" in d


def _parse_call(inst, body):
    """body: text after 'call'/'invoke' keyword."""
    m = None
    # skip over a possible function-type prefix: search callee occurrences and take the first whose
    # following parenthesis closes before the instruction's metadata/attrs.
    for mm in _RE_CALLEE.finditer(body):
        m = mm
        break
    if not m:
        # e.g. call void asm sideeffect "...", or a constant-expression callee
        if " asm " in body:
            inst.callee = "<asm>"
            return
        mb = re.search(r'bitcast \(.*?(@[-\w.$]+|@"[^"]+")', body)
        if mb:
            inst.callee = _strip_name(mb.group(1))
            return
        inst.indirect = True
        return
    name = m.group(1)
    # argument list
    start = m.end()
    depth, j = 1, start
    inq = False
    while j < len(body) and depth:
        c = body[j]
        if c == '"':
            inq = not inq
        elif not inq:
            if c == "(":
                depth += 1
            elif c == ")":
                depth -= 1
        j += 1
    argtext = body[start:j - 1]
    args = []
    for a in split_top(argtext):
        if a.startswith("metadata"):
            args.append(a)
            continue
        toks = a.split()
        args.append(toks[-1] if toks and not a.rstrip().endswith(")") else a)
    inst.args = args
    if name.startswith("@"):
        inst.callee = _strip_name(name)
    else:
        inst.indirect = True
        inst.callee = name
    inst.attrs = tuple(int(x) for x in re.findall(r'#(\d+)', body[j:]))


def parse_module(path, name):
    mod = Module(name)
    fn = None
    blk = None
    idx = 0
    pending = None
    try:
        lines = open(path).read().split("\n")
    except OSError as e:
        raise AnalysisBroken("cannot read IR %s: %s" % (path, e))
    i = 0
    while i < len(lines):
        line = lines[i]
        i += 1
        if fn is None:
            if line.startswith("define "):
                m = _RE_DEFNAME.match(line)
                if not m:
                    raise AnalysisBroken("cannot parse define: " + line[:200])
                fname = _strip_name(m.group(2))
                fn = Function(mod, fname, m.group(1))
                # balanced parameter list
                j = m.end()
                depth, inq = 1, False
                while j < len(line) and depth:
                    c = line[j]
                    if c == '"':
                        inq = not inq
                    elif not inq:
                        if c == "(":
                            depth += 1
                        elif c == ")":
                            depth -= 1
                    j += 1
                ptext = line[m.end():j - 1]
                tail = line[j:]
                d = _RE_DBG.search(tail)
                fn.dbg_sp = int(d.group(1)) if d else None
                fn.attr_groups = tuple(int(x) for x in re.findall(r'#(\d+)', tail))
                ps = []
                for p in split_top(ptext):
                    toks = p.split()
                    ps.append(toks[-1] if toks and toks[-1].startswith("%") else None)
                fn.params = ps
                blk = Block("<entry>", 0)
                fn.blocks.append(blk)
                fn.bmap[blk.label] = blk
                idx = 0
                continue
            if line.startswith("declare "):
                m = _RE_DECLARE.match(line)
                if m:
                    mod.declares[_strip_name(m.group(2))] = line
                continue
            if line.startswith("!"):
                m = _RE_MD.match(line)
                if m:
                    mod.md[int(m.group(1))] = (m.group(2), m.group(3))
                continue
            if line.startswith("attributes #"):
                m = _RE_ATTRGRP.match(line)
                if m:
                    mod.attr_groups[int(m.group(1))] = m.group(2)
                continue
            if line.startswith("@"):
                g = line.split(" = ", 1)
                gname = _strip_name(g[0].strip())
                mod.globals[gname] = g[1] if len(g) > 1 else ""
                if len(g) > 1 and re.search(r'\balias\b', g[1]):
                    tg = _RE_GLOBAL.findall(g[1])
                    if tg:
                        mod.aliases[gname] = _strip_name(tg[-1])
                continue
            continue
        # inside a function
        if line == "}":
            _finish_function(fn)
            mod.functions[fn.name] = fn
            fn = None
            continue
        if not line.strip():
            continue
        m = _RE_LABEL.match(line)
        if m and not line.startswith(" "):
            lab = m.group(1)
            if lab.startswith('"'):
                lab = lab[1:-1]
            blk = Block(lab, len(fn.blocks))
            fn.blocks.append(blk)
            fn.bmap[lab] = blk
            continue
        text = line
        # multi-line constructs
        if re.match(r'^\s+switch ', text) and text.rstrip().endswith("["):
            while i < len(lines) and not lines[i].strip().startswith("]"):
                text += " " + lines[i].strip()
                i += 1
            text += " " + lines[i].strip()
            i += 1
        if re.match(r'^\s+(%[-\w.$"]+\s*=\s*)?invoke ', text) and " to label " not in text:
            text += " " + lines[i].strip()
            i += 1
        if re.match(r'^\s+(%[-\w.$"]+\s*=\s*)?landingpad ', text):
            while i < len(lines) and re.match(r'^\s+(catch|filter|cleanup)\b', lines[i]):
                text += " " + lines[i].strip()
                i += 1
        inst = Inst()
        inst.fn = fn
        inst.block = blk
        inst.idx = idx
        idx += 1
        ma = _RE_ASSIGN.match(text)
        if ma:
            inst.res = ma.group(1)
            body = ma.group(2)
        else:
            inst.res = None
            body = text.strip()
        inst.text = body
        d = _RE_DBG.search(body)
        inst.dbg = int(d.group(1)) if d else None
        toks = body.split(None, 1)
        op = toks[0]
        if op in ("tail", "musttail", "notail") and len(toks) > 1 and toks[1].startswith("call"):
            op = "call"
            body = toks[1]
            toks = body.split(None, 1)
        inst.op = op
        core = body.split(", !dbg")[0]
        if op in ("call", "invoke"):
            _parse_call(inst, toks[1] if len(toks) > 1 else "")
        inst.ops = [o for o in _RE_SSA.findall(core) if not _is_type_name(o)]
        if op == "br":
            inst.succs = [x[1:].strip('"') for x in re.findall(r'label (%[-\w.$]+|%"[^"]+")', core)]
        elif op == "switch":
            labs = re.findall(r'label (%[-\w.$]+|%"[^"]+")', core)
            inst.succs = [x[1:].strip('"') for x in labs]
            inst.cases = [(int(v), l[1:].strip('"')) for v, l in re.findall(r'i\d+ (-?\d+), label (%[-\w.$]+|%"[^"]+")', core.split("[", 1)[-1])]
        elif op == "invoke":
            mm = re.search(r'to label (%[-\w.$]+|%"[^"]+") unwind label (%[-\w.$]+|%"[^"]+")', body)
            if mm:
                inst.succs = [mm.group(1)[1:].strip('"'), mm.group(2)[1:].strip('"')]
        elif op == "indirectbr":
            inst.succs = [x[1:].strip('"') for x in re.findall(r'label (%[-\w.$]+|%"[^"]+")', core)]
        blk.insts.append(inst)
    return mod


def _finish_function(fn):
    # the entry block's real label is the first unused number; successors refer to numeric labels only for others
    for b in fn.blocks:
        if b.insts:
            seen = []
            for s in b.insts[-1].succs:
                if s not in seen:
                    seen.append(s)
            b.succs = seen
    for b in fn.blocks:
        for s in b.succs:
            if s not in fn.bmap:
                raise AnalysisBroken("IR parse: unknown successor %s in %s" % (s, fn.name))
            fn.bmap[s].preds.append(b.label)


# --------------------------------------------------------------------------
# program = all modules joined by symbol name

class Program:
    def __init__(self, modules):
        self.modules = modules
        self.fn = {}          # key -> Function
        self.by_name = {}     # linkage name -> [Function]
        for m in modules:
            for f in m.functions.values():
                self.by_name.setdefault(f.name, []).append(f)
                if f.key not in self.fn:
                    self.fn[f.key] = f
        self._demangled = {}
        self._bulk_done = False
        self.aliases = {}
        for m in modules:
            self.aliases.update(m.aliases)

    def resolve(self, module, name):
        """Definition of symbol `name` as seen from `module` (internal first), or None (external)."""
        for _ in range(4):
            f = module.functions.get(name)
            if f is not None:
                return f
            for g in self.by_name.get(name, []):
                if not g.internal:
                    return g
            if name in module.aliases:
                name = module.aliases[name]
            elif name in self.aliases:
                name = self.aliases[name]
            else:
                return None
        return None

    def demangle(self, names):
        need = [n for n in names if n not in self._demangled]
        if need:
            try:
                out = subprocess.run(["llvm-cxxfilt-14"], input="\n".join(need) + "\n", capture_output=True, text=True).stdout.split("\n")
                for n, d in zip(need, out):
                    self._demangled[n] = d.strip() or n
            except OSError:
                for n in need:
                    self._demangled[n] = n
        return [self._demangled.get(n, n) for n in names]

    def dm(self, name):
        if name not in self._demangled and not self._bulk_done:
            # one llvm-cxxfilt process for every symbol of the program instead of one per query
            self._bulk_done = True
            names = set()
            for m in self.modules:
                names.update(m.functions)
                names.update(m.declares)
            self.demangle(sorted(names))
        return self.demangle([name])[0]

    def find(self, pattern, module=None):
        """Functions whose demangled name matches regex `pattern`."""
        fs = [f for f in self.fn.values() if module is None or f.module.name == module]
        dms = self.demangle([f.name for f in fs])
        rx = re.compile(pattern)
        return [f for f, d in zip(fs, dms) if rx.search(d)]
