"""Helpers over clang's JSON AST (as dumped by plugin/repo_ast.cc).

Nodes stay plain dicts; this module resolves the dumper's delta-encoded source
locations, indexes declarations, and offers walkers, a C pretty-printer used
for reports / canonical comparison, and callee resolution through
`referencedDecl` (never by spelling).
"""
import json

from .facts import AnalysisBroken

COMMENT_KINDS = {"FullComment", "ParagraphComment", "TextComment", "ParamCommandComment",
                 "BlockCommandComment", "InlineCommandComment", "VerbatimLineComment",
                 "VerbatimBlockComment", "VerbatimBlockLineComment", "HTMLStartTagComment",
                 "HTMLEndTagComment", "TParamCommandComment"}

TRANSPARENT = {"ImplicitCastExpr", "ParenExpr", "ExprWithCleanups", "MaterializeTemporaryExpr",
               "CXXBindTemporaryExpr", "ConstantExpr", "CXXFunctionalCastExpr_noop", "FullExpr"}


def _resolve_locs(obj, st):
    """Document-order walk reproducing JSONNodeDumper's LastLocFilename/LastLocLine."""
    if isinstance(obj, dict):
        if "offset" in obj:
            if "file" in obj:
                st[0] = obj["file"]
            else:
                obj["file"] = st[0]
            if "line" in obj:
                st[1] = obj["line"]
            else:
                obj["line"] = st[1]
            return
        for k, v in obj.items():
            if k in ("includedFrom", "referencedDecl", "type", "argType", "foundReferencedDecl"):
                continue
            if isinstance(v, (dict, list)):
                _resolve_locs(v, st)
    elif isinstance(obj, list):
        for v in obj:
            _resolve_locs(v, st)


def _bare(loc):
    if not loc:
        return None
    if "expansionLoc" in loc:
        return loc["expansionLoc"]
    if "offset" in loc:
        return loc
    return None


def _spelling(loc):
    if not loc:
        return None
    if "spellingLoc" in loc:
        return loc["spellingLoc"]
    if "offset" in loc:
        return loc
    return None


def loc(n):
    """(file, line) of the expansion location where node n begins."""
    r = n.get("range") or {}
    b = _bare(r.get("begin")) or _bare(n.get("loc"))
    if b:
        return (b.get("file"), b.get("line"))
    return (None, None)


def spelling_loc(n):
    r = n.get("range") or {}
    b = _spelling(r.get("begin")) or _spelling(n.get("loc"))
    if b:
        return (b.get("file"), b.get("line"))
    return (None, None)


def end_line(n):
    r = n.get("range") or {}
    b = _bare(r.get("end"))
    return b.get("line") if b else None


def where(n):
    f, l = loc(n)
    sf, sl = spelling_loc(n)
    s = "%s:%s" % (f, l)
    if (sf, sl) != (f, l) and sf:
        s += " (macro text at %s:%s)" % (sf, sl)
    return s


def kids(n):
    return [c for c in n.get("inner", []) if c.get("kind") not in COMMENT_KINDS]


def walk(n):
    """Pre-order over all nodes below and including n (comments skipped)."""
    stack = [n]
    while stack:
        x = stack.pop()
        if x.get("kind") in COMMENT_KINDS:
            continue
        yield x
        inner = x.get("inner")
        if inner:
            if x.get("kind") == "LambdaExpr" and any(c.get("kind") == "CXXRecordDecl" for c in inner):
                # the dump lists a lambda's body twice (inside the closure's operator() and as the expression's last
                # child, same node ids): walk it once, through the closure type
                inner = [c for c in inner if c.get("kind") != "CompoundStmt"]
            stack.extend(reversed(inner))


def strip(n):
    """Skip semantically transparent wrappers."""
    while True:
        k = n.get("kind")
        if k in TRANSPARENT and kids(n):
            n = kids(n)[0]
            continue
        if k in ("CStyleCastExpr", "CXXStaticCastExpr", "CXXFunctionalCastExpr", "CXXReinterpretCastExpr",
                 "CXXConstCastExpr") and n.get("castKind") == "NoOp" and kids(n):
            n = kids(n)[0]
            continue
        return n


def strip_casts(n):
    """Skip transparent wrappers and all explicit/implicit casts."""
    while True:
        n2 = strip(n)
        if n2.get("kind") in ("CStyleCastExpr", "CXXStaticCastExpr", "CXXFunctionalCastExpr",
                              "CXXReinterpretCastExpr", "CXXConstCastExpr") and kids(n2):
            n = kids(n2)[-1]
            continue
        return n2


def qtype(n):
    t = n.get("type") or {}
    return t.get("desugaredQualType") or t.get("qualType") or ""


def stype(n):
    t = n.get("type") or {}
    return t.get("qualType") or ""


class Unit:
    def __init__(self, name, decls):
        self.name = name
        self.decls = decls
        self.by_id = {}
        self.parent = {}
        self.functions = {}      # qualified name -> [FunctionDecl with body]
        self.records = {}
        self._index()

    def _index(self):
        ctx_name = {}
        for d in self.decls:
            for n in walk(d):
                i = n.get("id")
                if i:
                    self.by_id[i] = n
                for c in n.get("inner", []):
                    if isinstance(c, dict) and "id" in c:
                        self.parent[c["id"]] = n
        for n in self.by_id.values():
            if n.get("kind") in ("CXXRecordDecl", "RecordDecl", "ClassTemplateSpecializationDecl", "NamespaceDecl", "EnumDecl") and n.get("name"):
                ctx_name[n["id"]] = n["name"]
                self.records.setdefault(n["name"], []).append(n)
        for n in list(self.by_id.values()):
            if n.get("kind") in ("FunctionDecl", "CXXMethodDecl", "CXXConstructorDecl", "CXXDestructorDecl", "CXXConversionDecl"):
                q = n.get("name", "")
                pc = n.get("parentDeclContextId")
                if pc and pc in ctx_name:
                    q = ctx_name[pc] + "::" + q
                else:
                    p = self.parent.get(n["id"])
                    while p is not None:
                        if p.get("kind") in ("CXXRecordDecl", "ClassTemplateSpecializationDecl") and p.get("name"):
                            q = p["name"] + "::" + q
                            break
                        p = self.parent.get(p.get("id"))
                n["_qname"] = q
                if any(c.get("kind") == "CompoundStmt" for c in kids(n)):
                    self.functions.setdefault(q, []).append(n)

    def function(self, qname, required=True):
        fs = self.functions.get(qname, [])
        if not fs:
            if required:
                raise AnalysisBroken("anchor vanished: function %s not found in unit %s" % (qname, self.name))
            return None
        return fs[0]

    def body(self, fn):
        for c in kids(fn):
            if c.get("kind") == "CompoundStmt":
                return c
        return None

    def params(self, fn):
        return [c for c in kids(fn) if c.get("kind") == "ParmVarDecl"]

    def enclosing_function(self, n):
        p = n
        while p is not None:
            if p.get("kind") in ("FunctionDecl", "CXXMethodDecl", "CXXConstructorDecl", "CXXDestructorDecl", "LambdaExpr"):
                return p
            p = self.parent.get(p.get("id"))
        return None

    def ancestors(self, n):
        p = self.parent.get(n.get("id"))
        while p is not None:
            yield p
            p = self.parent.get(p.get("id"))


def load_unit(path, name):
    try:
        decls = json.load(open(path))
    except Exception as e:  # truncated / invalid dump
        raise AnalysisBroken("cannot load AST %s: %s" % (path, e))
    for d in decls:
        _resolve_locs(d, [None, None])
    return Unit(name, decls)


# --------------------------------------------------------------------------
# callee resolution

def callee_decl(call):
    """Returns dict {name,id,kind} of the statically resolved callee of a CallExpr /
    CXXMemberCallExpr / CXXOperatorCallExpr, or None for an indirect call."""
    ks = kids(call)
    if not ks:
        return None
    f = strip_casts(ks[0])
    if f.get("kind") == "DeclRefExpr":
        return f.get("referencedDecl")
    if f.get("kind") == "MemberExpr":
        return {"name": f.get("name"), "id": f.get("referencedMemberDecl"), "kind": "member"}
    return None


def callee_name(call):
    d = callee_decl(call)
    return d.get("name") if d else None


def call_args(call):
    k = call.get("kind")
    ks = kids(call)
    if k == "CXXOperatorCallExpr":
        return ks[1:]
    return ks[1:]


def calls_in(n, name=None):
    for x in walk(n):
        if x.get("kind") in ("CallExpr", "CXXMemberCallExpr", "CXXOperatorCallExpr"):
            if name is None or callee_name(x) == name:
                yield x


def ref_id(n):
    n = strip_casts(n)
    if n.get("kind") == "DeclRefExpr":
        return (n.get("referencedDecl") or {}).get("id")
    return None


def ref_name(n):
    n = strip_casts(n)
    if n.get("kind") == "DeclRefExpr":
        return (n.get("referencedDecl") or {}).get("name")
    return None


def string_literal(n):
    """Value of a (possibly wrapped) StringLiteral as python str (clang prints it quoted/escaped)."""
    n = strip_casts(n)
    if n.get("kind") == "StringLiteral":
        return decode_c_string(n.get("value", ""))
    return None


def decode_c_string(v):
    # v looks like "\"abc\\000def\"" ; may have prefix
    if v.startswith(('u8"', 'L"', 'u"', 'U"')):
        v = v[v.index('"'):]
    if len(v) >= 2 and v[0] == '"' and v[-1] == '"':
        v = v[1:-1]
    out = []
    i = 0
    while i < len(v):
        c = v[i]
        if c != "\\":
            out.append(c)
            i += 1
            continue
        i += 1
        c = v[i]
        if c in "01234567":
            j = i
            while j < len(v) and j < i + 3 and v[j] in "01234567":
                j += 1
            out.append(chr(int(v[i:j], 8)))
            i = j
        elif c == "x":
            j = i + 1
            while j < len(v) and v[j] in "0123456789abcdefABCDEF":
                j += 1
            out.append(chr(int(v[i + 1:j], 16)))
            i = j
        else:
            out.append({"n": "\n", "t": "\t", "r": "\r", "a": "\a", "b": "\b", "f": "\f", "v": "\v",
                        "\\": "\\", '"': '"', "'": "'", "?": "?"}.get(c, c))
            i += 1
    return "".join(out)


def int_literal(n):
    n = strip_casts(n)
    k = n.get("kind")
    if k == "IntegerLiteral":
        return int(n["value"])
    if k == "CharacterLiteral":
        return int(n["value"])
    if k == "CXXBoolLiteralExpr":
        return 1 if n.get("value") else 0
    if k == "UnaryOperator" and n.get("opcode") == "-":
        v = int_literal(kids(n)[0])
        return -v if v is not None else None
    return None


# --------------------------------------------------------------------------
# pretty printer (canonical text of an expression / statement)

def src(n, names=None):
    """C-like rendering. `names` optionally maps decl id -> replacement name (alpha renaming)."""
    def nm(d):
        if names is not None and d.get("id") in names:
            return names[d["id"]]
        return d.get("name", "?")

    def r(x):
        k = x.get("kind")
        ks = kids(x)
        if k in TRANSPARENT:
            if k == "ParenExpr":
                return "(" + r(ks[0]) + ")"
            return r(ks[0]) if ks else ""
        if k == "IntegerLiteral":
            return str(x.get("value"))
        if k == "CharacterLiteral":
            v = int(x.get("value"))
            return repr(chr(v)) if 32 <= v < 127 else "'\\x%02x'" % v
        if k == "FloatingLiteral":
            return str(x.get("value"))
        if k == "StringLiteral":
            return x.get("value", "")
        if k == "CXXBoolLiteralExpr":
            return "true" if x.get("value") else "false"
        if k in ("CXXNullPtrLiteralExpr", "GNUNullExpr"):
            return "nullptr"
        if k == "DeclRefExpr":
            return nm(x.get("referencedDecl") or {})
        if k == "MemberExpr":
            base = r(ks[0]) if ks else "this"
            return base + ("->" if x.get("isArrow") else ".") + x.get("name", "?")
        if k == "CXXThisExpr":
            return "this"
        if k == "ArraySubscriptExpr":
            return r(ks[0]) + "[" + r(ks[1]) + "]"
        if k == "UnaryOperator":
            op = x.get("opcode")
            if x.get("isPostfix"):
                return r(ks[0]) + op
            return op + r(ks[0])
        if k in ("BinaryOperator", "CompoundAssignOperator"):
            return r(ks[0]) + " " + x.get("opcode") + " " + r(ks[1])
        if k == "ConditionalOperator":
            return r(ks[0]) + " ? " + r(ks[1]) + " : " + r(ks[2])
        if k in ("CStyleCastExpr", "CXXStaticCastExpr", "CXXReinterpretCastExpr", "CXXConstCastExpr", "CXXFunctionalCastExpr"):
            return "(" + stype(x) + ")" + r(ks[-1])
        if k in ("CallExpr", "CXXMemberCallExpr"):
            return r(ks[0]) + "(" + ", ".join(r(a) for a in ks[1:]) + ")"
        if k == "CXXOperatorCallExpr":
            return r(ks[0]) + "(" + ", ".join(r(a) for a in ks[1:]) + ")"
        if k == "UnaryExprOrTypeTraitExpr":
            if ks:
                return x.get("name", "sizeof") + "(" + r(ks[0]) + ")"
            return x.get("name", "sizeof") + "(" + ((x.get("argType") or {}).get("qualType", "?")) + ")"
        if k == "VAArgExpr":
            return "va_arg(" + r(ks[0]) + ", " + stype(x) + ")"
        if k == "InitListExpr":
            return "{" + ", ".join(r(a) for a in ks) + "}"
        if k == "CXXConstructExpr":
            return stype(x) + "(" + ", ".join(r(a) for a in ks) + ")"
        if k == "CXXDefaultArgExpr":
            return "<default>"
        if k == "CompoundStmt":
            return "{ " + " ".join(r(a) for a in ks) + " }"
        if k == "DeclStmt":
            return " ".join(r(a) for a in ks)
        if k == "VarDecl":
            s = stype(x) + " " + nm(x)
            if ks:
                s += " = " + r(ks[-1])
            return s + ";"
        if k == "ReturnStmt":
            return "return " + (r(ks[0]) if ks else "") + ";"
        if k == "IfStmt":
            s = "if(" + r(ks[0]) + ") " + r(ks[1])
            if len(ks) > 2:
                s += " else " + r(ks[2])
            return s
        if k == "WhileStmt":
            return "while(" + r(ks[0]) + ") " + r(ks[-1])
        if k == "DoStmt":
            return "do " + r(ks[0]) + " while(" + r(ks[1]) + ");"
        if k == "ForStmt":
            return "for(...) " + r(ks[-1])
        if k == "NullStmt":
            return ";"
        if k == "BreakStmt":
            return "break;"
        if k == "ContinueStmt":
            return "continue;"
        if k == "SwitchStmt":
            return "switch(" + r(ks[0]) + ") " + r(ks[-1])
        if k == "CaseStmt":
            return "case " + r(ks[0]) + ": " + " ".join(r(a) for a in ks[1:])
        if k == "DefaultStmt":
            return "default: " + " ".join(r(a) for a in ks)
        if k == "LambdaExpr":
            return "[lambda]"
        return "<" + str(k) + ">"
    s = r(n)
    if n.get("kind", "").endswith("Operator") or n.get("kind") in ("CallExpr", "CXXMemberCallExpr"):
        return s
    return s
