"""Check framework: obligations, known findings, evidence, reports, exit codes."""
import json
import os
import sys
import time
import traceback

from . import facts as F
from .facts import AnalysisBroken

VERIF = F.VERIF
EVIDENCE_DIR = os.path.join(VERIF, "evidence")
if os.environ.get("VERIF_REPO") and os.path.realpath(os.environ["VERIF_REPO"]) != os.path.realpath("/repo"):
    # a run against a scratch copy (sensitivity runs, seeds, refactorings): its evidence and reports are not /repo's
    EVIDENCE_DIR = os.path.join(os.environ["VERIF_REPO"], ".verif-evidence")
REPORT_DIR = os.path.join(VERIF, "reports")
if os.environ.get("VERIF_REPO") and os.path.realpath(os.environ["VERIF_REPO"]) != os.path.realpath("/repo"):
    REPORT_DIR = os.path.join(os.environ["VERIF_REPO"], ".verif-reports")
KNOWN = os.path.join(VERIF, "known_findings.json")


class Ob:
    __slots__ = ("rule", "instance", "ok", "site", "detail", "key", "what")

    def __init__(self, rule, instance, ok, site, detail, key, what):
        self.rule, self.instance, self.ok, self.site, self.detail, self.key, self.what = rule, instance, ok, site, detail, key, what

    def as_dict(self):
        d = {"rule": self.rule, "instance": self.instance, "holds": bool(self.ok)}
        if self.site:
            d["site"] = self.site
        if self.detail is not None:
            d["detail"] = self.detail
        if self.key:
            d["key"] = self.key
        return d


class Ctx:
    def __init__(self, prop, tier, facts):
        self.prop = prop
        self.tier = tier
        self.facts = facts
        self.obs = []
        self.rules = {}       # rule id -> text
        self.notes = []
        self.extra = {}
        self._prog = None

    # ---- facts
    def ast(self, unit):
        return self.facts.ast(unit)

    def ir(self, unit):
        return self.facts.ir(unit)

    def program(self, witness=True):
        if self._prog is None:
            from . import irlib
            names = self.facts.unit_names(None if witness else False)
            self._prog = irlib.Program([self.facts.ir(n) for n in names])
        return self._prog

    def program_of(self, *units):
        """Program restricted to the given units (cheap: only those IR files are parsed)."""
        from . import irlib
        key = tuple(units)
        if not hasattr(self, "_progs"):
            self._progs = {}
        if key not in self._progs:
            self._progs[key] = irlib.Program([self.facts.ir(n) for n in units])
        return self._progs[key]

    # ---- obligations
    def rule(self, rid, text):
        self.rules[rid] = text

    def ob(self, rule, instance, ok, site=None, detail=None, key=None, what=None):
        """Record one rule instance. `key` identifies the construct for known_findings (no line numbers)."""
        if rule not in self.rules:
            raise AnalysisBroken("internal: rule %s not declared" % rule)
        o = Ob(rule, instance, bool(ok), site, detail, key or ("%s:%s" % (rule, instance)), what)
        self.obs.append(o)
        return o.ok

    def require(self, cond, msg):
        if not cond:
            raise AnalysisBroken(msg)

    def require_count(self, rule, n_min, but_not_ending=None):
        n = sum(1 for o in self.obs if o.rule == rule and not (but_not_ending and o.instance.endswith(but_not_ending)))
        # the floor guards against a rule that silently stops matching; merging two copies of an idiom into one helper
        # legitimately removes an instance or two, so a tenth of the confirmed count (at least one) is tolerated
        floor = n_min - max(1, n_min // 10) if n_min > 2 else n_min
        self.extra.setdefault("instance_floors", {})[rule] = {"matched": n, "confirmed_by_hand": n_min, "floor": floor}
        if n < floor:
            raise AnalysisBroken("rule %s matched %d instance(s), fewer than the %d confirmed by hand - "
                                 "anchor moved or idiom not recognised" % (rule, n, n_min))

    def note(self, s):
        self.notes.append(s)


def thorough_extra(prop, module, ctx):
    """thorough tier = the same rules over more programs and configurations:
    (a) the second assert configuration (-UNDEBUG): every rule instance must hold there too;
    (b) sensitivity: every stored property-breaking variant of /repo (independent seeds in seeded/, own mutants in
        mutants/) is applied to a scratch copy, facts are re-extracted and the rules re-run - the variant must be
        reported. Sensitivity results are evidence, never verdicts on /repo."""
    import glob
    import shutil
    import subprocess
    import tempfile
    # (a)
    if not getattr(module, "SKIP_ASSERT_CONFIG", False):
        try:
            f2 = F.extract(ndebug=False)
            c2 = Ctx(prop, "thorough", f2)
            module.run(c2)
            for o in c2.obs:
                o.instance = o.instance + " [-UNDEBUG]"     # the key stays: a known finding is the same finding in both configurations
                ctx.obs.append(o)
            for r, t in c2.rules.items():
                ctx.rules.setdefault(r, t)
            ctx.extra["assert_configuration"] = {"instances": len(c2.obs), "holding": sum(1 for o in c2.obs if o.ok)}
        except AnalysisBroken as e:
            # the asserting configuration is not the built one: an idiom the recognisers do not know there is recorded, not a verdict
            ctx.extra["assert_configuration"] = {"not_analysable": str(e)[:300]}
    # (b)
    variants = sorted(glob.glob(os.path.join(VERIF, "seeded", prop + "-*", "patch.diff")) + glob.glob(os.path.join(VERIF, "mutants", prop, "*.diff")))
    results = []
    for v in variants:
        label = os.path.relpath(v, VERIF)
        scratch = tempfile.mkdtemp(prefix="rtosc-variant-")
        try:
            for sub in ("src", "include", "cmake", "test", "example", "doc", "completions"):
                if os.path.isdir(os.path.join(F.REPO, sub)):
                    shutil.copytree(os.path.join(F.REPO, sub), os.path.join(scratch, sub))
            for fn in os.listdir(F.REPO):
                p = os.path.join(F.REPO, fn)
                if os.path.isfile(p):
                    shutil.copy(p, scratch)
            r = subprocess.run(["git", "apply", "--unsafe-paths", "--directory=" + scratch, v], capture_output=True, text=True, cwd="/")
            if r.returncode != 0:
                r = subprocess.run(["patch", "-p1", "-s", "-d", scratch, "-i", v], capture_output=True, text=True)
            if r.returncode != 0:
                results.append({"variant": label, "outcome": "skipped (patch no longer applies)"})
                continue
            fv = None
            cv = None
            try:
                fv = F.extract(ndebug=True, repo=scratch)
                cv = Ctx(prop, "thorough", fv)
                module.run(cv)
                known_keys = {k["key"] for k in load_known() if k.get("property") == prop and k.get("status") == "known"}
                bad = [o for o in cv.obs if not o.ok and (o.key or "") not in known_keys]
                results.append({"variant": label, "outcome": "detected" if bad else "MISSED",
                                "reported": ["%s %s" % (o.rule, o.instance) for o in bad[:3]]})
            except AnalysisBroken as e:
                # as in the main path: obligations that failed before the analysis was cut short are a verdict of their own
                known_keys = {k["key"] for k in load_known() if k.get("property") == prop and k.get("status") == "known"}
                bad = [o for o in cv.obs if not o.ok and (o.key or "") not in known_keys] if "cv" in dir() and cv is not None else []
                if bad:
                    results.append({"variant": label, "outcome": "detected", "reported": ["%s %s" % (o.rule, o.instance) for o in bad[:3]], "then": str(e)[:120]})
                else:
                    results.append({"variant": label, "outcome": "no verdict (analysis broken)", "reason": str(e)[:200]})
            finally:
                if fv is not None:
                    fv.discard()
        finally:
            shutil.rmtree(scratch, ignore_errors=True)
    ctx.extra["sensitivity"] = {"variants": len(results), "detected": sum(1 for r in results if r["outcome"] == "detected"),
                                "missed": [r["variant"] for r in results if r["outcome"] == "MISSED"], "results": results}


def load_known():
    if not os.path.exists(KNOWN):
        return []
    return json.load(open(KNOWN)).get("findings", [])


def _write_evidence(prop, tier, level, coverage, wall, violations, assumptions):
    os.makedirs(EVIDENCE_DIR, exist_ok=True)
    ev = {"property_id": prop, "tier": tier, "seed": int(os.environ.get("VERIF_SEED", "0") or 0),
          "level": level, "coverage": coverage, "assumptions": assumptions, "wall_s": round(wall, 2),
          "violations": violations}
    tmp = os.path.join(EVIDENCE_DIR, "%s.json.tmp%d" % (prop, os.getpid()))     # two tiers of one property may run at once
    json.dump(ev, open(tmp, "w"), indent=1, sort_keys=False)
    os.replace(tmp, os.path.join(EVIDENCE_DIR, prop + ".json"))


def run_property(prop, module, tier, replay=None):
    """module must define: LEVEL, ASSUMPTIONS (list), TRUSTED (list), run(ctx)."""
    t0 = time.time()
    level = getattr(module, "LEVEL", "other")
    assumptions = list(getattr(module, "ASSUMPTIONS", []))
    checker_cmd = "./check %s --tier %s" % (prop, tier)
    ctx = None
    incomplete = None
    try:
        facts = F.extract(ndebug=True)
        ctx = Ctx(prop, tier, facts)
        try:
            module.run(ctx)
        except AnalysisBroken as e:
            # a rule instance that already failed is a verdict of its own; the analysis being cut short afterwards
            # (anchor moved, count below the pinned minimum) must not hide it
            # (a failed instance that the known-findings file lists is no verdict of this run: with nothing else failed
            # the broken analysis stays "no verdict")
            _kk = {k["key"] for k in load_known() if k.get("property") == prop and k.get("status") == "known"}
            if any(not o.ok and getattr(o, "key", None) not in _kk for o in ctx.obs):
                incomplete = str(e)
                ctx.note("analysis incomplete after the reported violation(s): " + incomplete)
            else:
                raise
        if not ctx.obs:
            raise AnalysisBroken("no rule instance was analysed")
        if tier == "thorough" and incomplete is None:
            thorough_extra(prop, module, ctx)
    except AnalysisBroken as e:
        msg = "ANALYSIS-BROKEN property=%s: %s" % (prop, e)
        print(msg)
        cov = {"explanation": "analysis broken, no verdict: " + str(e), "obligations": 0, "discharged": 0,
               "evaluations": 1, "distinct_nontrivial": 2, "checker_cmd": checker_cmd,
               "trusted_base": list(getattr(module, "TRUSTED", [])), "samples": [str(e)[:500]]}
        _write_evidence(prop, tier, "other", cov, time.time() - t0, 0, assumptions)
        return 2
    except Exception:
        traceback.print_exc()
        print("ANALYSIS-BROKEN property=%s: internal error in the analyser" % prop)
        return 2

    known = [k for k in load_known() if k.get("property") == prop and k.get("status") == "known"]
    known_keys = {k["key"]: k for k in known}
    os.makedirs(REPORT_DIR, exist_ok=True)
    for f in os.listdir(REPORT_DIR):
        if f.startswith(prop + "-"):
            try:
                os.unlink(os.path.join(REPORT_DIR, f))
            except OSError:
                pass
    fails = [o for o in ctx.obs if not o.ok]
    nviol = 0
    nknown = 0
    lines = []
    replay_hit = None
    if replay:
        try:
            rk = json.load(open(replay)).get("key")
        except Exception:
            rk = None
        replay_hit = False
    for o in fails:
        if o.key in known_keys:
            nknown += 1
            lines.append("KNOWN-FINDING: property=%s %s [%s at %s]" % (prop, known_keys[o.key].get("what", o.what or o.instance), o.rule, o.site))
            continue
        nviol += 1
        rp = os.path.join(REPORT_DIR, "%s-%d.json" % (prop, nviol))
        rep = {"property": prop, "rule": o.rule, "rule_text": ctx.rules[o.rule], "instance": o.instance,
               "site": o.site, "detail": o.detail, "key": o.key, "what": o.what,
               "replay_cmd": "./check %s --replay %s" % (prop, os.path.relpath(rp, VERIF))}
        json.dump(rep, open(rp, "w"), indent=1)
        print("  %s %s at %s: %s" % (o.rule, o.instance, o.site, o.what or json.dumps(o.detail)[:600]))
        lines.append("VIOLATION property=%s replay=%s" % (prop, rp))
        if replay and rk == o.key:
            replay_hit = True
    nob = len(ctx.obs)
    ndis = sum(1 for o in ctx.obs if o.ok)
    per_rule = {}
    for o in ctx.obs:
        r = per_rule.setdefault(o.rule, {"text": ctx.rules[o.rule], "instances": 0, "holding": 0})
        r["instances"] += 1
        r["holding"] += 1 if o.ok else 0
    samples = []
    seen_rules = set()
    for o in ctx.obs:   # at least one sample per rule, then failures
        if o.rule not in seen_rules:
            seen_rules.add(o.rule)
            samples.append(o.as_dict())
    for o in fails[:20]:
        samples.append(o.as_dict())
    cov = {
        "explanation": getattr(module, "EXPLANATION", ""),
        "obligations": nob, "discharged": ndis,
        "evaluations": nob, "distinct_nontrivial": len({(o.rule, o.instance) for o in ctx.obs}),
        "rule": "one obligation per rule instance found in /repo's current source; distinct = distinct (rule, instance) pairs",
        "checker_cmd": checker_cmd,
        "trusted_base": list(getattr(module, "TRUSTED", [])),
        "rules": per_rule,
        "units_analysed": [u["file"] for u in facts.units],
        "facts": {"digest": facts.meta["digest"], "cache_hit": facts.meta.get("cache_hit"), "ndebug": facts.meta["ndebug"]},
        "known_findings_reported": nknown,
        "samples": samples[:60],
        "exhaustive": True,
    }
    cov.update(ctx.extra)
    if ctx.notes:
        cov["notes"] = ctx.notes
    if level == "proof" and ndis != nob:
        pass
    _write_evidence(prop, tier, level, cov, time.time() - t0, nviol, assumptions)
    for l in lines:
        print(l)
    print("%s: %d rule instances over %d rules, %d hold, %d known finding(s), %d violation(s) [%s, %.1fs]" %
          (prop, nob, len(per_rule), ndis, nknown, nviol, tier, time.time() - t0))
    if replay:
        print("replay: instance %s" % ("still fails" if replay_hit else "no longer fails"))
        return 1 if replay_hit else 0
    return 1 if nviol else 0
