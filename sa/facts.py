"""Fact extraction: compile database -> per-unit clang JSON AST (repo decls only)
and -O0 LLVM IR.  Pure function of (/repo sources, /verif/witness, flags); the
result is cached under /verif/.cache keyed by a digest of exactly those inputs,
so a changed working tree is always re-extracted.

Nothing of rtosc is executed: the only programs run are cmake (configure only),
clang/clang++ and the AST dump plugin.
"""
import hashlib
import json
import os
import shlex
import shutil
import subprocess
import sys
import tempfile
import time
from concurrent.futures import ThreadPoolExecutor

VERIF = os.path.dirname(os.path.dirname(os.path.abspath(__file__)))
REPO = os.environ.get("VERIF_REPO", "/repo")
PLUGIN = os.path.join(VERIF, "build", "repo_ast.so")
PLUGIN_SRC = os.path.join(VERIF, "plugin", "repo_ast.cc")
WITNESS_DIR = os.path.join(VERIF, "witness")
CACHE = os.path.join(VERIF, ".cache")
FACTS_VERSION = "8"


class AnalysisBroken(Exception):
    """The analysis cannot be carried out (exit 2) - never a pass, never a violation."""


def ensure_plugin():
    if os.path.exists(PLUGIN) and os.path.getmtime(PLUGIN) >= os.path.getmtime(PLUGIN_SRC):
        return
    os.makedirs(os.path.dirname(PLUGIN), exist_ok=True)
    cxxflags = subprocess.check_output(["llvm-config-14", "--cxxflags"], text=True).split()
    cmd = ["clang++"] + cxxflags + ["-fPIC", "-shared", PLUGIN_SRC, "-o", PLUGIN + ".tmp"]
    r = subprocess.run(cmd, capture_output=True, text=True)
    if r.returncode != 0:
        raise AnalysisBroken("cannot build AST plugin: " + r.stderr[-2000:])
    os.replace(PLUGIN + ".tmp", PLUGIN)


def _tree_files(root, exts):
    out = []
    for d, dn, fn in os.walk(root):
        dn[:] = sorted(x for x in dn if x not in (".git", "_build"))
        for f in sorted(fn):
            if f.endswith(exts):
                out.append(os.path.join(d, f))
    return out


def input_digest(ndebug, repo=None):
    repo = repo or REPO
    h = hashlib.sha256()
    h.update(FACTS_VERSION.encode())
    h.update(repo.encode())
    h.update(b"ndebug" if ndebug else b"assert")
    files = []
    for sub in ("src", "include", "cmake"):
        files += _tree_files(os.path.join(repo, sub), (".c", ".cpp", ".h", ".hh", ".hpp", ".in", ".cmake", ".txt"))
    files.append(os.path.join(repo, "CMakeLists.txt"))
    files += _tree_files(WITNESS_DIR, (".cpp", ".c", ".h"))
    files.append(PLUGIN_SRC)
    files.append(os.path.abspath(__file__))
    for f in files:
        if not os.path.exists(f):
            continue
        h.update(f.encode())
        with open(f, "rb") as fh:
            h.update(hashlib.sha256(fh.read()).digest())
    return h.hexdigest()[:24]


def _compile_db(scratch, repo):
    """Returns list of dicts {file, lang, args(list, without compiler/-o/-c/file)}."""
    cdb = os.path.join(scratch, "cdb")
    r = subprocess.run(
        ["cmake", "-S", repo, "-B", cdb, "-G", "Ninja", "-DCMAKE_BUILD_TYPE=RelWithDebInfo",
         "-DCMAKE_EXPORT_COMPILE_COMMANDS=ON"], capture_output=True, text=True)
    path = os.path.join(cdb, "compile_commands.json")
    if r.returncode != 0 or not os.path.exists(path):
        raise AnalysisBroken("cmake configure failed: " + (r.stdout + r.stderr)[-2000:])
    units = []
    for e in json.load(open(path)):
        toks = shlex.split(e["command"])
        out = toks[toks.index("-o") + 1] if "-o" in toks else ""
        if "CMakeFiles/rtosc.dir/" not in out and "CMakeFiles/rtosc-cpp.dir/" not in out:
            continue
        f = e["file"]
        lang = "c++" if f.endswith((".cpp", ".cc", ".cxx")) else "c"
        args = []
        skip = False
        for t in toks[1:]:
            if skip:
                skip = False
                continue
            if t in ("-o",):
                skip = True
                continue
            if t == "-c" or t == f:
                continue
            if t.startswith("-O") or t == "-g" or t.startswith("-W") or t == "-fPIC":
                continue
            args.append(t)
        if not any(a.startswith("-std=") for a in args):
            # gcc 12 defaults, stated explicitly because clang's differ
            args.append("-std=gnu17" if lang == "c" else "-std=gnu++17")
        units.append({"file": f, "lang": lang, "args": args,
                      "target": "rtosc" if "rtosc.dir" in out else "rtosc-cpp"})
    if len(units) < 22:
        raise AnalysisBroken("compile database has only %d library units (expected >= 22)" % len(units))
    return units


def unit_name(path):
    b = os.path.basename(path)
    return b


def _run_unit(u, outdir, ndebug, repo):
    cc = "clang++" if u["lang"] == "c++" else "clang"
    args = list(u["args"])
    if not ndebug:
        args = [a for a in args if a != "-DNDEBUG"] + ["-UNDEBUG"]
    name = unit_name(u["file"])
    ast_out = os.path.join(outdir, "ast", name + ".json")
    ir_out = os.path.join(outdir, "ir", name + ".ll")
    prefixes = [repo.rstrip("/") + "/", WITNESS_DIR.rstrip("/") + "/"]
    if u.get("generated"):
        prefixes.append(os.path.dirname(u["file"]) + "/")
    pa = []
    for a in ["out=" + ast_out] + ["prefix=" + p for p in prefixes]:
        pa += ["-Xclang", "-plugin-arg-repo-ast", "-Xclang", a]
    cmd1 = [cc] + args + ["-w", "-fsyntax-only", "-fplugin=" + PLUGIN, "-Xclang", "-plugin", "-Xclang", "repo-ast"] + pa + [u["file"]]
    cmd2 = [cc] + args + ["-w", "-O0", "-Xclang", "-disable-O0-optnone", "-g", "-S", "-emit-llvm", "-o", ir_out, u["file"]]
    for cmd in (cmd1, cmd2):
        r = subprocess.run(cmd, capture_output=True, text=True)
        if r.returncode != 0:
            return (u["file"], " ".join(cmd) + "\n" + r.stderr[-3000:])
    if not os.path.exists(ast_out) or os.path.getsize(ast_out) < 4:
        return (u["file"], "plugin produced no AST for " + u["file"])
    return None


class Facts:
    def __init__(self, root, meta):
        self.root = root
        self.meta = meta
        self._ast = {}
        self._ir = {}

    @property
    def units(self):
        return self.meta["units"]

    def unit_names(self, witness=None):
        out = []
        for u in self.units:
            if witness is None or bool(u.get("witness")) == witness:
                out.append(unit_name(u["file"]))
        return out

    def discard(self):
        """drop a cache entry this run created for a scratch tree (variants of the sensitivity pass are never asked for again)"""
        if not self.meta.get("cache_hit") and self.meta.get("repo") != REPO:
            shutil.rmtree(self.root, ignore_errors=True)

    def ast_path(self, name):
        return os.path.join(self.root, "ast", name + ".json")

    def ir_path(self, name):
        return os.path.join(self.root, "ir", name + ".ll")

    def ast(self, name):
        if name not in self._ast:
            from . import astlib
            p = self.ast_path(name)
            if not os.path.exists(p):
                raise AnalysisBroken("no AST for unit " + name)
            self._ast[name] = astlib.load_unit(p, name)
        return self._ast[name]

    def ir(self, name):
        if name not in self._ir:
            from . import irlib
            p = self.ir_path(name)
            if not os.path.exists(p):
                raise AnalysisBroken("no IR for unit " + name)
            self._ir[name] = irlib.parse_module(p, name)
        return self._ir[name]


def extract(ndebug=True, verbose=False, repo=None):
    """Build (or fetch from the digest-keyed cache) the facts for REPO's working tree."""
    repo = repo or REPO
    ensure_plugin()
    _cache_lock_shared()
    dig = input_digest(ndebug, repo)
    dest = os.path.join(CACHE, "facts-" + dig)
    meta_path = os.path.join(dest, "meta.json")
    if os.path.exists(meta_path):
        meta = json.load(open(meta_path))
        meta["cache_hit"] = True
        try:
            os.utime(dest, None)      # in use: keeps concurrent runs from pruning it
        except OSError:
            pass
        _prune_cache(keep=dest)
        return Facts(dest, meta)
    t0 = time.time()
    scratch = tempfile.mkdtemp(prefix="rtosc-facts-", dir=os.environ.get("TMPDIR", "/tmp"))
    try:
        units = _compile_db(scratch, repo)
        # generated version.c lives in the scratch dir: copy beside the outputs
        os.makedirs(os.path.join(scratch, "out", "ast"))
        os.makedirs(os.path.join(scratch, "out", "ir"))
        os.makedirs(os.path.join(scratch, "out", "gen"))
        for u in units:
            if not u["file"].startswith(repo.rstrip("/") + "/"):
                g = os.path.join(scratch, "out", "gen", os.path.basename(u["file"]))
                shutil.copy(u["file"], g)
                u["file"] = g
                u["generated"] = True
        cpp_args = next(u["args"] for u in units if u["file"].endswith("ports.cpp"))
        for w in sorted(os.listdir(WITNESS_DIR)) if os.path.isdir(WITNESS_DIR) else []:
            if w.endswith(".cpp"):
                units.append({"file": os.path.join(WITNESS_DIR, w), "lang": "c++",
                              "args": list(cpp_args) + ["-I" + WITNESS_DIR], "target": "witness", "witness": True})
        with ThreadPoolExecutor(max_workers=16) as ex:
            errs = [e for e in ex.map(lambda u: _run_unit(u, os.path.join(scratch, "out"), ndebug, repo), units) if e]
        if errs:
            raise AnalysisBroken("unit(s) failed to parse/compile:\n" + "\n".join("%s: %s" % e for e in errs))
        meta = {"digest": dig, "ndebug": ndebug, "repo": repo,
                "units": [{"file": (u["file"] if not u.get("generated") else "<build>/cpp/" + os.path.basename(u["file"])),
                           "lang": u["lang"], "args": u["args"], "target": u["target"],
                           "witness": bool(u.get("witness"))} for u in units],
                "extract_s": round(time.time() - t0, 2)}
        # rename generated units in outputs is not needed: unit_name uses basename
        os.makedirs(CACHE, exist_ok=True)
        tmpdest = dest + ".tmp%d" % os.getpid()
        shutil.rmtree(tmpdest, ignore_errors=True)
        shutil.move(os.path.join(scratch, "out"), tmpdest)
        json.dump(meta, open(os.path.join(tmpdest, "meta.json"), "w"), indent=1)
        try:
            os.rename(tmpdest, dest)
        except OSError:
            shutil.rmtree(tmpdest, ignore_errors=True)  # lost a race; the other copy is identical
        _prune_cache(keep=dest)
        meta["cache_hit"] = False
        return Facts(dest, meta)
    finally:
        shutil.rmtree(scratch, ignore_errors=True)


_LOCK_FD = None


def _cache_lock_shared():
    """Every process that reads the cache holds a shared lock on .cache/lock for its lifetime; pruning needs it exclusively."""
    global _LOCK_FD
    if _LOCK_FD is None:
        import fcntl
        os.makedirs(CACHE, exist_ok=True)
        _LOCK_FD = os.open(os.path.join(CACHE, "lock"), os.O_RDWR | os.O_CREAT, 0o644)
        fcntl.flock(_LOCK_FD, fcntl.LOCK_SH)
    return _LOCK_FD


def _prune_cache(keep, maxn=6, min_age_s=300):
    """Keep the newest `maxn` entries and drop the others once they are `min_age_s` old - but only when no other process is
    using the cache (checks of different trees run concurrently in the thorough tier and in regression runs, and must not
    lose an entry while reading it): the shared lock is upgraded without blocking, and pruning is skipped if that fails."""
    import fcntl
    fd = _cache_lock_shared()
    try:
        fcntl.flock(fd, fcntl.LOCK_EX | fcntl.LOCK_NB)
    except OSError:
        return
    try:
        now = time.time()
        ents = [os.path.join(CACHE, e) for e in os.listdir(CACHE) if e.startswith("facts-")]
        ents.sort(key=lambda p: os.path.getmtime(p), reverse=True)
        for p in ents[maxn:]:
            if p != keep and now - os.path.getmtime(p) > min_age_s:
                shutil.rmtree(p, ignore_errors=True)
    except OSError:
        pass
    finally:
        fcntl.flock(fd, fcntl.LOCK_SH)


if __name__ == "__main__":
    f = extract(ndebug="--assert" not in sys.argv)
    print(f.root, f.meta.get("cache_hit"), f.meta.get("extract_s"), len(f.units))
