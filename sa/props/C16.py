"""C16 - Argument-value comparison is a coherent order, blind to range compression
(DESIGN.md section 2, C16)."""
import itertools

from .. import astlib as A
from .. import fdeval as FD
from ..facts import AnalysisBroken
from ..rules import codec as C

LEVEL = "other"
EXPLANATION = ("The two hand-written per-type tables rtosc_arg_vals_eq_single / rtosc_arg_vals_cmp_single are lifted from the AST and "
               "their case bodies evaluated (finite-domain evaluation inside the analyser, libc memcmp/strcmp modelled) over small "
               "value domains chosen so that ties, prefixes and the 'immediately' time tag occur: for every scalar tag and every "
               "pair/triple of domain values (R16.1) eq(l,r) == (cmp(l,r)==0), cmp is antisymmetric, orders by the documented "
               "order, and is transitive; (R16.2) the `element types comparable?` guard of the array case is the same truth table "
               "over all tag pairs in both functions and the incomparable result is antisymmetric; (R16.3) a type mismatch gives "
               "eq=0 and an antisymmetric non-zero cmp; (R16.4) the list-level functions and rtosc_avmessage touch their argument "
               "arrays only through the range-aware iterator, so compression is invisible to them by construction. "
               "Floating-point corner cases (NaN) and the iterator's own arithmetic are not decided.")
TRUSTED = ["clang 14 AST", "sa/fdeval.py and the memcmp/strcmp models in sa/props/C16.py", "value domains listed in the evidence"]
ASSUMPTIONS = ["memcmp/strcmp return only the sign of the first difference (their documented contract)",
               "NaN is outside the domains; tolerance != 0 is checked for eq/cmp agreement and antisymmetry only (a tolerance relation is not transitive)"]

UNIT = "arg-val-cmp.c"


class Ptr:
    """non-null pointer value with an address (for == / < on pointers) and a payload"""
    _next = [4096]

    def __init__(self, payload):
        self.payload = payload
        self.addr = Ptr._next[0]
        Ptr._next[0] += 64

    def _a(self, o):
        return o.addr if isinstance(o, Ptr) else o

    def __eq__(self, o):
        return self.addr == self._a(o)

    def __ne__(self, o):
        return self.addr != self._a(o)

    def __lt__(self, o):
        return self.addr < self._a(o)

    def __gt__(self, o):
        return self.addr > self._a(o)

    def __le__(self, o):
        return self.addr <= self._a(o)

    def __ge__(self, o):
        return self.addr >= self._a(o)

    def __bool__(self):
        return True

    def __hash__(self):
        return self.addr


class WrongMember(Exception):
    pass


def sign(x):
    return (x > 0) - (x < 0)


DOMAINS = {
    "i": [-(2 ** 31), -2, 0, 1, 3, 2 ** 31 - 1], "c": [0, 65, 66, 127], "r": [0, 1, 0x7fffffff, -1],
    "h": [-(2 ** 63), -5, 0, 7, 2 ** 63 - 1], "t": [0, 1, 2, 5, 2 ** 64 - 1],
    "f": [-1.5, 0.0, 0.25, 2.0], "d": [-1.5, 0.0, 0.25, 2.0],
    "m": [bytes([0, 0, 0, 0]), bytes([0, 0, 0, 1]), bytes([1, 0, 0, 0]), bytes([0x90, 1, 2, 3])],
    "s": [None, "", "a", "ab", "b"], "S": [None, "", "a", "ab", "b"],
    "b": [b"", b"\x01", b"\x01\x00", b"\x01\x02", b"\x02", b"\x00"],
    "T": [1], "F": [0], "N": [0], "I": [0],
}
MEMBER_OF = {"i": "i", "c": "i", "r": "i", "h": "h", "t": "t", "f": "f", "d": "d", "m": "m", "s": "s", "S": "s", "b": "b", "T": "T", "F": "T", "N": None, "I": None}


def spec_order(tag, l, r):
    """documented order: sign of cmp(l, r)"""
    if tag == "t":
        if l == 1 or r == 1:
            return 0 if l == r else (-1 if l == 1 else 1)
        return sign(l - r)
    if tag in ("i", "c", "r", "h", "f", "d"):
        return sign(l - r)
    if tag == "m":
        return sign((l > r) - (l < r))
    if tag in ("s", "S"):
        if l is None or r is None:
            return None if (l is None) != (r is None) else 0   # pointer order: only equality is specified
        return sign((l > r) - (l < r))
    if tag == "b":
        return sign((l > r) - (l < r))    # python bytes order: bytewise, proper prefix first
    return 0


def make_obj(tag, v):
    o = {"type": ord(tag)}
    m = MEMBER_OF[tag]
    if m in ("i", "h", "t", "f", "d", "T"):
        o[m] = v
    elif m == "m":
        o["m"] = Ptr(v)
    elif m == "s":
        o["s"] = 0 if v is None else Ptr(v)
    elif m == "b":
        o["b.len"] = len(v)
        o["b.data"] = Ptr(v)
    return o


def evaluate_single(u, fn, ltag, lval, rtag, rval, tol):
    ps = u.params(fn)
    L, R = make_obj(ltag, lval), make_obj(rtag, rval)
    objs = {ps[0]["id"]: L, ps[1]["id"]: R}
    opt_id = ps[2]["id"]

    def chain(n):
        """MemberExpr chain -> (root decl id, [names])"""
        names = []
        n = A.strip_casts(n)
        while n.get("kind") == "MemberExpr":
            names.append(n.get("name"))
            n = A.strip_casts(A.kids(n)[0])
        if n.get("kind") == "DeclRefExpr":
            rid = n["referencedDecl"]["id"]
            v_ = holder["ev"].env.get(rid) if "ev" in holder else None
            if isinstance(v_, tuple) and v_ and v_[0] == "subobject":
                # a pointer / reference to a member struct of one of the two values (`&_lhs->val.b` handed to a helper)
                return v_[1], v_[2] + list(reversed(names))
            return rid, list(reversed(names))
        return None, None
    holder = {}

    def hook(n, ev):
        k = n.get("kind")
        if k == "UnaryOperator" and n.get("opcode") == "&" and A.strip_casts(A.kids(n)[0]).get("kind") == "MemberExpr":
            root, names = chain(A.kids(n)[0])
            if root in objs:
                key = ".".join(x for x in names if x != "val")
                if any(k_.startswith(key + ".") for k_ in objs[root]):
                    return ("subobject", root, [x for x in names if x != "val"])
            return NotImplemented
        if k == "MemberExpr":
            root, names = chain(n)
            if root in objs:
                key = ".".join(x for x in names if x != "val")
                o = objs[root]
                if key in o:
                    return o[key]
                if any(k_.startswith(key + ".") for k_ in o):
                    return ("subobject", root, [x for x in names if x != "val"])     # the member struct as a whole
                raise WrongMember("reads union member .%s of a value of type '%s' (%s)" % (key, chr(o["type"]), A.where(n)))
            if root == opt_id and names == ["float_tolerance"]:
                return float(tol)
            return NotImplemented
        if k == "ArraySubscriptExpr":
            root, names = chain(A.kids(n)[0])
            if root in objs:
                key = ".".join(x for x in names if x != "val")
                p = objs[root][key]
                i = ev.ev(A.kids(n)[1])
                data = p.payload
                if not (0 <= i < len(data)):
                    raise FD.Unknown("blob subscript %d outside its %d bytes" % (i, len(data)), n)
                return data[i]
        return NotImplemented

    def call(name, args, n):
        if name == "memcmp":
            a, b, cnt = args
            x, y = a.payload[:cnt], b.payload[:cnt]
            return (x > y) - (x < y)
        if name == "strcmp":
            a, b = args
            return (a.payload > b.payload) - (a.payload < b.payload)
        fns_ = [f_ for f_ in u.functions.get(name, []) if u.body(f_) is not None and f_.get("storageClass") == "static"]
        if len(fns_) == 1 and fns_[0] is not fn:
            return ev.call_function(u, fns_[0], args)       # a file-local helper (option defaulting, array kind, ...)
        raise FD.Unknown("call to " + str(name), n)
    ev = FD.Eval(env={opt_id: 1}, call=call, node_hook=hook)
    holder["ev"] = ev
    try:
        ev.run(u.body(fn))
    except FD._Return as r:
        return r.v
    raise FD.Unknown("function fell off its end", fn)


def run(ctx):
    u = ctx.ast(UNIT)
    eqf = u.function("rtosc_arg_vals_eq_single")
    cmpf = u.function("rtosc_arg_vals_cmp_single")
    ctx.rule("R16.1", "PER-TAG: for every scalar tag and all pairs/triples of domain values: eq(l,r) == (cmp(l,r)==0); sign cmp(l,r) == -sign cmp(r,l); cmp follows the documented order; cmp is transitive")
    ctx.rule("R16.2", "ARRAY-GUARD: the element-type guard of the 'a' case is the same truth table over all tag pairs in eq and cmp, and both functions list the same case labels")
    ctx.rule("R16.3", "TYPE-MISMATCH: values of different type are unequal and compare antisymmetrically non-zero")
    ctx.rule("R16.5", "SLOTS-RELATIVE: in the list-level functions the slot counts lsize/rsize are used only as arguments of the has_next / eq_after_abort helpers or minus the position (.i) of their own iterator - a raw slot count says nothing about the number of values once runs are compressed")
    ctx.rule("R16.4", "ITER-ONLY: rtosc_arg_vals_eq, rtosc_arg_vals_cmp and rtosc_avmessage read their argument arrays only through rtosc_arg_val_itr_init/get/next")

    # ---- labels
    def labels(fn):
        sws = C.find_switches(u.body(fn))
        if len(sws) != 1:
            raise AnalysisBroken("%s: expected one switch" % fn.get("name"))
        return {chr(l) for l in C.case_table(sws[0]) if l != "default"}, sws[0]
    le, swe = labels(eqf)
    lc, swc = labels(cmpf)
    ctx.ob("R16.2", "case-labels", le == lc - {"-"} and "a" in le, site=A.where(swc), detail={"eq": sorted(le), "cmp": sorted(lc)},
           what="eq handles tags %s, cmp handles %s" % (sorted(le), sorted(lc)))

    # ---- R16.1
    tags = [t for t in sorted(le & lc) if t in DOMAINS]
    ctx.require(len(tags) >= 15, "only %d scalar tags common to eq and cmp" % len(tags))
    ncases = 0
    for tag in tags:
        dom = DOMAINS[tag]
        for tol in ((0.0, 0.5) if tag in ("f", "d") else (0.0,)):
            bad = []
            cm = {}
            try:
                for l, r in itertools.product(dom, dom):
                    e = evaluate_single(u, eqf, tag, l, tag, r, tol)
                    c = evaluate_single(u, cmpf, tag, l, tag, r, tol)
                    cm[(dom.index(l), dom.index(r))] = c
                    ncases += 1
                    if bool(e) != (c == 0):
                        bad.append({"law": "eq==(cmp==0)", "l": repr(l), "r": repr(r), "eq": e, "cmp": c})
                    if tol == 0.0:
                        so = spec_order(tag, l, r)
                        if so is not None and sign(c) != so:
                            bad.append({"law": "documented order", "l": repr(l), "r": repr(r), "cmp": c, "expected_sign": so})
                for (i, j), c in cm.items():
                    if sign(c) != -sign(cm[(j, i)]):
                        bad.append({"law": "antisymmetry", "l": repr(dom[i]), "r": repr(dom[j]), "cmp": c, "cmp_rev": cm[(j, i)]})
                if tol == 0.0:
                    n = len(dom)
                    for i, j, k in itertools.product(range(n), repeat=3):
                        if cm[(i, j)] <= 0 and cm[(j, k)] <= 0 and cm[(i, k)] > 0:
                            bad.append({"law": "transitivity", "a": repr(dom[i]), "b": repr(dom[j]), "c": repr(dom[k])})
            except FD.Unknown as e:
                raise AnalysisBroken("R16.1: case '%s' not evaluable: %s" % (tag, e))
            except WrongMember as e:
                bad.append({"law": "union member of the tag", "problem": str(e)})
            ctx.ob("R16.1", "tag '%s'%s" % (tag, " tolerance 0.5" if tol else ""), not bad, site=A.where(swc),
                   detail={"domain": [repr(x) for x in dom], "pairs": len(dom) ** 2, "violations": bad[:5]},
                   key="R16.1:tag %s:%s" % (tag, bad[0]["law"] if bad else ""),
                   what="tag '%s': %s" % (tag, bad[:2]))
    ctx.extra["evaluated_pairs"] = ncases

    # ---- R16.2 guard truth table
    def guard_table(fn):
        """{(ltag, rtag): 1 when the array case goes on to compare the elements (the branch taken holds the call of the
        list-level function), 0 when it answers from the element types alone} - independent of how the test is phrased"""
        sw = C.find_switches(u.body(fn))[0]
        stmts = C.case_table(sw)[ord("a")]
        flat = []
        for s_ in stmts:
            flat += A.kids(s_) if s_.get("kind") == "CompoundStmt" else [s_]
        def recurses(branch):
            return branch is not None and any(A.callee_name(c) in ("rtosc_arg_vals_eq", "rtosc_arg_vals_cmp") for c in A.calls_in(branch))
        # the guard: the top-level `if` of the case with the element comparison on exactly one side; what precedes it
        # (locals, normalisation of the type letters) is evaluated first
        ifs = [x for x in flat if x.get("kind") == "IfStmt" and
               recurses(A.kids(x)[1]) != recurses(A.kids(x)[2] if len(A.kids(x)) > 2 else None)]
        if len(ifs) != 1:
            raise AnalysisBroken("%s: the element comparison is not on exactly one side of one guard in case 'a' (%d candidates)" % (fn.get("name"), len(ifs)))
        the_if = ifs[0]
        before = flat[:flat.index(the_if)]
        cond = A.kids(the_if)[0]
        then_b = A.kids(the_if)[1]
        else_b = A.kids(the_if)[2] if len(A.kids(the_if)) > 2 else None
        ps = u.params(fn)
        tab = {}
        signs = {}
        alpha = sorted(set("ifsbhtdScrmTFNI"))
        for lt, rt in itertools.product(alpha, alpha):
            def call(name, args, n, lt=lt, rt=rt):
                if name == "rtosc_av_arr_type":
                    return ord(lt) if args[0] == "L" else ord(rt)
                if name in ("rtosc_av_arr_len",):
                    return 1
                fns = [f for f in u.functions.get(name, []) if u.body(f) is not None]
                if len(fns) == 1:
                    return ev.call_function(u, fns[0], args)
                raise FD.Unknown("call " + str(name), n)
            ev = FD.Eval(env={ps[0]["id"]: "L", ps[1]["id"]: "R"}, call=call)
            try:
                for s_ in before:
                    ev.run(s_)
                taken = then_b if ev.ev(cond) else else_b
                tab[(lt, rt)] = 1 if recurses(taken) else 0
                if not recurses(taken) and taken is not None:
                    # the answer given from the element types alone
                    asg = [y for y in A.walk(taken) if y.get("kind") == "BinaryOperator" and y.get("opcode") == "=" and A.ref_id(A.kids(y)[0])]
                    if len(asg) == 1:
                        ev.env.setdefault(A.ref_id(A.kids(asg[0])[0]), 0)
                        ev.run(taken)
                        signs[(lt, rt)] = ev.env[A.ref_id(A.kids(asg[0])[0])]
            except FD.Unknown as e:
                raise AnalysisBroken("R16.2: guard of %s not evaluable: %s" % (fn.get("name"), e))
        guard_table.signs[fn.get("name")] = signs
        return tab, the_if
    guard_table.signs = {}
    ge, ife = guard_table(eqf)
    gc, ifc = guard_table(cmpf)
    diff = sorted(k for k in ge if ge[k] != gc[k])
    ctx.ob("R16.2", "array-guard truth table", not diff, site=A.where(ifc), detail={"pairs": len(ge), "differing_pairs": ["%s/%s" % d for d in diff[:12]]},
           key="R16.2:array-guard", what="array element-type guard differs between eq and cmp for %d tag pairs, e.g. %s" % (len(diff), diff[:4]))
    # comparable pairs are symmetric and reflexive
    asym = sorted(k for k in ge if ge[k] != ge[(k[1], k[0])])
    ctx.ob("R16.2", "array-guard symmetric", not asym and all(ge[(t, t)] == 1 for t in "ifsbTF"), site=A.where(ife),
           detail={"asymmetric_pairs": ["%s/%s" % d for d in asym[:8]]}, what="eq's array guard is not symmetric: %s" % asym[:4])

    # element types the guard declares comparable (T with F) must stand in the same place relative to every third type:
    # otherwise X=[T F] < [nil] < [F T]=Z by type letter while X > Z element-wise
    ctx.rule("R16.6", "ARRAY-ORDER-CLASS: two array element types that the guard treats as comparable are ordered identically against every other element type (the order by type letter must not tell them apart), so that the element-wise order inside the class and the letter order between classes compose to a transitive order")
    sg = guard_table.signs.get("rtosc_arg_vals_cmp_single", {})
    alpha6 = sorted(set("ifsbhtdScrmTFNI"))
    bad6 = []
    for a_ in alpha6:
        for b_ in alpha6:
            if a_ < b_ and gc[(a_, b_)] == 1:
                for z_ in alpha6:
                    if z_ in (a_, b_) or gc[(a_, z_)] == 1 or gc[(b_, z_)] == 1:
                        continue
                    if sign(sg.get((a_, z_), 0)) != sign(sg.get((b_, z_), 0)) or sign(sg.get((z_, a_), 0)) != sign(sg.get((z_, b_), 0)):
                        bad6.append({"comparable": a_ + "/" + b_, "third": z_, "cmp(%s,%s)" % (a_, z_): sg.get((a_, z_)), "cmp(%s,%s)" % (b_, z_): sg.get((b_, z_))})
    ctx.ob("R16.6", "array element types", not bad6, site=A.where(ifc), detail={"incomparable_pairs_evaluated": len(sg), "mismatches": bad6[:6]},
           what="the array case orders comparable element types differently against a third type: %s - three arrays of these types compare intransitively" % bad6[:2])

    # ---- R16.7
    ctx.rule("R16.7", "ITR-IN-PLACE: the range-aware iterator copies into the caller's one-slot buffer only values it computes (an element of an arithmetic range); a stored list slot is handed out in place - a repeated value can be an array, of which a slot copy keeps only the header")
    ui = ctx.ast("arg-val-itr.c")
    fget = ui.function("rtosc_arg_val_itr_get")
    bufp = ui.params(fget)[1]["id"]
    copies = []
    for x in A.walk(ui.body(fget)):
        if x.get("kind") == "BinaryOperator" and x.get("opcode") == "=":
            l = A.strip_casts(A.kids(x)[0])
            if l.get("kind") == "UnaryOperator" and l.get("opcode") == "*" and A.ref_id(A.kids(l)[0]) == bufp:
                r = A.strip_casts(A.kids(x)[1])
                if r.get("kind") in ("ArraySubscriptExpr", "UnaryOperator") or (r.get("kind") == "MemberExpr"):
                    copies.append(x)
        if x.get("kind") == "CallExpr" and A.callee_name(x) in ("memcpy", "memmove") and A.ref_id(A.kids(x)[1]) == bufp:
            copies.append(x)
    rets = [r_ for r_ in A.walk(ui.body(fget)) if r_.get("kind") == "ReturnStmt"]
    ctx.require(len(rets) >= 1, "R16.7: rtosc_arg_val_itr_get has no return")
    ctx.ob("R16.7", "rtosc_arg_val_itr_get", not copies, site=A.where(copies[0]) if copies else A.where(fget), detail={"slot_copies_into_the_buffer": [A.src(c_)[:80] for c_ in copies]},
           key="R16.7:rtosc_arg_val_itr_get",
           what="rtosc_arg_val_itr_get copies a stored slot into the caller's one-slot buffer (`%s`): of a repeated array only the header arrives, the comparison then reads the elements behind the caller's variable" % (A.src(copies[0])[:80] if copies else ""))

    # ---- R16.8: the iterator's walk, evaluated on slot layouts
    ctx.rule("R16.8", "ITR-WALK: rtosc_arg_val_itr_next, evaluated on small slot layouts (scalars, arrays, finite and infinite repetitions of scalars and of arrays, ranges with a delta slot), stands on each value once per repetition, keeps its slot counter equal to its position, and leaves a finished range behind the whole repeated value")
    from ..rules import avwalk as AW
    for lname, layout in sorted(AW.LAYOUTS.items()):
        try:
            seen8, end8, visits8, final8 = AW.walk(ui, layout)
        except FD.Unknown as e:
            raise AnalysisBroken("R16.8: iterator not evaluable on layout %r: %s" % (lname, e))
        ok8 = [(a_, r_) for a_, r_, _ in seen8] == visits8 and all(a_ == i_ for a_, _, i_ in seen8)
        if final8 is not None:
            ok8 = ok8 and end8[0] == final8 and end8[2] == final8 and end8[1] == 0
        ctx.ob("R16.8", lname, ok8, site=A.where(ui.function("rtosc_arg_val_itr_next")),
               detail={"stands_on (slot, repetition, counter)": [list(x) for x in seen8][:10], "expected (slot, repetition)": [list(x) for x in visits8][:10], "ends_at": list(end8), "expected_end": final8},
               key="R16.8:%s" % lname,
               what="on the layout `%s` the iterator stands on %s and ends at %s; expected %s, end %s" % (lname, [x[:2] for x in seen8][:8], end8, visits8[:8], final8))
    ctx.require_count("R16.8", 10)

    # ---- R16.9: eq and cmp evaluated as whole functions on records whose strings / blob bytes live in one memory
    ctx.rule("R16.9", "EQ=CMP ON SHARED BUFFERS: rtosc_arg_vals_eq_single and rtosc_arg_vals_cmp_single, evaluated as whole functions on pairs of values whose strings and blob bytes live in one byte memory "
             "(two blobs that are prefixes of one buffer, equal bytes at two addresses, two copies of one string), agree - equal exactly when cmp is 0 - and cmp has the documented sign (a proper prefix first)")
    from ..rules import eqcmp as EC
    try:
        bad9, n9 = EC.check(u)
    except FD.Unknown as e:
        raise AnalysisBroken("R16.9: eq_single / cmp_single not evaluable on value records: %s" % e)
    ctx.ob("R16.9", "eq/cmp on value records", not bad9, site=A.where(u.function("rtosc_arg_vals_eq_single")), detail={"pairs": n9, "mismatches": bad9[:6]},
           key="R16.9:%s" % (bad9[0]["pair"].split(":")[0].split(" ")[0] if bad9 else ""),
           what="%s" % ("; ".join("%s: eq=%s cmp=%s (expected eq=%s, sign %s)" % (b_["pair"], b_["eq"], b_["cmp"], b_["expected"]["eq"], b_["expected"]["cmp_sign"]) for b_ in bad9[:3])))

    # ---- R16.11: the two sides of a comparison live in two buffers
    ctx.rule("R16.11", "TWO-BUFFERS: rtosc_arg_val_itr_get writes an element that a range computes into the one-slot buffer its caller hands it and returns that buffer; where a function walks two lists side by side, "
             "the two iterators are handed different buffers - with one shared buffer both calls return the same pointer inside two arithmetic ranges, and the element is compared with itself")
    n11 = 0
    for un11 in (UNIT, "savefile.cpp"):
        uu11 = ctx.ast(un11)
        for q11, fl11 in sorted(uu11.functions.items()):
            for f11 in fl11:
                if uu11.body(f11) is None or not (A.loc(f11)[0] or "").endswith(un11):
                    continue
                gets11 = [c_ for c_ in A.calls_in(uu11.body(f11), "rtosc_arg_val_itr_get") if len(A.kids(c_)) == 3]
                pairs11 = {}
                for c_ in gets11:
                    it_, bf_ = A.strip_casts(A.kids(c_)[1]), A.strip_casts(A.kids(c_)[2])
                    iid = A.ref_id(A.kids(it_)[0]) if it_.get("kind") == "UnaryOperator" and it_.get("opcode") == "&" else A.ref_id(it_)
                    bid = A.ref_id(A.kids(bf_)[0]) if bf_.get("kind") == "UnaryOperator" and bf_.get("opcode") == "&" else A.ref_id(bf_)
                    if iid is None or bid is None:
                        continue
                    # two walks one after the other may reuse a buffer; what counts is one buffer for two iterators within
                    # one round of one loop (or outside every loop)
                    loop_ = next((a_.get("id") for a_ in uu11.ancestors(c_) if a_.get("kind") in ("ForStmt", "WhileStmt", "DoStmt", "CXXForRangeStmt")), None)
                    pairs11.setdefault((bid, loop_), set()).add(iid)
                if len({i_ for s_ in pairs11.values() for i_ in s_}) < 2:
                    continue
                n11 += 1
                shared = {b_[0]: sorted(i_) for b_, i_ in pairs11.items() if len(i_) > 1}
                ctx.ob("R16.11", q11, not shared, site=A.where(f11), detail={"iterators": len({i_ for s_ in pairs11.values() for i_ in s_}), "buffers": len(pairs11),
                                                                              "buffers_shared_by_two_iterators": [uu11.by_id[b_].get("name") for b_ in shared]},
                       key="R16.11:%s" % q11,
                       what="%s hands the buffer `%s` to rtosc_arg_val_itr_get for two different iterators: inside two arithmetic ranges both calls return that one buffer, the second computed element overwrites the first and the element is compared with itself (1 2 3 equals 1 3 5)" % (
                           q11, ", ".join(uu11.by_id[b_].get("name") or "?" for b_ in shared)))
    ctx.require(n11 >= 2, "R16.11: only %d functions that walk two lists side by side were found" % n11)

    # ---- R16.10: the element of an arithmetic range, in the width of its type
    ctx.rule("R16.10", "RANGE-ELEMENT: rtosc_arg_val_range_arg - what the range-aware iterator hands out for the i-th element of `start, delta` - evaluated as a whole function (the arithmetic helpers of arg-val-math.c in place) on 'i' and 'h' ranges "
             "whose start, step and products need the full width of the type, is start + i*delta in that type's arithmetic (64 bits for 'h'): a compressed list compares and expands like the list it stands for")
    from ..rules import rangearg as RA
    um10 = ctx.ast("arg-val-math.c")
    try:
        bad10, n10 = RA.check(um10)
    except FD.Unknown as e:
        raise AnalysisBroken("R16.10: rtosc_arg_val_range_arg is not evaluable: %s" % e)
    ctx.ob("R16.10", "rtosc_arg_val_range_arg", not bad10, site=A.where(um10.function("rtosc_arg_val_range_arg")), detail={"ranges": n10, "mismatches": bad10[:4]},
           key="R16.10:%s" % (bad10[0]["type"] if bad10 else ""),
           what="rtosc_arg_val_range_arg does not compute start + i*delta in the range's own type: %s" % bad10[:3])

    # ---- R16.3
    bad = []
    pairs = [("i", 1, "f", 1.0), ("s", "a", "S", "a"), ("T", 1, "F", 0), ("h", 1, "i", 1), ("b", b"", "s", "")]
    try:
        for lt, lv, rt, rv in pairs:
            e = evaluate_single(u, eqf, lt, lv, rt, rv, 0.0)
            c1 = evaluate_single(u, cmpf, lt, lv, rt, rv, 0.0)
            c2 = evaluate_single(u, cmpf, rt, rv, lt, lv, 0.0)
            if e or c1 == 0 or sign(c1) != -sign(c2) or sign(c1) != sign(ord(lt) - ord(rt)):
                bad.append({"l": lt, "r": rt, "eq": e, "cmp": c1, "cmp_rev": c2})
    except FD.Unknown as e:
        raise AnalysisBroken("R16.3 not evaluable: %s" % e)
    ctx.ob("R16.3", "type mismatch", not bad, site=A.where(cmpf), detail={"pairs": len(pairs), "violations": bad}, what="values of different type: %s" % bad[:2])

    # ---- R16.4
    for un, q, params in ((UNIT, "rtosc_arg_vals_eq", (0, 1)), (UNIT, "rtosc_arg_vals_cmp", (0, 1)), ("arg-val.c", "rtosc_avmessage", (4,))):
        uu = ctx.ast(un)
        fn = uu.function(q)
        ps = uu.params(fn)
        for pi in params:
            pid = ps[pi]["id"]
            uses = [x for x in A.walk(uu.body(fn)) if x.get("kind") == "DeclRefExpr" and x["referencedDecl"]["id"] == pid]
            ok = bool(uses)
            for x in uses:
                call = None
                for p in uu.ancestors(x):
                    if p.get("kind") == "CallExpr":
                        call = p
                        break
                    if p.get("kind") not in ("ImplicitCastExpr", "ParenExpr", "CStyleCastExpr"):
                        break
                if call is None or A.callee_name(call) != "rtosc_arg_val_itr_init":
                    ok = False
            gets = len(list(A.calls_in(uu.body(fn), "rtosc_arg_val_itr_get")))
            nexts = len(list(A.calls_in(uu.body(fn), "rtosc_arg_val_itr_next")))
            ctx.ob("R16.4", "%s(%s)" % (q, ps[pi].get("name")), ok and gets >= 1 and nexts >= 1, site=A.where(fn),
                   detail={"uses": len(uses), "itr_get": gets, "itr_next": nexts},
                   what="%s reads its argument array `%s` other than through the range-aware iterator" % (q, ps[pi].get("name")))

    # ---- R16.5
    for q in ("rtosc_arg_vals_eq", "rtosc_arg_vals_cmp"):
        fn = u.function(q)
        ps = u.params(fn)
        pair = {ps[2]["id"]: ("lsize", "litr"), ps[3]["id"]: ("rsize", "ritr")}
        # iterator variables by declaration order
        itrs = [x for x in A.walk(u.body(fn)) if x.get("kind") == "VarDecl" and "rtosc_arg_val_itr" in A.stype(x)]
        itr_of = {}
        if len(itrs) >= 2:
            itr_of[ps[2]["id"]] = itrs[0]["id"]
            itr_of[ps[3]["id"]] = itrs[1]["id"]
        bad = []
        nuse = 0
        for x in A.walk(u.body(fn)):
            if x.get("kind") == "DeclRefExpr" and x["referencedDecl"]["id"] in pair:
                nuse += 1
                pid = x["referencedDecl"]["id"]
                ok = False
                child = x
                for p_ in u.ancestors(x):
                    k = p_.get("kind")
                    if k in ("ImplicitCastExpr", "ParenExpr"):
                        child = p_
                        continue
                    if k == "CallExpr" and A.callee_name(p_) in ("rtosc_arg_vals_cmp_has_next", "rtosc_arg_vals_eq_after_abort"):
                        ok = True
                    elif k == "BinaryOperator" and p_.get("opcode") == "-":
                        l, r = A.kids(p_)
                        rr = A.strip_casts(r)
                        if A.strip_casts(l).get("id") == x.get("id") and rr.get("kind") == "MemberExpr" and rr.get("name") == "i" and A.ref_id(A.kids(rr)[0]) == itr_of.get(pid):
                            ok = True
                    break
                if not ok:
                    bad.append("%s at %s" % (pair[pid][0], A.where(x)))
        ctx.ob("R16.5", q, nuse >= 2 and not bad, site=A.where(fn), detail={"uses": nuse, "raw_uses": bad},
               what="%s uses a raw slot count (%s): compressed and expanded lists of the same values have different slot counts" % (q, bad))
