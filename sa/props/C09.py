"""C09 - Walking a port tree (narrow structural claim; DESIGN.md section 2, C09)."""
import os
import re

from .. import astlib as A
from .. import fdeval as FD
from ..facts import AnalysisBroken, WITNESS_DIR
from ..rules import flow as FL
from ..rules import guard as G
from ..rules import metakeys as MK

LEVEL = "other"
EXPLANATION = ("Structural clauses of the walker, on the -O0 IR / AST of ports.cpp and bundle-foreach.h: (R09.1) in walk_ports every "
               "path from a write into the shared name buffer inside the port loop to the next iteration or return passes the "
               "truncation at old_end, and bundle_foreach ends with the NUL store at old_end (`leaves the caller's buffer holding "
               "the prefix it started with`); (R09.2) the `#N` expansion loops of walk_ports_recurse0 and bundle_foreach, evaluated "
               "for N = 0..4, emit exactly the indices rtosc_match_number accepts (0..N-1), N being atoi of the text after '#'; "
               "(R09.3) the literal keys the walker consumes (`enabled by`, port `self:`) are the ones rEnabledBy / rSelf emit; "
               "(R09.4) bytes appended to the name buffer through a cursor are NUL-terminated on every path before the buffer is "
               "handed to the recursion / the walker callback. Exactly-once enumeration, pruning by run-time state and the in-place "
               "string surgery for multi-component names are not decided.")
TRUSTED = ["clang 14 AST/-O0 IR", "sa/rules/flow.py instruction-level path search", "sa/fdeval.py", "witness expansions of rEnabledBy / rSelf"]
ASSUMPTIONS = ["snprintf NUL-terminates what it writes", "callbacks do not write behind old_end"]
UNIT = "ports.cpp"


def _find(m, P, pat):
    fs = [x for x in m.functions.values() if re.search(pat, P.dm(x.name)) and "::$_" not in P.dm(x.name) and "{lambda" not in P.dm(x.name)]
    if not fs:
        raise AnalysisBroken("anchor vanished: %s" % pat)
    return fs[0]


def _loop_indices(u, loop, bound_id, N, extra_env=None):
    """indices for which the body of `for(i=0; i<bound; ++i)` runs, bound = N"""
    raw = loop.get("inner", [])
    init, cond, inc = raw[0], raw[2], raw[3]
    ev = FD.Eval(env=dict(extra_env or {}, **{bound_id: N}))
    ev.run(init)
    ivar = [d["id"] for d in A.kids(init) if d.get("kind") == "VarDecl"][0] if init.get("kind") == "DeclStmt" else None
    out = []
    for _ in range(N + 3):
        if not ev.ev(cond):
            break
        out.append(ev.env[ivar])
        ev.ev(inc)
    return out


def run(ctx):
    u = ctx.ast(UNIT)
    m = ctx.ir(UNIT)
    P = ctx.program_of("ports.cpp")
    ctx.rule("R09.1", "BUF-RESTORE: from every write into the name buffer inside walk_ports' port loop all paths to the next iteration / return pass the truncation at old_end; bundle_foreach's last store is the NUL at old_end (cut_afterwards)")
    ctx.rule("R09.2", "ENUM-EXPAND: the #N expansion loops emit exactly the indices 0..N-1 (evaluated for N = 0..4), N = atoi of the text after '#', the set rtosc_match_number accepts")
    ctx.rule("R09.3", "KEYS: `enabled by` (port_is_enabled) and `self:` (walk_ports) are the literals rEnabledBy / rSelf emit")
    ctx.rule("R09.5", "CHILD-OBJECT: every recursion callback (rRecur, rRecurp, rRecurs, rRecursp) stores the child runtime object into data.obj before any return and before it dispatches - the walker reads the child pointer (and its null-ness) from there")
    ctx.rule("R09.6", "ENABLED-BY-PARENT: walk_ports_recurse asks port_is_enabled with the runtime object of the level that owns the enabling toggle: no assignment to `runtime` (the child object) can reach that call")
    ctx.rule("R09.4", "TERMINATE: bytes appended to the name buffer through a cursor are followed by a NUL store (or snprintf) on every path before the buffer is handed to walk_ports_recurse / the walker callback")

    # ---------------- R09.1 walk_ports
    f = _find(m, P, r'^rtosc::walk_ports\(')
    defs = f.defs()
    oe = FL.slot_of_local(f, "old_end")
    nb = G.param_slot(f, 1)
    ctx.require(oe is not None, "walk_ports: old_end not found")
    oe_loads = FL.loads_of(f, oe)
    nb_vals, _ = G.derived(f, nb)
    truncs = []
    for i in f.insts():
        if i.op == "store":
            v, p = G.parse_store(i)
            if v in oe_loads and p != oe and defs.get(p) is not None and defs[p].op == "alloca":
                zero = [z for z in f.insts() if z.op == "store" and G.parse_store(z)[0] == "0" and defs.get(G.parse_store(z)[1]) is not None and
                        defs[G.parse_store(z)[1]].op == "load" and G.parse_load(defs[G.parse_store(z)[1]]) == p]
                if zero:
                    truncs.append(i)
    for c in f.calls():
        if c.callee and (c.callee.startswith("llvm.memset") or c.callee == "memset") and len(c.args) >= 2 and c.args[0] in oe_loads and c.args[1] == "0":
            truncs.append(c)
    for i in f.insts():
        if i.op == "store" and G.parse_store(i)[0] == "0" and G.parse_store(i)[1] in oe_loads:
            truncs.append(i)
    # ... or a helper of the unit that is handed old_end and zeroes what its parameter points at (memset with 0, or zero
    # stores through the parameter) and nothing else through it
    for c in f.calls():
        if c.indirect or not c.callee or c.callee not in m.functions or not c.args or c.args[0] not in oe_loads:
            continue
        h = m.functions[c.callee]
        if not h.blocks or len(c.args) != 1:
            continue
        hp = G.param_slot(h, 0)
        hvals, hslots = G.derived(h, hp)
        hl = set(FL.loads_of(h, hp)) | set(hvals)
        zeroes = [x for x in h.calls() if x.callee and (x.callee.startswith("llvm.memset") or x.callee == "memset") and len(x.args) >= 2 and x.args[0] in hl and x.args[1] == "0"]
        zeroes += [x for x in h.insts() if x.op == "store" and G.parse_store(x)[0] == "0" and x.text.startswith("store i8 ") and G.parse_store(x)[1] in hl]
        others = [x for x in h.insts() if x.op == "store" and x.text.startswith("store i8 ") and G.parse_store(x)[0] != "0" and G.parse_store(x)[1] in hl]
        if zeroes and not others:
            truncs.append(c)
    ctx.require(len(truncs) >= 1, "walk_ports: truncation at old_end not found")
    writers = []
    for c in f.calls():
        if c.callee and c.callee.startswith("llvm."):
            continue
        if any(c is t_ for t_ in truncs):
            continue                 # the helper that cuts the buffer back is no writer
        if any(a in nb_vals or a in oe_loads for a in c.args):
            if FL.loop_latches_for(f, c):
                writers.append(c)
    # bytes appended by hand (a copy loop through a cursor that starts at old_end / in the buffer) are writes too
    oe_vals, _oe_slots = G.derived(f, oe)
    raw_appends = []
    for i in f.insts():
        if i.op == "store" and i.text.startswith("store i8 "):
            v, p = G.parse_store(i)
            if v != "0" and (p in oe_vals or p in nb_vals) and FL.loop_latches_for(f, i):
                raw_appends.append(i)
    ctx.require(len(writers) + len(raw_appends) >= 4, "walk_ports: only %d buffer-writing sites found inside the port loop" % (len(writers) + len(raw_appends)))
    # R09.4 for walk_ports: hand-appended bytes are terminated before the buffer is read by the walker / the recursion
    nul_stores = [i for i in f.insts() if i.op == "store" and i.text.startswith("store i8 0,") and (G.parse_store(i)[1] in oe_vals or G.parse_store(i)[1] in nb_vals)]
    direct_writers = [c for c in writers if not c.indirect and not re.match(r'^(rtosc::)?walk_ports', P.dm(c.callee))]
    readers = [c for c in writers if c.indirect or re.match(r'^(rtosc::)?walk_ports', P.dm(c.callee))]
    for a in raw_appends:
        esc4 = FL.escapes(f, a, nul_stores + direct_writers, readers)
        ctx.ob("R09.4", "walk_ports: append@%s" % a.line, esc4 is None, site=a.where(),
               what="walk_ports: bytes appended at %s reach %s without a terminating NUL: what an earlier, longer address left in the buffer is read as part of the name" % (a.where(), esc4.where() if esc4 is not None else ""))
    rets = [i for i in f.insts() if i.op == "ret"]
    for k, w in enumerate(writers):
        # the for-range latch is the outermost loop containing the writer
        latches = FL.loop_latches_for(f, w)
        esc = FL.escapes(f, w, truncs, latches + rets)
        callee = P.dm(w.callee).split("(")[0] if not w.indirect else "walker (indirect)"
        ctx.ob("R09.1", "walk_ports: after %s@%s" % (callee, w.line), esc is None, site=w.where(),
               what="walk_ports: after %s at %s a path reaches %s without cutting the name buffer back to old_end" % (callee, w.where(), esc.where() if esc is not None else ""))
    # bundle_foreach: the NUL at old_end (or pos2) is the last store through the buffer before every return
    bf = _find(m, P, r'^void rtosc::bundle_foreach<')
    bdefs = bf.defs()
    boe = G.param_slot(bf, 2)
    boe_loads = FL.loads_of(bf, boe)
    dvals, dslots = G.derived(bf, boe)
    ftor_calls = [c for c in bf.calls() if c.indirect]
    finals = []          # terminating NUL stores behind the loop: through old_end or a cursor derived from it, with no functor call after them
    finals_old_end = []  # ... those that go through old_end itself (directly or as one input of a ?: )
    for i in bf.insts():
        if i.op == "store" and G.parse_store(i)[0] == "0" and i.text.startswith("store i8 "):
            p = G.parse_store(i)[1]
            d = bdefs.get(p)
            through_oe = p in boe_loads or (d is not None and d.op in ("phi", "select") and any(o in boe_loads for o in d.ops))
            derived_ptr = through_oe or p in dvals or (d is not None and d.op == "load" and G.parse_load(d) in dslots) or \
                (d is not None and d.op in ("phi", "select") and any(o in dvals for o in d.ops))
            if derived_ptr and not any(bf.reaches(i, c) for c in ftor_calls):
                finals.append(i)
                if through_oe:
                    finals_old_end.append(i)
    ctx.ob("R09.1", "bundle_foreach: NUL store at old_end exists", len(finals_old_end) >= 1, site="%s:%s" % (bf.file, bf.line),
           what="bundle_foreach no longer stores a NUL at old_end: the caller's buffer keeps the expanded name")
    # the write cursors: locals that hold a pointer derived from old_end (whatever they are called)
    pos_slots = sorted(dslots - {boe})
    ctx.require(len(pos_slots) >= 1, "bundle_foreach: no write cursor derived from old_end found")
    bwrites = []
    for i in bf.insts():
        if i.op == "store" and i.text.startswith("store i8 "):
            p = G.parse_store(i)[1]
            d = bdefs.get(p)
            if d is not None and d.op == "load" and G.parse_load(d) in pos_slots and not any(i is x for x in finals):
                bwrites.append(i)
    # library copies through the cursor (memcpy of the name's tail) are appends as well
    bcopies = []
    for c_ in bf.calls():
        if c_.callee and (c_.callee.startswith("llvm.memcpy") or c_.callee in ("memcpy", "memmove", "strncpy") or c_.callee.startswith("llvm.memmove")) and c_.args:
            d = bdefs.get(c_.args[0])
            if d is not None and d.op in ("getelementptr", "bitcast") and d.ops:
                d = bdefs.get(d.ops[0])
            if d is not None and d.op == "load" and G.parse_load(d) in pos_slots:
                bcopies.append(c_)
    ctx.require(len(bwrites) + len(bcopies) >= 2 and len(ftor_calls) == 1, "bundle_foreach: appends (%d) / functor call (%d) not found" % (len(bwrites) + len(bcopies), len(ftor_calls)))
    # what is appended is a string when the functor reads the buffer: a NUL is stored through the cursor on every path from an
    # append of name bytes (a byte store of a loaded character, a library copy) to the functor call
    nul_cur = [i for i in bf.insts() if i.op == "store" and i.text.startswith("store i8 ") and G.parse_store(i)[0] == "0" and
               bdefs.get(G.parse_store(i)[1]) is not None and bdefs[G.parse_store(i)[1]].op == "load" and G.parse_load(bdefs[G.parse_store(i)[1]]) in pos_slots]
    name_appends = [w for w in bwrites if G.parse_store(w)[0] != "0" and bdefs.get(G.parse_store(w)[0]) is not None and bdefs[G.parse_store(w)[0]].op == "load"] + bcopies
    for w in name_appends:
        esc = FL.escapes(bf, w, nul_cur, ftor_calls)
        ctx.ob("R09.4", "bundle_foreach: append@%s terminated" % w.line, esc is None, site=w.where(),
               key="R09.4:bundle_foreach:append",
               what="bundle_foreach: the name bytes appended at %s reach the walker call at %s without a terminating NUL behind them: the reported address ends in whatever an earlier, longer expansion left in the buffer" % (w.where(), esc.where() if esc is not None else ""))
    brets = [i for i in bf.insts() if i.op == "ret"]
    for w in bwrites + ftor_calls:
        esc = FL.escapes(bf, w, finals, brets)
        ctx.ob("R09.1", "bundle_foreach: after write@%s" % w.line, esc is None, site=w.where(),
               what="bundle_foreach can return after the write at %s without the final NUL store at old_end" % w.where())
    # the final store selects old_end when cut_afterwards is set
    fd_ast = None
    for un in (UNIT,):
        for q, fns in ctx.ast(un).functions.items():
            if q.endswith("bundle_foreach"):
                fd_ast = (ctx.ast(un), fns[0])
    ctx.require(fd_ast is not None, "bundle_foreach AST not found")
    ub, bfn = fd_ast
    # on the `cut_afterwards` edge every path to the return stores the NUL through old_end (IR: works for `*(c ? a : b) = 0`
    # and for `if(c) *a = 0; else *b = 0;` alike)
    pnames = [p_.get("name") for p_ in ub.params(bfn)]
    ctx.require("cut_afterwards" in pnames, "bundle_foreach: parameter cut_afterwards not found")
    cslot = G.param_slot(bf, pnames.index("cut_afterwards"))
    cvals = set(FL.loads_of(bf, cslot))
    changed = True
    while changed:
        changed = False
        for i in bf.insts():
            if i.op in ("trunc", "zext", "icmp") and i.res not in cvals and any(o in cvals for o in i.ops):
                cvals.add(i.res)
                changed = True
    okcut = False
    nbr = 0
    for i in bf.insts():
        if i.op == "br" and len(i.succs) == 2 and any(o in cvals for o in i.ops):
            nbr += 1
            # which successor is the `true` side: icmp ne 0 / trunc -> first successor
            cd = bdefs.get([o for o in i.ops if o in cvals][0])
            inverted = cd is not None and cd.op == "icmp" and cd.text.split()[1] == "eq"
            tsucc = i.succs[1] if inverted else i.succs[0]
            first = bf.bmap[tsucc].insts[0]
            if first in finals_old_end:
                okcut = True
            else:
                okcut = FL.escapes(bf, first, finals_old_end, brets) is None
    ctx.require(nbr >= 1, "bundle_foreach: no branch on cut_afterwards found in the IR")
    ctx.ob("R09.1", "bundle_foreach: cut at old_end when cut_afterwards", okcut, site="%s:%s" % (bf.file, bf.line),
           what="bundle_foreach does not end with a NUL stored at old_end on the cut_afterwards path")

    # ---------------- R09.2
    fr0 = u.function("walk_ports_recurse0")
    def _bound_from_atoi(lp_):
        c_ = lp_.get("inner", [None] * 5)[2]
        if not c_ or not c_.get("kind"):
            return False
        for y in A.walk(c_):
            if y.get("kind") == "DeclRefExpr" and (y.get("referencedDecl") or {}).get("kind") == "VarDecl":
                d_ = u.by_id.get(y["referencedDecl"]["id"])
                if d_ is not None and A.kids(d_) and any(A.callee_name(k_) == "atoi" for k_ in A.calls_in(d_)):
                    return True
        return False
    # the expansion loop: the for loop of walk_ports_recurse0 that counts up to the number read after '#'
    loops = [x for x in A.walk(u.body(fr0)) if x.get("kind") == "ForStmt" and _bound_from_atoi(x)]
    ctx.require(len(loops) == 1, "walk_ports_recurse0: expansion loop not found (%d candidates)" % len(loops))
    lp = loops[0]
    cond = lp["inner"][2]
    bid = [y["referencedDecl"]["id"] for y in A.walk(cond) if y.get("kind") == "DeclRefExpr" and y["referencedDecl"]["name"] != "i"]
    ctx.require(len(bid) == 1, "walk_ports_recurse0: loop bound not found")
    bd = u.by_id[bid[0]]
    from_atoi = A.kids(bd) and A.strip_casts(A.kids(bd)[-1]).get("kind") == "CallExpr" and A.callee_name(A.strip_casts(A.kids(bd)[-1])) == "atoi"
    bad = []
    try:
        for N in range(5):
            got = _loop_indices(u, lp, bid[0], N)
            if got != list(range(N)):
                bad.append({"N": N, "indices": got})
    except FD.Unknown as e:
        raise AnalysisBroken("R09.2: expansion loop not evaluable: %s" % e)
    ctx.ob("R09.2", "walk_ports_recurse0", not bad and bool(from_atoi), site=A.where(lp), detail={"mismatches": bad, "bound_is_atoi_after_#": bool(from_atoi)},
           what="walk_ports_recurse0 expands `#N` to %s" % bad[:2])
    # the expansion loop of bundle_foreach: the for loop that calls the functor (outermost such)
    ftor_ids = {p_["id"] for p_ in ub.params(bfn) if p_.get("name") == "ftor"} or {ub.params(bfn)[-4]["id"]}

    def _calls_ftor(x_):
        return any(y.get("kind") in ("CallExpr", "CXXOperatorCallExpr") and A.kids(y) and A.ref_id(A.kids(y)[0]) in ftor_ids for y in A.walk(x_))
    loopsb = [x for x in A.walk(ub.body(bfn)) if x.get("kind") == "ForStmt" and _calls_ftor(x)]
    loopsb = [x for x in loopsb if not any(x is not o and any(y is x for y in A.walk(o)) for o in loopsb)]
    ctx.require(len(loopsb) == 1, "bundle_foreach: expansion loop not found (%d candidates)" % len(loopsb))
    lpb = loopsb[0]
    condb = lpb["inner"][2]
    init_b = lpb["inner"][0]
    ivars = {d_["id"] for d_ in A.walk(init_b) if d_.get("kind") == "VarDecl"} if init_b and init_b.get("kind") else set()
    bound_ids = [y["referencedDecl"]["id"] for y in A.walk(condb) if y.get("kind") == "DeclRefExpr" and y["referencedDecl"]["id"] not in ivars]
    ctx.require(len(bound_ids) == 1 and len(ivars) == 1, "bundle_foreach: loop variable / bound not identified")
    itid = bound_ids[0]
    ivar_b = next(iter(ivars))
    itd = ub.by_id[itid]
    # iterations = (expand_bundles && !ranges) ? max : 1  - max being the local read with atoi after the '#'
    refs_b = {}
    for y in A.walk(A.kids(itd)[-1]):
        if y.get("kind") == "DeclRefExpr":
            refs_b[y["referencedDecl"]["id"]] = y["referencedDecl"].get("name")
    max_ids = [i_ for i_ in refs_b if ub.by_id.get(i_) is not None and ub.by_id[i_].get("kind") == "VarDecl" and A.kids(ub.by_id[i_]) and
               any(A.callee_name(k_) == "atoi" for k_ in A.calls_in(ub.by_id[i_]))]
    from_atoi_b = len(max_ids) == 1
    ids = {nm_: i_ for i_, nm_ in refs_b.items()}
    bad = []
    try:
        for N in range(5):
            env = {(max_ids[0] if max_ids else None): N, ids.get("expand_bundles"): 1, ids.get("ranges"): 0}
            its = FD.Eval(env=env).ev(A.kids(itd)[-1])
            got = _loop_indices(ub, lpb, itid, its)
            if got != list(range(N)):
                bad.append({"N": N, "indices": got})
    except FD.Unknown as e:
        raise AnalysisBroken("R09.2: bundle_foreach loop not evaluable: %s" % e)
    # the printed number is the loop variable
    printed = [c for c in A.calls_in(lpb, "snprintf") if A.string_literal(A.kids(c)[3]) == "%d"]
    pr_ok = len(printed) == 1 and A.ref_id(A.kids(printed[0])[4]) == ivar_b
    ctx.ob("R09.2", "bundle_foreach", not bad and bool(from_atoi_b) and pr_ok, site=A.where(lpb), detail={"mismatches": bad, "bound_is_atoi_after_#": bool(from_atoi_b), "prints_loop_index": pr_ok},
           what="bundle_foreach expands `#N` to %s" % bad[:2])
    pr0 = [c for c in A.calls_in(lp, "snprintf") if A.string_literal(A.kids(c)[3]) == "%d/"]
    ctx.ob("R09.2", "walk_ports_recurse0 prints the loop index", len(pr0) == 1 and A.ref_name(A.kids(pr0[0])[4]) == "i", site=A.where(lp),
           what="walk_ports_recurse0 does not print its loop index as the path component")

    # ---------------- R09.3
    em = MK.emitted_by_macro(ctx.ast("meta_matrix.cpp"))
    fpe = u.function("port_is_enabled")
    lk = [k for k, _, _ in MK.lookups(u, u.body(fpe))]
    ek = [k for k, v in em["rEnabledBy"]]
    ctx.ob("R09.3", "port_is_enabled key", lk == ek and len(ek) == 1, site=A.where(fpe), detail={"looked_up": lk, "rEnabledBy_emits": ek},
           what="port_is_enabled looks up %s, rEnabledBy emits %s" % (lk, ek))
    fw = u.function("walk_ports")
    selfs = [A.string_literal(a) for c in A.calls_in(u.body(fw)) for a in A.kids(c)[1:] if A.string_literal(a) is not None]
    pm = MK.port_metadata(ctx.ast("sugar_matrix.cpp"))
    src = open(os.path.join(WITNESS_DIR, "sugar_matrix.cpp")).read()
    rself_names = [n for n in pm if n.startswith("self")]
    ctx.ob("R09.3", "walk_ports self port", len(rself_names) == 1 and rself_names[0] in selfs and "rSelf(" in src, site=A.where(fw), detail={"looked_up": selfs, "rSelf_port_name": rself_names},
           what="walk_ports looks up %s, rSelf names its port %s" % (selfs, rself_names))

    # ---------------- R09.6
    wr = _find(m, P, r'^walk_ports_recurse\(')
    rts = FL.slot_of_local(wr, "runtime")
    ctx.require(rts is not None, "walk_ports_recurse: runtime not found")
    reassign = [i for i in wr.insts() if i.op == "store" and G.parse_store(i)[1] == rts and i.block is not wr.blocks[0]]
    pie = [c for c in wr.calls() if not c.indirect and re.match(r'^port_is_enabled\(', P.dm(c.callee))]
    ctx.require(len(pie) == 1, "walk_ports_recurse: call of port_is_enabled not found")
    early = [i for i in reassign if FL.escapes(wr, i, [], pie) is not None]
    # and the argument is the runtime variable itself
    argd = wr.defs().get(pie[0].args[4]) if len(pie[0].args) > 4 else None
    from_rt = argd is not None and argd.op == "load" and G.parse_load(argd) == rts
    ctx.ob("R09.6", "walk_ports_recurse", from_rt and not early, site=pie[0].where(), detail={"passes_runtime": from_rt, "reassignments_reaching_the_call": [i.where() for i in early]},
           what="walk_ports_recurse asks port_is_enabled with the child's runtime object (runtime is reassigned at %s before the call)" % [i.where() for i in early])

    # ---------------- R09.5
    from ..rules import sugar as S
    su = ctx.ast("sugar_matrix.cpp")
    lams = [L for L in S.lambdas(su, os.path.join(WITNESS_DIR, "sugar_matrix.cpp")) if L.macro in ("rRecur", "rRecurp", "rRecurs", "rRecursp")]
    recs = []
    for L in lams:
        data_id = L.params[1]["id"]
        stmts = A.kids(L.body)
        st_idx = None
        for i_, s_ in enumerate(stmts):
            for x in A.walk(s_):
                if x.get("kind") == "BinaryOperator" and x.get("opcode") == "=":
                    l = A.strip_casts(A.kids(x)[0])
                    if l.get("kind") == "MemberExpr" and l.get("name") == "obj" and A.ref_id(A.kids(l)[0]) == data_id:
                        st_idx = i_ if st_idx is None else st_idx
        if st_idx is None and not any(A.callee_name(c) == "dispatch" for c in A.calls_in(L.body)):
            continue      # the second lambda of rRecur (pointer query) does not recurse
        recs.append(L)
        early = []
        for i_, s_ in enumerate(stmts[:st_idx] if st_idx is not None else stmts):
            for x in A.walk(s_):
                if x.get("kind") == "ReturnStmt" or (x.get("kind") == "CXXMemberCallExpr" and A.strip_casts(A.kids(x)[0]).get("name") == "dispatch"):
                    early.append(A.where(x))
        ctx.ob("R09.5", L.label, st_idx is not None and not early, site=A.where(L.body) if st_idx is None else A.where(stmts[st_idx]),
               detail={"stores_data_obj": st_idx is not None, "returns_or_dispatches_before_the_store": early},
               what="%s: the callback can return / dispatch before it has stored the child object into data.obj" % L.label)
    ctx.require(len(recs) >= 4, "R09.5: only %d recursion callbacks found in the witness" % len(recs))

    # ---------------- R09.4
    g = _find(m, P, r'^walk_ports_recurse0\(')
    gdefs = g.defs()
    wh = FL.slot_of_local(g, "write_head")
    ctx.require(wh is not None, "walk_ports_recurse0: write_head not found")
    appends, nuls = [], []
    for i in g.insts():
        if i.op == "store" and i.text.startswith("store i8 "):
            v, p = G.parse_store(i)
            d = gdefs.get(p)
            if d is not None and d.op == "load" and G.parse_load(d) == wh:
                (nuls if v == "0" else appends).append(i)
    wh_loads = FL.loads_of(g, wh)
    killers = list(nuls) + [c for c in g.calls() if c.callee == "snprintf" and c.args and c.args[0] in wh_loads]
    consumers = [c for c in g.calls() if not c.indirect and re.match(r'^walk_ports_recurse\(', P.dm(c.callee))]
    ctx.require(len(appends) >= 2 and len(consumers) == 1, "walk_ports_recurse0: appends (%d) / consumer (%d) not found" % (len(appends), len(consumers)))
    for a in appends:
        esc = FL.escapes(g, a, killers, consumers)
        ctx.ob("R09.4", "walk_ports_recurse0: append@%s" % a.line, esc is None, site=a.where(),
               what="walk_ports_recurse0: bytes appended at %s reach walk_ports_recurse at %s without a terminating NUL" % (a.where(), esc.where() if esc is not None else ""))
    # bundle_foreach: appends through pos/pos2 -> NUL before the functor
    bnuls = [i for i in bf.insts() if i.op == "store" and i.text.startswith("store i8 0,") and bdefs.get(G.parse_store(i)[1]) is not None and
             bdefs[G.parse_store(i)[1]].op == "load" and G.parse_load(bdefs[G.parse_store(i)[1]]) in pos_slots]
    bapp = [i for i in bwrites if G.parse_store(i)[0] != "0"]
    for a in bapp:
        esc = FL.escapes(bf, a, bnuls, ftor_calls)
        ctx.ob("R09.4", "bundle_foreach: append@%s" % a.line, esc is None, site=a.where(),
               what="bundle_foreach: bytes appended at %s reach the functor call without a terminating NUL" % a.where())

    # ---------------- R09.12: where the enabling port is looked for
    ctx.rule("R09.12", "ENABLER-PLACE: port_is_enabled looks for the enabling port below the sub-tree exactly when the 'enabled by' value begins with the sub-tree's own name including its '/' (`osc/` enabled by `osc/on`), and among the siblings otherwise (`osc/` enabled by `osc_on`, `p1/` by `p10`): the decision, evaluated on pairs of names")
    fpe = u.function("port_is_enabled")
    flag12 = None
    for x in A.walk(u.body(fpe)):
        if x.get("kind") == "VarDecl" and "bool" in (A.qtype(x) or "") and A.kids(x):
            used = [y for y in A.walk(u.body(fpe)) if y.get("kind") == "ConditionalOperator" and A.ref_id(A.kids(y)[0]) == x["id"]]
            if used:
                flag12 = x
                break
    ctx.require(flag12 is not None, "R09.12: the flag that selects the sub-tree's ports was not found in port_is_enabled")
    holder12 = None
    for x in A.walk(u.body(fpe)):
        if x.get("kind") == "CompoundStmt" and any(s_.get("kind") == "DeclStmt" and any(d_.get("id") == flag12["id"] for d_ in A.kids(s_)) for s_ in A.kids(x)):
            holder12 = x
    ctx.require(holder12 is not None, "R09.12: the block declaring the flag was not found")
    stmts12 = []
    for s_ in A.kids(holder12):
        stmts12.append(s_)
        if s_.get("kind") == "DeclStmt" and any(d_.get("id") == flag12["id"] for d_ in A.kids(s_)):
            break
    pairs12 = [("osc/", "osc/on", True), ("osc/", "osc_on", False), ("osc/", "oscon", False), ("p1/", "p10", False), ("p1/", "p1/enabled", True), ("a/", "b", False),
               ("lfo/", "mod_on", False), ("voice#8/", "voice#8/Enabled", True), ("voice#8/", "voice_on", False), ("ab/", "a", False), ("ab/", "ab", False), ("x/", "x/", True)]
    bad12 = []
    for nm, en, want in pairs12:
        NB, EB = 4096, 8192

        def deref12(a_, n_, nm=nm, en=en):
            if NB <= a_ <= NB + len(nm):
                return ord(nm[a_ - NB]) if a_ - NB < len(nm) else 0
            if EB <= a_ <= EB + len(en):
                return ord(en[a_ - EB]) if a_ - EB < len(en) else 0
            raise FD.Unknown("read outside the two names", n_)

        def txt12(v_, nm=nm, en=en):
            if isinstance(v_, str):
                return v_
            if NB <= v_ <= NB + len(nm):
                return nm[v_ - NB:]
            if EB <= v_ <= EB + len(en):
                return en[v_ - EB:]
            raise FD.Unknown("string operand %r" % (v_,))
        h12 = {}

        def hook12(n_, ev_):
            k_ = n_.get("kind")
            if k_ == "MemberExpr" and n_.get("name") == "name":
                return NB
            if k_ == "CXXOperatorCallExpr" and any(A.string_literal(y) == "enabled by" for y in A.walk(n_)):
                return EB
            if k_ == "StringLiteral":
                return A.string_literal(n_)
            if k_ == "ImplicitCastExpr" and n_.get("castKind") == "ArrayToPointerDecay" and A.string_literal(A.kids(n_)[0]) is not None:
                return A.string_literal(A.kids(n_)[0])
            return NotImplemented

        def call12(fnm, vals, n_):
            if fnm == "strlen":
                return len(txt12(vals[0]))
            if fnm in ("strncmp", "memcmp"):
                a_, b_ = txt12(vals[0])[:vals[2]], txt12(vals[1])[:vals[2]]
                return (a_ > b_) - (a_ < b_)
            if fnm == "strcmp":
                a_, b_ = txt12(vals[0]), txt12(vals[1])
                return (a_ > b_) - (a_ < b_)
            if fnm in ("strchr",):
                t_ = txt12(vals[0])
                i_ = t_.find(chr(vals[1])) if vals[1] else len(t_)
                return vals[0] + i_ if i_ >= 0 else 0
            if fnm in ("strcspn", "strspn"):
                t_, set_ = txt12(vals[0]), txt12(vals[1])
                i_ = 0
                while i_ < len(t_) and ((t_[i_] in set_) == (fnm == "strspn")):
                    i_ += 1
                return i_
            fns_ = [f_ for f_ in u.functions.get(fnm, []) if u.body(f_) is not None]
            if len(fns_) == 1:
                return h12["ev"].call_function(u, fns_[0], vals)
            raise FD.Unknown("call to %s" % fnm, n_)
        env12 = {}
        # locals of the function declared before the block (the 'enabled by' value): bound to the probe
        for y in A.walk(u.body(fpe)):
            if y.get("kind") == "VarDecl" and A.kids(y) and any(A.string_literal(z) == "enabled by" for z in A.walk(y)):
                env12[y["id"]] = EB
        ev12 = FD.Eval(env=env12, deref=deref12, node_hook=hook12, call=call12, max_steps=2000)
        h12["ev"] = ev12
        # only the statements the flag depends on are run (backward slice over the locals of the block)
        need12 = {y["referencedDecl"]["id"] for y in A.walk(flag12) if y.get("kind") == "DeclRefExpr" and (y.get("referencedDecl") or {}).get("kind") == "VarDecl"}
        for _ in range(6):
            for s_ in stmts12[:-1]:
                declared = {d_.get("id") for d_ in A.kids(s_)} if s_.get("kind") == "DeclStmt" else set()
                written = {A.ref_id(A.kids(y)[0]) for y in A.walk(s_) if (y.get("kind") in ("BinaryOperator", "CompoundAssignOperator") and y.get("opcode", "").endswith("=") and y.get("opcode") not in ("==", "!=", "<=", ">=")) or
                           (y.get("kind") == "UnaryOperator" and y.get("opcode") in ("++", "--"))}
                if (declared | written) & need12:
                    need12 |= {y["referencedDecl"]["id"] for y in A.walk(s_) if y.get("kind") == "DeclRefExpr" and (y.get("referencedDecl") or {}).get("kind") == "VarDecl"}
        try:
            for s_ in stmts12:
                if s_.get("kind") == "DeclStmt" and any(d_.get("id") in env12 for d_ in A.kids(s_)):
                    continue
                declared = {d_.get("id") for d_ in A.kids(s_)} if s_.get("kind") == "DeclStmt" else set()
                written = {A.ref_id(A.kids(y)[0]) for y in A.walk(s_) if (y.get("kind") in ("BinaryOperator", "CompoundAssignOperator") and y.get("opcode", "").endswith("=") and y.get("opcode") not in ("==", "!=", "<=", ">=")) or
                           (y.get("kind") == "UnaryOperator" and y.get("opcode") in ("++", "--"))}
                if s_ is not stmts12[-1] and not ((declared | written) & need12):
                    continue
                ev12.run(s_)
        except FD.Unknown as e:
            raise AnalysisBroken("R09.12: the sub-tree decision of port_is_enabled is not evaluable on (%r, %r): %s" % (nm, en, e))
        got12 = bool(ev12.env.get(flag12["id"]))
        if got12 != want:
            bad12.append({"port": nm, "enabled_by": en, "looks_below_the_sub_tree": got12, "expected": want})
    ctx.ob("R09.12", "port_is_enabled: sub-tree or sibling", not bad12, site=A.where(flag12), detail={"pairs": len(pairs12), "mismatches": bad12[:5]},
           what="port_is_enabled decides where to look for the enabling port wrongly for %s: a sibling toggle whose name merely begins like the sub-tree's is looked up inside the sub-tree" % [(b_["port"], b_["enabled_by"]) for b_ in bad12[:4]])

    # ---------------- R09.14: the name the walker is handed for an enabling toggle below a disabled sub-tree
    ctx.rule("R09.14", "ENABLER-NAME: port_is_enabled, evaluated as a whole function on a byte memory for both of its callers (a tree's `self:` port, not relative to the parent; a sub-tree port, relative to the parent) with a toggle that says false, "
             "hands the walker the toggle's collapsed absolute location and, as the name from the base ports, exactly the `enabled by` value inside that location (enabling names of 1, 2, 3 and 7 characters); a sibling toggle gets no walker call")
    from ..rules import enablerwalk as EW
    try:
        bad14, n14 = EW.check(u)
    except FD.Unknown as e:
        raise AnalysisBroken("R09.14: port_is_enabled is not evaluable as a whole: %s" % e)
    ctx.ob("R09.14", "port_is_enabled: walker call for the enabling toggle", not bad14, site=A.where(u.function("port_is_enabled")), detail={"cases": n14, "mismatches": bad14[:5]},
           key="R09.14:%s" % (bad14[0]["case"].split(" ")[0] if bad14 else ""),
           what="port_is_enabled hands the walker a wrong location / name for the enabling toggle: %s" % ["%s: %s, expected %s" % (b_["case"], b_["walker_calls"], b_["expected"]) for b_ in bad14[:3]])

    # ---------------- R09.7
    # ---- R09.13: only a null child object prunes a sub-tree
    ctx.rule("R09.13", "NULL-ONLY: after the recursion callback has stored the child's runtime object, walk_ports_recurse takes the sub-tree for absent exactly when that pointer is null - evaluated for a null pointer, "
                       "a pointer equal to the parent's object (a sub-object at offset 0, element 0 of an array that is the first member) and another pointer")
    fwr = u.function("walk_ports_recurse")
    prm13 = {p_.get("name"): p_["id"] for p_ in u.params(fwr)}
    cand13 = []
    for x in A.walk(u.body(fwr)):
        rhs13 = None
        if x.get("kind") == "BinaryOperator" and x.get("opcode") == "=" and A.ref_id(A.kids(x)[0]) is not None:
            rhs13 = A.kids(x)[1]
        elif x.get("kind") == "VarDecl" and A.kids(x) and x.get("id") not in prm13.values():
            rhs13 = A.kids(x)[-1]
        if rhs13 is not None and any(y.get("kind") == "MemberExpr" and y.get("name") == "obj" for y in A.walk(rhs13)) and "bool" in (A.qtype(x if x.get("kind") == "VarDecl" else A.kids(x)[0]) or ""):
            cand13.append((x, rhs13))
    # ... or the test stands in a condition: on the stored pointer itself, or on a local that holds it (taken from `r.obj`
    # or from a helper of the unit that returns it)
    child13 = set()
    for d_ in A.walk(u.body(fwr)):
        if d_.get("kind") == "VarDecl" and "*" in (A.qtype(d_) or "") and A.kids(d_) and d_.get("id") not in prm13.values():
            init_ = A.strip_casts(A.kids(d_)[-1])
            if init_.get("kind") == "MemberExpr" and init_.get("name") == "obj":
                child13.add(d_["id"])
            elif init_.get("kind") == "CallExpr":
                hs_ = [f_ for f_ in u.functions.get(A.callee_name(init_) or "", []) if u.body(f_) is not None]
                if len(hs_) == 1 and any(r_.get("kind") == "ReturnStmt" and A.kids(r_) and A.strip_casts(A.kids(r_)[0]).get("kind") == "MemberExpr" and A.strip_casts(A.kids(r_)[0]).get("name") == "obj"
                                         for r_ in A.walk(u.body(hs_[0]))):
                    child13.add(d_["id"])
    for x in A.walk(u.body(fwr)):
        if x.get("kind") == "IfStmt":
            c_ = A.kids(x)[(1 if x.get("hasInit") else 0) + (1 if x.get("hasVar") else 0)]
            if any((y.get("kind") == "MemberExpr" and y.get("name") == "obj") or (y.get("kind") == "DeclRefExpr" and (y.get("referencedDecl") or {}).get("id") in child13) for y in A.walk(c_)):
                cand13.append((x, c_))
    ctx.require(len(cand13) >= 1, "R09.13: walk_ports_recurse: the test of the child's runtime object was not found")
    P13, Q13 = 0x5000, 0x6000
    for x13, rhs13 in cand13:
        tab13 = {}
        for name13, obj13 in (("null", 0), ("the parent's object", P13), ("another object", Q13)):
            def hook13(n_, ev_, obj13=obj13):
                if n_.get("kind") == "MemberExpr" and n_.get("name") == "obj":
                    return obj13
                if n_.get("kind") == "DeclRefExpr" and (n_.get("referencedDecl") or {}).get("id") in child13:
                    return obj13
                if n_.get("kind") == "DeclRefExpr" and (n_.get("referencedDecl") or {}).get("kind") == "ParmVarDecl" and "void" in (A.qtype(n_) or "") and "*" in (A.qtype(n_) or ""):
                    return P13
                if n_.get("kind") in ("CXXBoolLiteralExpr",):
                    return 1 if n_.get("value") else 0
                return NotImplemented
            try:
                tab13[name13] = bool(FD.Eval(node_hook=hook13, max_steps=200).ev(rhs13))
            except FD.Unknown as e:
                raise AnalysisBroken("R09.13: the flag `%s` is not evaluable: %s" % (A.src(x13)[:60], e))
        ok13 = tab13["the parent's object"] == tab13["another object"] != tab13["null"]
        ctx.ob("R09.13", "walk_ports_recurse: child object present@%s" % A.loc(x13)[1], ok13, site=A.where(x13), detail={"test_is_true_for": tab13},
               key="R09.13:walk_ports_recurse:%d" % cand13.index((x13, rhs13)),
               what="walk_ports_recurse tests the child's runtime object with a condition that is true for %s: it must tell a null pointer from every other one and nothing else (a sub-object at offset 0 has its parent's address)" % tab13)

    ctx.rule("R09.7", "ENABLER-ONCE: port_is_enabled applies the walker to the enabling toggle exactly when the port is disabled and ordinary traversal would not reach the toggle, i.e. when it lies below the port it disables - inside the sub-tree (`subport`) or, for a sub-tree's own `self:` entry, always (the path is then relative to the sub-tree itself): the guard of the walker call, evaluated over all truth values, is !enabled && (subport || !relative_to_parent)")

    upp = ctx.ast("ports.cpp")

    def _r097():
        pie = upp.function("port_is_enabled")
        wcalls = []
        pps = upp.params(pie)
        walker_p = [p_ for p_ in pps if "port_walker_t" in A.stype(p_) or p_.get("name") == "walker"]
        rel_p = [p_ for p_ in pps if FD.ctype(A.qtype(p_)) == ("int", 1, False)]
        ctx.require(len(walker_p) == 1 and len(rel_p) == 1, "port_is_enabled: walker / relative_to_parent parameters not identified")
        for x in A.walk(upp.body(pie)):
            if x.get("kind") == "CallExpr" and A.ref_id(A.kids(x)[0]) == walker_p[0]["id"]:
                wcalls.append(x)
        ctx.require(len(wcalls) == 1, "port_is_enabled: expected one call of the walker, found %d" % len(wcalls))
        guards7 = []
        child = wcalls[0]
        for p_ in upp.ancestors(wcalls[0]):
            if p_.get("kind") == "IfStmt":
                ks_ = A.kids(p_)
                if _contains7(ks_[1], child):
                    guards7.append((ks_[0], True))
                elif len(ks_) > 2 and _contains7(ks_[2], child):
                    guards7.append((ks_[0], False))
            if p_.get("kind") == "FunctionDecl":
                break
            child = p_
        # locals in the innermost guard: the returned flag (enabled) and the other bool (lies inside the sub-tree)
        inner = guards7[0][0] if guards7 else None
        ctx.require(inner is not None, "port_is_enabled: the walker call has no guard")
        rets7 = {A.ref_id(A.kids(r_)[0]) for r_ in A.walk(upp.body(pie)) if r_.get("kind") == "ReturnStmt" and A.kids(r_) and A.ref_id(A.kids(r_)[0])}
        locs7 = sorted({y["referencedDecl"]["id"] for y in A.walk(inner) if y.get("kind") == "DeclRefExpr" and (y.get("referencedDecl") or {}).get("kind") == "VarDecl"})
        res_ids = [i_ for i_ in locs7 if i_ in rets7]
        sub_ids = [i_ for i_ in locs7 if i_ not in rets7]
        ctx.require(len(res_ids) == 1 and len(sub_ids) == 1, "port_is_enabled: guard of the walker call does not read the returned flag and one more local (%d, %d)" % (len(res_ids), len(sub_ids)))
        bad7 = []
        import itertools as _it
        for en, sub, rel in _it.product((0, 1), repeat=3):
            env7 = {res_ids[0]: en, sub_ids[0]: sub, rel_p[0]["id"]: rel, walker_p[0]["id"]: 1}
            try:
                got = bool(FD.Eval(env=env7).ev(inner))
            except FD.Unknown as e:
                raise AnalysisBroken("R09.7: guard not evaluable: %s" % e)
            exp = (not en) and bool(sub or not rel)
            if got != exp:
                bad7.append({"enabled": en, "toggle_inside_subtree": sub, "relative_to_parent": rel, "walker_applied": got, "expected": exp})
        ctx.ob("R09.7", "port_is_enabled: walker on the enabling toggle", not bad7, site=A.where(wcalls[0]), detail={"guard": A.src(inner), "cases": 8, "mismatches": bad7},
               what="port_is_enabled reports the enabling toggle to the walker under `%s`: wrong for %s - a toggle that ordinary traversal also reaches is reported twice, one that it does not reach is not reported at all" % (A.src(inner), bad7[:2]))


    try:
        _r097()
    except AnalysisBroken as e7:
        # the guard is read off the code's shape; where it is written another way (guard clauses, an early return) the
        # whole-function evaluation R09.14 has decided when the walker is called - for a switched-off and a switched-on
        # toggle, below the sub-tree and beside it, for both callers
        ctx.note("R09.7: %s; when the walker is applied to the enabling toggle is decided by the evaluation R09.14 (%d cases)" % (e7, n14))

    # ---------------- R09.8
    ctx.rule("R09.8", "NAME-CURSOR: in the walker functions a string function is handed `cursor + k` (k >= 1) only where the k bytes stepped over are known not to be the terminator (the call sits on the true side of a test of `*cursor`, or after an early exit on `!*cursor`) - a port name may end exactly at the cursor (`name#N/`)")
    SCAN_FNS = ("strchr", "strrchr", "strstr", "strlen", "atoi", "strcmp", "strncmp", "strpbrk", "strcspn", "strspn")
    n8 = 0
    for q8 in ("walk_ports_recurse0", "walk_ports_recurse", "walk_ports", "bundle_foreach"):
        for fn8 in upp.functions.get(q8, []) + [f_ for qq, fl in upp.functions.items() if qq.endswith("::" + q8) for f_ in fl]:
            b8 = upp.body(fn8)
            if b8 is None:
                continue
            for c8 in A.calls_in(b8):
                if A.callee_name(c8) not in SCAN_FNS:
                    continue
                for a8 in A.kids(c8)[1:]:
                    e8 = A.strip_casts(a8)
                    if not (e8.get("kind") == "BinaryOperator" and e8.get("opcode") == "+"):
                        continue
                    l8, r8 = A.kids(e8)
                    k8 = A.int_literal(r8)
                    pid8 = A.ref_id(l8)
                    if k8 is None or k8 < 1 or pid8 is None:
                        continue
                    d8 = upp.by_id.get(pid8)
                    if d8 is None or d8.get("kind") not in ("VarDecl", "ParmVarDecl") or FD.ctype(A.qtype(d8)) != ("ptr", 1):
                        continue
                    n8 += 1
                    ok8 = k8 == 1 and _nonnul_known(upp, c8, pid8)
                    ctx.ob("R09.8", "%s: %s(%s)" % (q8, A.callee_name(c8), A.src(e8)), ok8, site=A.where(c8), detail={"cursor": d8.get("name"), "offset": k8},
                           key="R09.8:%s:%s(%s+%d)" % (q8, A.callee_name(c8), d8.get("name"), k8),
                           what="%s calls %s(%s) although `%s` may point at the terminating NUL of the name: the search starts behind the string" % (q8, A.callee_name(c8), A.src(e8), d8.get("name")))
    ctx.require(n8 >= 1, "R09.8: no `cursor + k` argument of a string function found in the walker functions (positive control vanished)")


def _tests_nonnul(cond, pid):
    """cond is `*p` / `p[0]` / `*p != 0` (truthy iff the byte under the cursor is not the terminator)"""
    c = A.strip_casts(cond)
    if c.get("kind") == "BinaryOperator" and c.get("opcode") == "!=" and A.int_literal(A.kids(c)[1]) == 0:
        c = A.strip_casts(A.kids(c)[0])
    if c.get("kind") == "UnaryOperator" and c.get("opcode") == "*" and A.ref_id(A.kids(c)[0]) == pid:
        return True
    if c.get("kind") == "ArraySubscriptExpr" and A.ref_id(A.kids(c)[0]) == pid and A.int_literal(A.kids(c)[1]) == 0:
        return True
    if c.get("kind") == "BinaryOperator" and c.get("opcode") == "&&":
        return any(_tests_nonnul(k, pid) for k in A.kids(c))
    return False


def _tests_nul(cond, pid):
    c = A.strip_casts(cond)
    if c.get("kind") == "UnaryOperator" and c.get("opcode") == "!":
        return _tests_nonnul(A.kids(c)[0], pid)
    if c.get("kind") == "BinaryOperator" and c.get("opcode") == "==" and A.int_literal(A.kids(c)[1]) == 0:
        return _tests_nonnul(A.kids(c)[0], pid)
    return False


def _stops_at_nonzero_char(cond, pid):
    c = A.strip_casts(cond)
    if c.get("kind") == "BinaryOperator" and c.get("opcode") == "!=":
        l, r = A.kids(c)
        v = A.int_literal(r)
        ls = A.strip_casts(l)
        return bool(v) and ls.get("kind") == "UnaryOperator" and ls.get("opcode") == "*" and A.ref_id(A.kids(ls)[0]) == pid
    return False


def _writes_var(st, pid):
    for y in A.walk(st):
        if y.get("kind") in ("BinaryOperator", "CompoundAssignOperator") and y.get("opcode", "").endswith("=") and y.get("opcode") not in ("==", "!=", "<=", ">=") and A.ref_id(A.kids(y)[0]) == pid:
            return True
        if y.get("kind") == "UnaryOperator" and y.get("opcode") in ("++", "--") and A.ref_id(A.kids(y)[0]) == pid:
            return True
    return False


def _nonnul_known(u, node, pid):
    """node lies on the true side of a test that *cursor is not NUL, or behind an early exit taken when it is; no
    assignment to the cursor in between is looked for: the test and the use are expected in one expression/statement run"""
    child = node
    for p in u.ancestors(node):
        k = p.get("kind")
        ks = A.kids(p)
        if k in ("ConditionalOperator", "IfStmt") and len(ks) >= 2:
            if _contains7(ks[1], child) and _tests_nonnul(ks[0], pid):
                return True
            if len(ks) > 2 and _contains7(ks[2], child) and _tests_nul(ks[0], pid):
                return True
        if k == "BinaryOperator" and p.get("opcode") == "&&" and _contains7(ks[1], child) and _tests_nonnul(ks[0], pid):
            return True
        if k == "CompoundStmt":
            known = False
            for st in ks:
                if st is child or _contains7(st, child):
                    break
                if st.get("kind") == "IfStmt" and len(A.kids(st)) == 2 and _tests_nul(A.kids(st)[0], pid) and \
                        any(y.get("kind") in ("ReturnStmt", "ContinueStmt", "BreakStmt") for y in A.walk(A.kids(st)[1])):
                    known = True
                elif st.get("kind") == "WhileStmt" and _stops_at_nonzero_char(A.kids(st)[0], pid) and \
                        not any(y.get("kind") == "BreakStmt" for y in A.walk(A.kids(st)[-1])):
                    known = True           # `while(*p != '#') ...`: behind the loop *p is that character
                elif _writes_var(st, pid):
                    known = False
            if known:
                return True
        if k in ("FunctionDecl", "CXXMethodDecl"):
            break
        child = p
    return False


def _contains7(root, node):
    nid = node.get("id")
    for x_ in A.walk(root):
        if x_.get("id") == nid:
            return True
    return False
