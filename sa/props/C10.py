"""C10 - Pretty-printing is reversible (narrow: table agreement printer / scanner / checker; DESIGN.md section 2, C10)."""
import re

from .. import astlib as A
from .. import fdeval as FD
from ..facts import AnalysisBroken
from ..rules import codec as C
from ..rules import recog as R
from . import C11

LEVEL = "other"
EXPLANATION = ("Only table agreement between the printer and the two readers is decided: (R10.1) the escape tables as_escaped_char "
               "(printer) and get_escaped_char (scanner/checker), evaluated over all 128 characters in both quoting modes, are "
               "inverse bijections, and the quote of each mode and the backslash are escaped; (R10.2) the printer has a case for "
               "every printable tag and each such tag is one the scanner can produce (constants that flow into arg->type); (R10.3) "
               "the reserved words and prefixes the printer emits (true false nil inf immediately, `MIDI [`, `BLOB [`, `#`, quotes, "
               "the `S` symbol suffix) are recognised by scanner and checker under the same tag, and the scanner's truth value for "
               "true/false is right; (R10.4) inside the case of tag X printer, scanner and the arithmetic helpers touch only the "
               "union member of X. Numeric round trip, look-ahead heuristics, line breaking and range compression are value- and "
               "neighbour-dependent and are not decided (see C11 for the recogniser agreement that is).")
TRUSTED = ["clang 14 AST", "sa/fdeval.py"]
ASSUMPTIONS = ["printf/scanf conversions behave as documented"]
UNIT = "pretty-format.c"
MEMBER = {"i": {"i"}, "c": {"i"}, "r": {"i"}, "h": {"h"}, "t": {"t"}, "f": {"f"}, "d": {"d"}, "m": {"m"}, "s": {"s"}, "S": {"s"}, "b": {"b"},
          "T": {"T"}, "F": {"T"}, "N": set(), "I": set()}
VALUE_TAGS = set("icrhtfdmsSbTFNI")


def members_in(stmts, base_names=("val", "arg", "av", "res", "lhs", "rhs", "a", "b", "dest")):
    """union members accessed as <x>.val.M / val->M in the statements"""
    out = set()
    for s in stmts:
        for x in A.walk(s):
            if x.get("kind") == "MemberExpr":
                b = A.strip_casts(A.kids(x)[0]) if A.kids(x) else {}
                # val->M  or  arg->val.M
                if (b.get("kind") == "MemberExpr" and b.get("name") == "val") or (b.get("kind") == "DeclRefExpr" and "rtosc_arg_t" in A.qtype(b)):
                    if x.get("name") in ("i", "T", "f", "d", "h", "t", "m", "s", "b", "a", "r"):
                        out.add(x.get("name"))
    return out


def run(ctx):
    u = ctx.ast(UNIT)
    ctx.rule("R10.1", "ESCAPES: as_escaped_char and get_escaped_char are inverse bijections over all characters in both quoting modes; the mode's quote and the backslash are escaped")
    ctx.rule("R10.2", "TAG-COVER: the printer handles every value tag plus 'a' and '-', and every printed tag can be produced by the scanner")
    ctx.rule("R10.3", "KEYWORDS: words and prefixes emitted by the printer are recognised by scanner and checker under the same tag; true/false scan to the right truth value")
    ctx.rule("R10.5", "TIME-FORMAT: the strftime format the printer chooses for a time tag, evaluated over all zero/non-zero combinations of hour, minute, second and fraction, contains a conversion for every non-zero field (nothing is silently dropped) ")
    ctx.rule("R10.6", "BARE-SYMBOL: a symbol the printer writes without quotes is read back as one symbol: over probe texts the printer's `plain` decision implies that the readers' identifier recogniser consumes the whole text, and no reserved word is printed bare")
    ctx.rule("R10.7", "LOSSLESS-TYPE: the parenthesised exact form of a float/double is read back with the type of the decimal form (same type suffix in the printed text, or the scanner pins the type on the second pass)")
    ctx.rule("R10.8", "PREV-ORIGINAL: both list printers hand rtosc_print_arg_val, as the value preceding a range, an element of the caller's original argument list - never the range-conversion scratch buffer (the readers infer a range's step from the original left neighbour)")
    ctx.rule("R10.4", "TAG-FIELD: inside the case of tag X only the union member of X is accessed (printer, scanner's numeric switch, arg-val-math.c)")
    ctx.rule("R10.9", "DATE-EXTENT: over probe texts (a date with every optional part, the exact fraction in the printer's own spelling and in the 0x...p-32 spelling, alone or followed by another value) the scanner's time-tag branch consumes exactly what the checker's accepts and reads no local it has not assigned")
    from ..rules import datescan as DS
    n_date = DS.obligations(ctx, u, "R10.9")
    ctx.require(n_date >= 60, "R10.9: only %d date probes evaluated" % n_date)
    ctx.rule("R10.10", "PREV-SLOT: in both list printers the value handed to rtosc_print_arg_val as the one before a range is the slot directly in front of the current position of the original list (NULL for the first) - the loop's own bookkeeping is evaluated with arguments that span 1..4 slots and with printer-made ranges")
    from ..rules import prevslot as PSL
    sites_ = PSL.list_sites(u)
    ctx.require(len(sites_) >= 2, "R10.10: the two list printers were not found (%d)" % len(sites_))
    for q_, fn_, lp_, c_ in sites_:
        bad_ = PSL.run_site(u, fn_, lp_)
        ctx.ob("R10.10", "%s: value before a range" % q_, not bad_, site=A.where(c_), detail={"scenarios": len(PSL.SCENARIOS), "mismatches": bad_[:3]},
               what="%s hands rtosc_print_arg_val a value that is not the slot in front of the current argument: %s" % (q_, bad_[:2]))
    pr = u.function("as_escaped_char")
    sc = u.function("get_escaped_char")
    ev = FD.Eval()
    for chr_mode in (0, 1):
        fw, bw = {}, {}
        try:
            for c in range(1, 128):
                e = ev.call_function(u, pr, [c, chr_mode])
                if e != -1:
                    fw[c] = e
                g = ev.call_function(u, sc, [c, chr_mode])
                if g != 0:
                    bw[c] = g
        except FD.Unknown as ex:
            raise AnalysisBroken("R10.1: escape tables not evaluable: %s" % ex)
        bad = []
        for c, e in fw.items():
            if bw.get(e) != c:
                bad.append({"char": c, "printed_as": "\\" + chr(e), "scanned_back_as": bw.get(e)})
        for e, c in bw.items():
            if fw.get(c) != e:
                bad.append({"escape": "\\" + chr(e), "scans_to": c, "printer_prints_it_as": fw.get(c)})
        quote = ord("'") if chr_mode else ord('"')
        need = [quote, ord("\\"), 10, 9]
        miss = [c for c in need if c not in fw]
        ctx.ob("R10.1", "mode %s" % ("char" if chr_mode else "string"), not bad and not miss and len(fw) >= 9, site=A.where(pr),
               detail={"escapes": {repr(chr(c)): "\\" + chr(e) for c, e in sorted(fw.items())}, "mismatches": bad[:6], "unescaped_but_required": [repr(chr(c)) for c in miss]},
               what="escape tables (%s mode) are not inverse: %s %s" % ("char" if chr_mode else "string", bad[:3], [repr(chr(c)) for c in miss]))

    # ---- R10.2
    prn = u.function("rtosc_print_arg_val")
    sws = C.find_switches(u.body(prn))
    ctx.require(len(sws) >= 1, "rtosc_print_arg_val: switch not found")
    ptab = C.case_table(sws[0])
    plabels = {chr(l) for l in ptab if l != "default"}
    scn = u.function("rtosc_scan_arg_val")
    produced = set()
    for fn in (scn, u.function("parse_identifier")):
        for x in A.walk(u.body(fn)):
            if x.get("kind") == "BinaryOperator" and x.get("opcode") == "=":
                chain = [A.strip_casts(y) for y in [A.kids(x)[0]]]
                # a = b = 0 chains: take every assignment whose lhs is ->type
                l = A.strip_casts(A.kids(x)[0])
                if l.get("kind") == "MemberExpr" and l.get("name") == "type":
                    v = A.int_literal(A.kids(x)[1])
                    if v is not None and v > 0:
                        produced.add(chr(v))
                    elif any(A.callee_name(k) == "toupper" for k in A.calls_in(A.kids(x)[1])):
                        # toupper(*src_backup) inside the case group t/f/n/i
                        produced |= {"T", "F", "N", "I"}
    # numeric types: the tag scanf_fmtstr (evaluated, rules/numspell.py) chooses for one spelling of each numeric kind
    from ..rules import numspell as NS
    for tok in ("42", "42i", "42h", "1.5", "1.5f", "1.5d", "0x1f", "1e3"):
        try:
            fmt_, typ_ = NS.chosen_format(u, u.function("scanf_fmtstr"), tok + " ")
        except FD.Unknown as e:
            raise AnalysisBroken("R10.2: scanf_fmtstr not evaluable on %r: %s" % (tok, e))
        if fmt_ is not None and typ_:
            produced.add(chr(typ_))
    # helpers that set the type themselves
    ut = ctx.ast("rtosc-time.c")
    for q in ("rtosc_arg_val_immediatelly", "rtosc_arg_val_from_params"):
        if any(A.callee_name(k) == q for k in A.calls_in(u.body(scn))):
            for y in A.walk(ut.body(ut.function(q))):
                if y.get("kind") == "BinaryOperator" and y.get("opcode") == "=" and A.strip_casts(A.kids(y)[0]).get("kind") == "MemberExpr" and A.strip_casts(A.kids(y)[0]).get("name") == "type":
                    v = A.int_literal(A.kids(y)[1])
                    if v:
                        produced.add(chr(v))
    for tag in sorted(VALUE_TAGS | {"a", "-"}):
        ctx.ob("R10.2", "tag '%s'" % tag, tag in plabels and tag in produced, site=A.where(sws[0]), detail={"printer_has_case": tag in plabels, "scanner_can_produce": tag in produced},
               what="tag '%s': printer case %s, scanner can produce it %s" % (tag, tag in plabels, tag in produced))

    # ---- R10.3
    # literals the printer copies / formats per tag
    def lits(stmts, depth=0):
        out = []
        for s_ in stmts:
            for k in A.calls_in(s_):
                if A.callee_name(k) in ("fast_strcpy", "asnprintf", "strcpy"):
                    for a in A.kids(k)[1:]:
                        v = A.string_literal(a)
                        if v is not None:
                            out.append(v)
                elif depth < 2:
                    # a file-local helper the case hands its printing to
                    for g_ in u.functions.get(A.callee_name(k) or "", []):
                        if u.body(g_) is not None and g_.get("storageClass") == "static":
                            out += lits(A.kids(u.body(g_)), depth + 1)
        return out
    chk = u.function("rtosc_skip_next_printed_arg")
    kc = C11.keyword_table_checker(u, chk, R.top_switch(u, chk))
    ks = C11.keyword_table_scanner(ctx, u, scn, R.top_switch(u, scn))
    for tag, word in (("T", "true"), ("F", "false"), ("N", "nil"), ("I", "inf")):
        pl = lits(ptab.get(ord(tag), []))
        ok = pl[:1] == [word] and kc.get(word) == tag and ks.get(word) == tag
        ctx.ob("R10.3", "word for '%s'" % tag, ok, site=A.where(sws[0]), detail={"printer_emits": pl[:1], "checker_tag": kc.get(word), "scanner_tag": ks.get(word)},
               what="tag '%s': printer emits %s; checker reads \"%s\" as %s, scanner as %s" % (tag, pl[:1], word, kc.get(word), ks.get(word)))
    pl = lits(ptab.get(ord("t"), []))
    ctx.ob("R10.3", "word for immediately", "immediately" in pl and kc.get("immediately") == "t" and ks.get("immediately") == "t", site=A.where(sws[0]),
           detail={"printer_literals": pl[:3], "checker": kc.get("immediately"), "scanner": ks.get("immediately")},
           what="`immediately`: printer %s, checker %s, scanner %s" % ("immediately" in pl, kc.get("immediately"), ks.get("immediately")))
    # truth value of true/false in the scanner: arg->val.T = (src[-2] == 'u')
    tv = [x for x in A.walk(u.body(scn)) if x.get("kind") == "BinaryOperator" and x.get("opcode") == "=" and A.strip_casts(A.kids(x)[0]).get("kind") == "MemberExpr" and A.strip_casts(A.kids(x)[0]).get("name") == "T"]
    okT = False
    det = {}
    if len(tv) == 1:
        rhs = A.strip_casts(A.kids(tv[0])[1])
        if rhs.get("kind") == "BinaryOperator" and rhs.get("opcode") == "==":
            l, r = A.kids(rhs)
            ls = A.strip_casts(l)
            if ls.get("kind") == "ArraySubscriptExpr":
                off = A.int_literal(A.kids(ls)[1])
                chv = A.int_literal(r)
                if off is not None and chv is not None and off < 0:
                    det = {"offset_from_end": off, "char": chr(chv)}
                    okT = ("true"[off] == chr(chv)) and ("false"[off] != chr(chv))
    ctx.ob("R10.3", "truth value of true/false", okT, site=A.where(tv[0]) if tv else A.where(scn), detail=det,
           what="the scanner derives the truth value from %s, which does not separate `true` from `false`" % det)
    # prefixes
    for tag, prefix, first in (("m", "MIDI [", "M"), ("b", "BLOB [", "B"), ("r", "#", "#")):
        pl = lits(ptab.get(ord(tag), []))
        slabels = R.labels(R.top_switch(u, scn))
        clabels = R.labels(R.top_switch(u, chk))
        # formats used by scanner / checker under that first character
        def fmts(fn):
            tab = C.case_table(R.top_switch(u, fn))
            out = []
            for s_ in tab.get(ord(first), []):
                for k in A.calls_in(s_):
                    for a in A.kids(k)[1:]:
                        v = A.string_literal(a)
                        if v is not None:
                            out.append(v)
            return out
        fs, fc = fmts(scn), fmts(chk)
        norm = lambda t: re.sub(r'\s+', '', t)
        ok = bool(pl) and pl[0].startswith(prefix) and first in slabels and first in clabels
        if tag in ("m", "b"):
            ok = ok and any(norm(f).startswith(norm(prefix)) for f in fs) and any(norm(f).startswith(norm(prefix)) for f in fc)
        ctx.ob("R10.3", "prefix of '%s'" % tag, ok, site=A.where(sws[0]), detail={"printer": pl[:1], "scanner_formats": fs[:3], "checker_formats": fc[:3]},
               what="tag '%s': printer writes %s, scanner expects %s, checker %s" % (tag, pl[:1], fs[:2], fc[:2]))
    # symbol suffix: printer appends 'S' after the closing quote of a quoted symbol; readers test for 'S' after the string
    sS = ptab.get(ord("S"), [])
    wrS = any(x.get("kind") == "BinaryOperator" and x.get("opcode") == "=" and A.int_literal(A.kids(x)[1]) == ord("S") for s_ in sS for x in A.walk(s_))
    def tests_S(fn):
        tab = C.case_table(R.top_switch(u, fn))
        return any(x.get("kind") == "BinaryOperator" and x.get("opcode") == "==" and A.int_literal(A.kids(x)[1]) == ord("S") for s_ in tab.get(ord('"'), []) for x in A.walk(s_))
    ctx.ob("R10.3", "symbol suffix S", wrS and tests_S(scn) and tests_S(chk), site=A.where(sws[0]), detail={"printer_appends_S": wrS, "scanner_tests_S": tests_S(scn), "checker_tests_S": tests_S(chk)},
           what="quoted symbols: printer appends S=%s, scanner tests it=%s, checker tests it=%s" % (wrS, tests_S(scn), tests_S(chk)))

    # ---- R10.4
    def tag_field(unit, fn, sw, name):
        tab = C.case_table(sw)
        # group labels that share statements
        seen = {}
        for lab, stmts in tab.items():
            if lab == "default" or not (0 < lab < 128) or chr(lab) not in MEMBER:
                continue
            key = tuple(s_.get("id") for s_ in stmts)
            seen.setdefault(key, ([], stmts))[0].append(chr(lab))
        for key, (labs, stmts) in seen.items():
            allowed = set().union(*(MEMBER[l] for l in labs))
            used = members_in(stmts) - {"a", "r"}
            # refinement: `if(arg->type == 'X') A else B` inside a shared group
            extra = []
            for s_ in stmts:
                for x in A.walk(s_):
                    if x.get("kind") == "IfStmt":
                        c = A.strip_casts(A.kids(x)[0])
                        if c.get("kind") == "BinaryOperator" and c.get("opcode") == "==" and A.int_literal(A.kids(c)[1]) is not None and \
                           A.strip_casts(A.kids(c)[0]).get("kind") == "MemberExpr" and A.strip_casts(A.kids(c)[0]).get("name") == "type":
                            t = chr(A.int_literal(A.kids(c)[1]))
                            if t in labs:
                                ks_ = A.kids(x)
                                ut_ = members_in([ks_[1]]) - {"a", "r"}
                                if not ut_ <= MEMBER[t]:
                                    extra.append("under type=='%s' accesses %s" % (t, sorted(ut_)))
                                if len(ks_) > 2:
                                    rest = set().union(*(MEMBER[l] for l in labs if l != t)) if len(labs) > 1 else allowed
                                    ue = members_in([ks_[2]]) - {"a", "r"}
                                    if not ue <= rest:
                                        extra.append("in the else of type=='%s' accesses %s" % (t, sorted(ue)))
            ok = used <= allowed and not extra
            ctx.ob("R10.4", "%s case %s" % (name, "/".join(sorted(labs))), ok, site=A.where(stmts[0]) if stmts else A.where(sw),
                   detail={"members_used": sorted(used), "allowed": sorted(allowed), "refinement": extra},
                   what="%s, case %s: accesses union member(s) %s, allowed %s %s" % (name, "/".join(sorted(labs)), sorted(used), sorted(allowed), extra))
    tag_field(u, prn, sws[0], "rtosc_print_arg_val")
    # scanner: the numeric switch on `type`
    for sw in C.find_switches(u.body(scn)):
        c = A.strip_casts(A.kids(sw)[0])
        if c.get("kind") == "DeclRefExpr" and c["referencedDecl"]["name"] == "type":
            tag_field(u, scn, sw, "rtosc_scan_arg_val(numeric)")
    um = ctx.ast("arg-val-math.c")
    nsw = 0
    for q, fns in sorted(um.functions.items()):
        for fn in fns:
            if not (A.loc(fn)[0] or "").endswith("arg-val-math.c"):
                continue
            for k, sw in enumerate(C.find_switches(um.body(fn))):
                tab = C.case_table(sw)
                labs = [l for l in tab if l != "default" and 0 < l < 128 and chr(l) in MEMBER]
                if len(labs) >= 2:
                    nsw += 1
                    tag_field(um, fn, sw, "%s#%d" % (q, k))
    ctx.require(nsw >= 5, "R10.4: only %d tag switches found in arg-val-math.c" % nsw)

    # ---- R10.5
    import itertools
    tstm = ptab.get(ord("t"), [])
    # by role: the format handed to strftime in the time-tag case, however it is computed (ternary, helper function, ...)
    sft = [c for s_ in tstm for c in A.calls_in(s_) if A.callee_name(c) == "strftime"]
    ctx.require(len(sft) == 1, "R10.5: the strftime call of the printer's case 't' was not found (%d)" % len(sft))
    expr = A.kids(sft[0])[3]
    fdecl = [sft[0]]
    frac_ids = {d_["id"] for s_ in tstm for d_ in A.walk(s_) if d_.get("kind") == "VarDecl" and any(A.callee_name(k_) == "rtosc_secfracs_from_arg_val" for k_ in A.calls_in(d_))}
    ctx.require(len(frac_ids) == 1, "R10.5: the second-fraction variable of the time-tag case was not found")
    bad = []
    ncase = 0
    for hour, minute, sec, frac in itertools.product((0, 7), repeat=4):
        def hook(n, ev, hour=hour, minute=minute, sec=sec, frac=frac):
            k = n.get("kind")
            if k == "StringLiteral":
                return A.string_literal(n)
            if k == "MemberExpr" and n.get("name") in ("tm_hour", "tm_min", "tm_sec"):
                return {"tm_hour": hour, "tm_min": minute, "tm_sec": sec}[n.get("name")]
            if k == "DeclRefExpr" and (n.get("referencedDecl") or {}).get("id") in frac_ids:
                return frac
            if k == "DeclRefExpr" and (n.get("referencedDecl") or {}).get("kind") == "VarDecl" and n["referencedDecl"]["id"] not in ev.env:
                d_ = u.by_id.get(n["referencedDecl"]["id"])
                if d_ is not None and A.kids(d_):
                    if any(A.callee_name(k_) in ("rtosc_params_from_arg_val", "localtime", "gmtime") for k_ in A.calls_in(d_)):
                        return 4242                      # the broken-down time: only its members matter
                    return ev.ev(A.kids(d_)[-1])
            if k == "ImplicitCastExpr" and n.get("castKind") == "ArrayToPointerDecay":
                return ev.ev(A.kids(n)[0])
            return NotImplemented

        def call10(nm, vals, n):
            fns_ = [f_ for f_ in u.functions.get(nm, []) if u.body(f_) is not None]
            if len(fns_) == 1:
                return ev10.call_function(u, fns_[0], vals)
            raise FD.Unknown("call to %s" % nm, n)
        try:
            ev10 = FD.Eval(node_hook=hook, call=call10)
            f = ev10.ev(expr)
        except FD.Unknown as e:
            raise AnalysisBroken("R10.5: format selection not evaluable: %s" % e)
        ncase += 1
        need = []
        if hour or minute or sec or frac:
            need += ["%H", "%M"]
        if sec or frac:
            need += ["%S"]
        miss = [d for d in need if not isinstance(f, str) or d not in f]
        if miss:
            bad.append({"hour": hour, "min": minute, "sec": sec, "fraction": frac, "format": f, "missing": miss})
    ctx.ob("R10.5", "strftime format selection", not bad, site=A.where(fdecl[0]), detail={"cases": ncase, "dropped": bad[:6]},
           what="the printer drops non-zero time fields: %s" % bad[:2])

    # ---- R10.6
    sS_stmts = ptab.get(ord("S"), [])
    # the decision variable: the bool local of the 's'/'S' case; the statements that compute it: its declaration (with
    # initialiser) up to the last statement that assigns it - wherever the test itself lives (inline, or in a helper)
    flatS = []
    for s_ in sS_stmts:
        flatS += A.kids(s_) if s_.get("kind") == "CompoundStmt" else [s_]
    bools = [(i, d) for i, s_ in enumerate(flatS) if s_.get("kind") == "DeclStmt" for d in A.kids(s_)
             if d.get("kind") == "VarDecl" and FD.ctype(A.qtype(d)) == ("int", 1, False)]
    ctx.require(len(bools) == 1, "R10.6: the printer's bare-symbol decision was not found")
    di, pdecl = bools[0]
    plain_id = pdecl["id"]
    last = di
    for i in range(di + 1, len(flatS)):
        if any(y.get("kind") == "BinaryOperator" and y.get("opcode") == "=" and A.ref_id(A.kids(y)[0]) == plain_id for y in A.walk(flatS[i])):
            last = i
    decide = flatS[di:last + 1]
    pif = decide[0]
    skid = u.function("skip_identifier")
    words = ["a", "_", "_a", "a1", "A_9", "abc", "1", "1a", "2nd", "808", "1e5", "2xfoo", "a-b", "a b", "", "x.y", "a/b", "MIDI", "BLOB", "_1"]
    kws = sorted(set(kc) | set(ks))

    def printer_plain(text):
        hook, deref = R.string_hooks(text, {"type": ord("S"), "s": R.BASE})

        def call(name, vals, n):
            fns = [f for f in u.functions.get(name, []) if u.body(f) is not None]
            if len(fns) == 1:
                return ev2.call_function(u, fns[0], vals)
            raise FD.Unknown("call to %s in the bare-symbol decision" % name, n)
        ev2 = FD.Eval(env={plain_id: 0}, node_hook=hook, deref=deref, call=call)
        for st in decide:
            ev2.run(st)
        return bool(ev2.env[plain_id])

    def reader_identifier(text):
        hook, deref = R.string_hooks(text)
        r = FD.Eval(node_hook=hook, deref=deref).call_function(u, skid, [R.BASE])
        return r == R.BASE + len(text) and len(text) > 0
    try:
        not_ident = [w for w in words + kws if printer_plain(w) and not reader_identifier(w)]
        bare_kw = [w for w in kws if printer_plain(w)]
    except FD.Unknown as e:
        raise AnalysisBroken("R10.6: bare-symbol decision not evaluable: %s" % e)
    ctx.ob("R10.6", "bare symbols are identifiers", not not_ident, site=A.where(pif), detail={"probes": len(words) + len(kws), "printed_bare_but_not_an_identifier": not_ident},
           what="the printer writes the symbols %s without quotes, but the readers do not take them for one identifier" % not_ident)
    ctx.ob("R10.6", "reserved words are quoted", not bare_kw, site=A.where(pif), detail={"reserved_words": kws, "printed_bare": bare_kw},
           key="R10.6:reserved words printed bare:" + ",".join(bare_kw),
           what="symbols spelling the reserved words %s are printed without quotes and scan back as keywords" % bare_kw)

    # ---- R10.7
    def fmt_suffix(f):
        # type suffix letter that follows the last conversion of a printf format, e.g. "%%#.%dlfd" -> 'd', " (%la)" -> ''
        m = re.search(r'%[#0-9.l]*[aAfFeEgG]([a-zA-Z]?)', f.replace("%%", "%").replace("%d", "0"))
        return m.group(1) if m else None
    dstm = ptab.get(ord("d"), [])
    dl = lits(dstm)
    dec = [f for f in dl if "lf" in f and "(" not in f]
    los = [f for f in dl if "(" in f and "la" in f]
    ctx.require(dec and los, "R10.7: printer formats for doubles not found (%s)" % dl)
    same_suffix = fmt_suffix(dec[0]) == fmt_suffix(los[0])
    # or: the scanner pins the type of the second pass to the first one
    pins = False
    for x in A.walk(u.body(scn)):
        if x.get("kind") == "BinaryOperator" and x.get("opcode") == "=" and A.ref_name(A.kids(x)[0]) == "type":
            r_ = A.strip_casts(A.kids(x)[1])
            if r_.get("kind") == "MemberExpr" and r_.get("name") == "type":
                pins = True
    dfmt_ok = any(A.string_literal(A.kids(x)[1]) == "%lf%n" for x in A.walk(u.body(scn)) if x.get("kind") == "BinaryOperator" and x.get("opcode") == "=" and A.ref_name(A.kids(x)[0]) == "fmtstr")
    ctx.ob("R10.7", "double", same_suffix or (pins and dfmt_ok), site=A.where(sws[0]), detail={"decimal_format": dec[0], "lossless_format": los[0], "same_type_suffix": same_suffix, "scanner_pins_type": pins, "reads_with_%lf": dfmt_ok},
           what="a double prints as `%s` + `%s`: the exact form carries no `d` suffix and the scanner does not pin its type, so it is read as a float" % (dec[0], los[0]))

    # ---- R10.8
    n8 = 0
    for q in ("rtosc_print_arg_vals", "rtosc_print_arg_val"):
        fq = u.function(q)
        scratch = set()
        for c in A.calls_in(u.body(fq), "rtosc_convert_to_range"):
            sid = A.ref_id(A.kids(c)[3])
            if sid:
                scratch.add(sid)
        for c in A.calls_in(u.body(fq), "rtosc_print_arg_val"):
            if q == "rtosc_print_arg_val" and not scratch:
                continue
            args_ = A.kids(c)[1:]
            if len(args_) < 6:
                continue
            n8 += 1
            # transitive sources of the last argument through local pointer assignments
            seen, work = set(), [y["referencedDecl"]["id"] for y in A.walk(args_[5]) if y.get("kind") == "DeclRefExpr"]
            while work:
                v = work.pop()
                if v in seen:
                    continue
                seen.add(v)
                d = u.by_id.get(v)
                srcs = []
                if d is not None and d.get("kind") == "VarDecl" and A.kids(d) and "*" in A.stype(d):
                    srcs.append(A.kids(d)[-1])
                for y in A.walk(u.body(fq)):
                    if y.get("kind") == "BinaryOperator" and y.get("opcode") == "=" and A.ref_id(A.kids(y)[0]) == v and d is not None and d.get("kind") == "VarDecl":
                        srcs.append(A.kids(y)[1])
                for e in srcs:
                    work += [z["referencedDecl"]["id"] for z in A.walk(e) if z.get("kind") == "DeclRefExpr"]
            leak = sorted(u.by_id[v].get("name") for v in seen & scratch)
            ctx.ob("R10.8", "%s: preceding value" % q, not leak, site=A.where(c), detail={"argument": A.src(args_[5]), "can_point_into": leak},
                   what="%s passes `%s` as the value preceding a range; it can point into the conversion scratch buffer %s" % (q, A.src(args_[5]), leak))
    ctx.require(n8 >= 2, "R10.8: list-context calls of rtosc_print_arg_val not found")

    # ---- R10.11
    ctx.rule("R10.11", "SHIFT-SIGN: in the float -> second-fraction conversion a shift by a computed signed amount happens only on a branch where the sign of the amount has been tested (small exact fractions make the amount negative; assertions are compiled out)")
    ut = ctx.ast("rtosc-time.c")
    f2s = ut.function("rtosc_float2secfracs")
    n11 = 0
    for x in A.walk(ut.body(f2s)):
        if not (x.get("kind") in ("CompoundAssignOperator", "BinaryOperator") and x.get("opcode") in ("<<=", ">>=", "<<", ">>")):
            continue
        amt = A.strip_casts(A.kids(x)[1])
        neg = False
        if amt.get("kind") == "UnaryOperator" and amt.get("opcode") == "-":
            amt, neg = A.strip_casts(A.kids(amt)[0]), True
        vid = A.ref_id(amt)
        dv = ut.by_id.get(vid) if vid else None
        if dv is None or dv.get("kind") != "VarDecl" or FD.ctype(A.qtype(dv))[0] != "int" or not FD.ctype(A.qtype(dv))[2]:
            continue
        n11 += 1
        tested = None
        child = x
        for p_ in ut.ancestors(x):
            if p_.get("kind") in ("IfStmt", "ConditionalOperator"):
                c_ = A.strip_casts(A.kids(p_)[0])
                if c_.get("kind") == "BinaryOperator" and c_.get("opcode") in (">=", ">", "<", "<=") and vid in {A.ref_id(k_) for k_ in A.kids(c_)} and 0 in [A.int_literal(k_) for k_ in A.kids(c_)]:
                    # which side are we on, and does it make the effective amount non-negative?
                    on_true = _inside10(A.kids(p_)[1], child)
                    try:
                        ok_vals = [v_ for v_ in (-3, -1, 0, 1, 5) if bool(FD.Eval(env={vid: v_}).ev(c_)) == on_true]
                    except FD.Unknown:
                        ok_vals = None
                    if ok_vals is not None:
                        tested = all((-v_ if neg else v_) >= 0 for v_ in ok_vals)
                    break
            if p_.get("kind") == "FunctionDecl":
                break
            child = p_
        ctx.ob("R10.11", "rtosc_float2secfracs: shift by `%s`" % A.src(A.kids(x)[1]), bool(tested), site=A.where(x), detail={"amount": A.src(A.kids(x)[1]), "sign_tested": tested},
               key="R10.11:rtosc_float2secfracs:shift",
               what="rtosc_float2secfracs shifts by `%s` without having tested its sign: for an exact fraction such as 0x1.8p-31 the amount is negative (undefined shift, wrong fraction)" % A.src(A.kids(x)[1]))
    ctx.require(n11 >= 1, "R10.11: no shift by a computed amount found in rtosc_float2secfracs")

    # ---- R10.12
    ctx.rule("R10.12", "FRACTION-HAS-POINT: the printer cuts the second fraction of a time tag out of a formatted float at its '.'; the format it builds must therefore produce a '.' for every floating_point_precision 0..9 (a precision of at least 1, or the '#' flag)")
    tstm = ptab.get(ord("t"), [])
    dots = [c for s_ in tstm for c in A.calls_in(s_) if A.callee_name(c) in ("strchr", "strrchr", "memchr") and A.int_literal(A.kids(c)[2]) == ord(".")]
    fmtcalls = [c for s_ in tstm for c in A.calls_in(s_) if A.callee_name(c) in ("asnprintf", "snprintf", "sprintf") and
                any((A.string_literal(a) or "").count("%%") >= 1 and "%d" in (A.string_literal(a) or "") for a in A.kids(c)[1:])]
    ctx.require(len(dots) == 1 and len(fmtcalls) == 1, "R10.12: the '.' search (%d) / format construction (%d) of the time-tag printer was not found" % (len(dots), len(fmtcalls)))
    fc = fmtcalls[0]
    fa = A.kids(fc)[1:]
    li = [i_ for i_, a in enumerate(fa) if A.string_literal(a) and "%d" in A.string_literal(a)][0]
    meta_fmt = A.string_literal(fa[li])
    prec_arg = fa[li + 1]
    pvid = A.ref_id(prec_arg)
    pdecl = u.by_id.get(pvid) if pvid else None
    ctx.require(pdecl is not None and pdecl.get("kind") == "VarDecl", "R10.12: the precision handed to the format construction is not a local variable")
    # statements from the declaration of the precision variable up to the format construction
    comp = None
    for p_ in u.ancestors(pdecl):
        if p_.get("kind") == "CompoundStmt":
            comp = p_
            break
    ctx.require(comp is not None, "R10.12: enclosing block of the precision variable not found")
    seq = []
    started = False
    for st in A.kids(comp):
        if _inside10(st, pdecl):
            started = True
        if started:
            if _inside10(st, fc):
                break
            seq.append(st)
    bad12 = []
    for pv in range(0, 10):
        def hook12(n, ev, pv=pv):
            if n.get("kind") == "MemberExpr" and n.get("name") == "floating_point_precision":
                return pv
            if n.get("kind") == "CallExpr":
                return 0
            return NotImplemented
        ev12 = FD.Eval(node_hook=hook12)
        try:
            for st in seq:
                writes_ = any(y.get("kind") in ("BinaryOperator", "CompoundAssignOperator", "UnaryOperator") and A.kids(y) and A.ref_id(A.kids(y)[0]) == pvid and
                              (y.get("opcode", "").endswith("=") and y.get("opcode") not in ("==", "!=", "<=", ">=") or y.get("opcode") in ("++", "--")) for y in A.walk(st))
                if writes_ or _inside10(st, pdecl):        # (assertions on the precision are not part of its bookkeeping)
                    ev12.run(st)
            val = ev12.env[pvid]
        except (FD.Unknown, KeyError) as e:
            raise AnalysisBroken("R10.12: precision bookkeeping not evaluable: %s" % e)
        fmt12 = meta_fmt.replace("%%", "\0").replace("%d", str(val)).replace("\0", "%")
        mm12 = re.search(r'%([#0 +-]*)(\d*)\.(\d+)l?[fF]', fmt12)
        has_point = bool(mm12) and ("#" in mm12.group(1) or int(mm12.group(3)) > 0)
        if not has_point:
            bad12.append({"floating_point_precision": pv, "format": fmt12})
    ctx.ob("R10.12", "time tag fraction", not bad12, site=A.where(dots[0]), detail={"format_of_format": meta_fmt, "precisions": 10, "without_decimal_point": bad12},
           what="the time-tag printer searches the '.' in a fraction formatted with %s: there is none, the search result is null and is used (crash)" % [b_["format"] for b_ in bad12])


    # ---- R10.13
    # ---- R10.14: when the second value of a printed range may be left out
    ctx.rule("R10.14", "SECOND-VALUE: rtosc_print_range, evaluated up to its ` ... ` on symbolic runs of every numeric type, leaves the second value out exactly when the step is +1 or -1 in the run's own type (a 64-bit step of 2^32+1, a float step of 1.5 are not) and no differing value of that type stands in front of the run - the readers assume a unit step otherwise")
    from ..rules import rangeprint as RP
    by_type = {}
    for cs in RP.cases():
        try:
            got14 = RP.second_printed(u, *cs)
        except FD.Unknown as e:
            raise AnalysisBroken("R10.14: rtosc_print_range not evaluable on %r: %s" % (cs, e))
        want14 = RP.expected(*cs)
        by_type.setdefault(cs[0], []).append((cs, got14, want14))
    for typ14, rows in sorted(by_type.items()):
        bad14 = [{"step": c[2], "value_in_front": list(c[4]) if c[4] else None, "second_value_printed": g, "needed": w} for c, g, w in rows if g != w]
        ctx.ob("R10.14", "runs of type '%s'" % typ14, not bad14, site=A.where(u.function("rtosc_print_range")), detail={"cases": len(rows), "mismatches": bad14[:5]},
               key="R10.14:%s" % typ14,
               what="rtosc_print_range on runs of type '%s': %s" % (typ14, bad14[:3]))

    ctx.rule("R10.13", "RANGE-AS-READ: before the printer replaces a run by `a b ... c` it has the count confirmed by the function with which scanner and checker recover it from a, b and c (delta_from_arg_vals) - the emission of a range with a step is dominated by that comparison - since the stepwise test of the printer and the division of the readers differ for spans that overflow the value type")
    fconv = u.function("rtosc_convert_to_range")
    ins = [c for c in A.calls_in(u.body(fconv)) if A.callee_name(c) == "insert_arg_range"]
    ctx.require(len(ins) == 1, "R10.13: the range emission of rtosc_convert_to_range was not found (%d)" % len(ins))
    confirm = [c for c in A.calls_in(u.body(fconv)) if A.callee_name(c) == "delta_from_arg_vals"]
    ok13 = False
    det13 = {"calls_of_delta_from_arg_vals": len(confirm)}
    modes13 = set()
    for c in confirm:
        # the call sits in a condition whose failing side leaves the function, in a statement before the emission
        for p_ in u.ancestors(c):
            if p_.get("kind") == "IfStmt" and _inside10(A.kids(p_)[0], c):
                leaves = any(y.get("kind") == "ReturnStmt" for y in A.walk(A.kids(p_)[1]))
                cmp_ = any(y.get("kind") == "BinaryOperator" and y.get("opcode") in ("!=", "==", "<", ">") for y in A.walk(A.kids(p_)[0]))
                # it precedes the emission in the same function body
                before = A.loc(p_)[1] is not None and A.loc(ins[0])[1] is not None and A.loc(p_)[1] < A.loc(ins[0])[1]
                if leaves and cmp_ and before:
                    ok13 = True
                    mu = A.int_literal(A.kids(c)[-1])
                    modes13 |= {"with the second value", "second value left out (unit step)"} if mu is None else ({"second value left out (unit step)"} if mu else {"with the second value"})
                det13["guard"] = A.src(A.kids(p_)[0])[:160]
                break
    ctx.ob("R10.13", "rtosc_convert_to_range", ok13, site=A.where(ins[0]), detail=det13,
           key="R10.13:rtosc_convert_to_range",
           what="the printer compresses an arithmetic run without asking the readers' step computation: for a run whose span overflows the value type (int32: -2000000000 -1000000000 0 1000000000 2000000000) the printed range is rejected by the checker")

    ctx.ob("R10.13", "rtosc_convert_to_range: both spellings", len(modes13) == 2, site=A.where(ins[0]), detail={"confirmed_reading_modes": sorted(modes13)},
           key="R10.13:rtosc_convert_to_range:modes",
           what="the printer has the count of a run confirmed only for %s; a run with step +-1 is printed without its second value and read back by taking the direction from first and last - a run that wraps around the end of its type (2147483646 2147483647 -2147483648 ...) reads back as something else" % sorted(modes13))

    # ---- R10.15: the reader's side of a compressed run - what the scanner counts a range on from (shared with C11 R11.17)
    ctx.rule("R10.15", "LEFT-NEIGHBOUR (scanner): printed text `5x7 8 9 ... 12` puts a repetition two arguments in front of a range; the statements of rtosc_scan_arg_val that choose the value the range counts on from, "
                       "evaluated on 13 slot layouts, take the slot before lhs after a scalar or a repetition, the last element of a range with delta, nothing after an array")
    from ..rules import llhs as LL
    try:
        bad15, n15 = LL.check(u)
    except FD.Unknown as e:
        raise AnalysisBroken("R10.15: the scanner's choice of a range's left neighbour is not evaluable: %s" % e)
    ctx.ob("R10.15", "left neighbour of a range, evaluated", not bad15, site=A.where(u.function("rtosc_scan_arg_val")), detail={"layouts": n15, "mismatches": bad15[:4]},
           what="the scanner counts a printed range on from the wrong value: %s" % bad15[:3])

    # ---- R10.16: the checker on printed text in which a string stands in front of a range (shared with C11 R11.14)
    C11.left_neighbour_checker(ctx, u, "R10.16")

    # ---- R10.18: "immediately" is one time tag, not a class of them
    ctx.rule("R10.18", "IMMEDIATELY-IS-ONE: rtosc_arg_val_is_immediatelly, which the printer asks before it writes the word `immediately`, evaluated on time tags, says yes exactly for the 64-bit value 1 - "
                       "not for a date whose second fraction happens to be 1 (2^-32 s), which the scanner would read back as the value 1")
    ut18 = ctx.ast("rtosc-time.c")
    f18 = ut18.function("rtosc_arg_val_is_immediatelly")
    p18 = ut18.params(f18)[0]
    probes18 = [(ord("t"), 1, True), (ord("t"), 0, False), (ord("t"), 2, False), (ord("t"), (0x582cb706 << 32) | 1, False), (ord("t"), 1 << 32, False), (ord("t"), (1 << 32) | 1, False),
                (ord("t"), 0xffffffff00000001, False), (ord("i"), 1, False), (ord("h"), 1, False)]
    bad18 = []
    for ty18, val18, want18 in probes18:
        def hook18(n_, ev_, ty18=ty18, val18=val18):
            if n_.get("kind") == "MemberExpr":
                nm_ = n_.get("name")
                if nm_ == "type":
                    return ty18
                if nm_ in ("t", "h"):
                    return val18
                if nm_ == "i":
                    return FD.wrap(val18, ("int", 32, True))
                if nm_ == "val":
                    return NotImplemented
            return NotImplemented
        h18 = {}

        def call18(nm_, vals_, n_):
            fs_ = [f_ for f_ in ut18.functions.get(nm_, []) if ut18.body(f_) is not None]
            if len(fs_) == 1:
                return h18["ev"].call_function(ut18, fs_[0], vals_)
            raise FD.Unknown("call to %s" % nm_, n_)
        ev18 = FD.Eval(node_hook=hook18, call=call18, max_steps=500)
        h18["ev"] = ev18
        try:
            got18 = bool(ev18.call_function(ut18, f18, [4096]))
        except FD.Unknown as e:
            raise AnalysisBroken("R10.18: rtosc_arg_val_is_immediatelly is not evaluable: %s" % e)
        if got18 != want18:
            bad18.append({"type": chr(ty18), "value": "%#x" % val18, "answers": got18, "expected": want18})
    ctx.ob("R10.18", "rtosc_arg_val_is_immediatelly", not bad18, site=A.where(f18), detail={"probes": len(probes18), "mismatches": bad18[:4]},
           what="rtosc_arg_val_is_immediatelly takes other values than the time tag 1 for `immediately`: %s - the printer writes the word, the scanner reads the value 1" % bad18[:3])

    # ---- R10.17: the string buffer is advanced by what the last value consumed
    ctx.rule("R10.17", "STRING-BUFFER-ADVANCE: where a loop scans one value after the other into the shared string buffer and advances the buffer by `snapshot - remaining size`, the snapshot is taken from the remaining size "
                       "inside the loop, in front of the scanning call of the same iteration - a snapshot taken once in front of the loop advances the buffer by the cumulative consumption, and later strings overwrite earlier ones")
    n17 = 0

    def _mentions17(e, vid):
        return any(y.get("kind") == "DeclRefExpr" and (y.get("referencedDecl") or {}).get("id") == vid for y in A.walk(e))
    for q17, fl17 in sorted(u.functions.items()):
        for f17 in fl17:
            if u.body(f17) is None or not (A.loc(f17)[0] or "").endswith("pretty-format.c"):
                continue
            # every block that holds, as one of its own statements, a scanning call that is handed the remaining buffer size
            for blk in A.walk(u.body(f17)):
                if blk.get("kind") != "CompoundStmt":
                    continue
                top = A.kids(blk)
                for ci, st in enumerate(top):
                    own = [c_ for c_ in A.calls_in(st, "rtosc_scan_arg_val") if len(A.kids(c_)) > 5 and
                           not any(x_.get("kind") == "CompoundStmt" and any(y is c_ for y in A.walk(x_)) for x_ in A.walk(st) if x_ is not st)]
                    for call17 in own:
                        sz = A.strip_casts(A.kids(call17)[5])
                        szid = A.ref_id(A.kids(sz)[0]) if sz.get("kind") == "UnaryOperator" and sz.get("opcode") == "&" else A.ref_id(sz)
                        if szid is None:
                            continue
                        for ui, s_ in enumerate(top):
                            if ui < ci:
                                continue
                            for y in A.walk(s_):
                                if not (y.get("kind") == "BinaryOperator" and y.get("opcode") == "-" and _mentions17(A.kids(y)[1], szid) and A.ref_id(A.kids(y)[0]) is not None and A.ref_id(A.kids(y)[0]) != szid):
                                    continue
                                snap = A.ref_id(A.kids(y)[0])
                                n17 += 1
                                inside = [i_ for i_, t_ in enumerate(top) for z in A.walk(t_)
                                          if (z.get("kind") == "BinaryOperator" and z.get("opcode") == "=" and A.ref_id(A.kids(z)[0]) == snap and _mentions17(A.kids(z)[1], szid)) or
                                          (z.get("kind") == "VarDecl" and z.get("id") == snap and A.kids(z) and _mentions17(A.kids(z)[-1], szid))]
                                direct = [i_ for i_ in inside if top[i_].get("kind") in ("BinaryOperator", "DeclStmt") or A.strip_casts(top[i_]).get("kind") == "BinaryOperator"]
                                if inside and not direct:
                                    raise AnalysisBroken("R10.17: %s: the snapshot of the remaining buffer size is taken under a condition next to the scanning call" % q17)
                                ok17 = any(i_ <= ci for i_ in direct)
                                ctx.ob("R10.17", "%s: scan@%s" % (q17, A.loc(call17)[1]), ok17, site=A.where(y), detail={"snapshot_taken_next_to_the_call": ok17, "assignments_in_the_block": len(inside)},
                                       key="R10.17:%s" % q17,
                                       what="%s advances the string buffer by `%s`, but the snapshot is not taken from the remaining size in the block of the scanning call, in front of it: inside a loop the buffer then moves by the cumulative consumption and later strings overwrite earlier ones" % (q17, A.src(y)[:60]))
    ctx.require(n17 >= 1, "R10.17: no place that advances the string buffer by `snapshot - remaining size` behind a scanning call was found")


def _inside10(root, node):
    nid = node.get("id")
    for x_ in A.walk(root):
        if x_.get("id") == nid:
            return True
    return False
