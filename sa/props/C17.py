"""C17 - Port metadata is read back exactly as written (narrow: reader = writer on the blocks the macros produce)."""
from .. import astlib as A
from .. import fdeval as FD
from ..facts import AnalysisBroken
from ..rules import metaiter as MI
from ..rules import metakeys as MK

LEVEL = "other"
EXPLANATION = ("The clause decided is the agreement of the metadata reader with the metadata writers of the library: every "
               "metadata block that the port macros produce (each metadata macro expanded alone, and the complete blocks of the "
               "41 macro-generated ports of the witness unit - read off the AST as string literals with their embedded NULs, "
               "never run) is fed to the iterator - MetaContainer::begin, MetaIterator's constructor and operator++, "
               "metaiterator_advance, evaluated finite-domain on their AST - which must yield, in order, exactly the (key, value) "
               "pairs the block spells; a few hand-made blocks add the cases the statement names (values containing ':' and '=', "
               "repeated keys, entries without value, an empty value, a block without the leading ':'). (R17.2) find() and "
               "operator[] walk the same iterator and answer with the first entry whose key compares equal (strcmp == 0). "
               "(R17.3) MetaContainer::length, evaluated on the same blocks for a container built on the block as written and behind the "
               "stripped ':', reports the block's byte length including its terminator. Arbitrary byte strings as keys/values are not decided.")
TRUSTED = ["clang 14 AST", "sa/fdeval.py", "witness/meta_matrix.cpp, witness/sugar_matrix.cpp (macro expansions)"]
ASSUMPTIONS = ["the blocks applications hand to the iterator are produced by the macros of port-sugar.h (the property's anchors)"]

HANDMADE = [
    (":k\0=a:b=c\0:k2\0", [("k", "a:b=c"), ("k2", None)]),
    (":a\0=1\0:a\0=2\0", [("a", "1"), ("a", "2")]),
    (":a\0:b\0:c\0=3\0", [("a", None), ("b", None), ("c", "3")]),
    ("k\0=v\0:l\0", [("k", "v"), ("l", None)]),
    (":only\0", [("only", None)]),
    (":e\0=\0:f\0", [("e", ""), ("f", None)]),
    (":sep\0=:\0:d\0=7\0", [("sep", ":"), ("d", "7")]),
    (":u\0=\0:v\0=:x=y\0:w\0", [("u", ""), ("v", ":x=y"), ("w", None)]),
    (":default\0:default\0=2\0", [("default", None), ("default", "2")]),          # a repeated key, the first without value
    (":d\0=1\0:d\0:e\0", [("d", "1"), ("d", None), ("e", None)]),
]     # (the empty block is outside the property: "blocks of 1..8 entries"; the iterator yields one entry with an empty key there)


def run(ctx):
    u = ctx.ast("ports.cpp")
    ctx.rule("R17.1", "READER=WRITER: the metadata iterator, evaluated over every metadata block the port macros produce (and the hand-made blocks of the statement's corner cases), yields in order exactly the (key, value) pairs the block spells")
    ctx.rule("R17.3", "LENGTH: MetaContainer::length, evaluated on every such block for a container built on the block as written (path_search) and on the block after Port::meta() stripped the leading ':', reports the block's byte length including its terminator")
    ctx.rule("R17.2", "LOOKUP: MetaContainer::find and operator[], evaluated on the same blocks for every key of the block and an absent key (the container's iteration being the evaluated iterator), answer with the first entry whose key is equal - find with that entry, operator[] with its value - and with nothing for an absent key")
    blocks = {}
    mu = ctx.ast("meta_matrix.cpp")
    for d in mu.decls:
        for x in A.walk(d):
            if x.get("kind") == "VarDecl" and x.get("name", "").startswith("M_") and A.kids(x):
                lit = A.string_literal(A.kids(x)[-1])
                if lit is not None:
                    blocks["macro " + x["name"][2:]] = lit
    su = ctx.ast("sugar_matrix.cpp")
    for d in su.decls:
        for x in A.walk(d):
            if x.get("kind") == "InitListExpr" and A.stype(x).endswith("Port"):
                ks = A.kids(x)
                if len(ks) >= 2 and A.string_literal(ks[0]) is not None and A.string_literal(ks[1]) is not None:
                    blocks["port " + A.string_literal(ks[0])] = A.string_literal(ks[1])
    ctx.require(len(blocks) >= 55, "only %d metadata blocks found in the witness units" % len(blocks))
    # ---- R17.4: the writers spell the VALUE of a preprocessor constant handed to them
    ctx.rule("R17.4", "WRITER-EXPANDS: a metadata macro handed preprocessor constants (a port table written with named constants) produces the block it produces for the constants' values - the witness unit expands every macro both ways and the two string literals must be equal")
    consts4 = {}
    for d in mu.decls:
        for x in A.walk(d):
            if x.get("kind") == "VarDecl" and x.get("name", "").startswith("K_") and A.kids(x):
                lit = A.string_literal(A.kids(x)[-1])
                if lit is not None:
                    consts4[x["name"][2:]] = (lit, x)
    for nm4, (lit4, x4) in sorted(consts4.items()):
        ref4 = blocks.get("macro " + nm4)
        ctx.ob("R17.4", nm4, ref4 is not None and lit4 == ref4, site=A.where(x4),
               detail={"with_constants": lit4.replace("\0", "\\0"), "with_their_values": (ref4 or "").replace("\0", "\\0")},
               key="R17.4:%s" % nm4,
               what="%s handed preprocessor constants writes `%s`, handed their values `%s`: the metadata names the constant instead of its value" % (nm4, lit4.replace("\0", "\\0"), (ref4 or "").replace("\0", "\\0")))
    ctx.require_count("R17.4", 15)
    cases = [(n, b, MK.split_meta(b)) for n, b in sorted(blocks.items())] + [("hand-made #%d" % i, b, e) for i, (b, e) in enumerate(HANDMADE)]
    for name, block, expect in cases:
        try:
            got = MI.iterate(u, block)
        except FD.Unknown as e:
            # a read outside the block is a verdict (the reader ran off the block), anything else is a limit of the evaluator
            if "outside the metadata block" in str(e):
                got = "reads outside the block: %s" % e
            else:
                raise AnalysisBroken("R17.1: iterator not evaluable on %s: %s" % (name, e))
        ctx.ob("R17.1", name, got == expect, site=A.where(u.function("MetaIterator::operator++")),
               detail={"block": block.replace("\0", "\\0")[:120], "iterator_yields": got if isinstance(got, str) else [list(p) for p in got][:8], "block_spells": [list(p) for p in expect][:8]},
               key="R17.1:%s" % name,
               what="the metadata iterator reads %s as %s, the block spells %s" % (name, got if isinstance(got, str) else got[:4], expect[:4]))
    ctx.require_count("R17.1", 60)

    # ---- R17.3: the reported length, evaluated on the same blocks, for both ways the library builds a container
    fl = u.function("MetaContainer::length")
    nlen = 0
    for name, block, expect in cases:
        if not block.endswith("\0") or not block.startswith(":"):
            continue                     # no double NUL inside the literal / nothing to strip: not a block the macros write
        got = {}
        for how, skip in (("as written (path_search)", 0), ("after Port::meta() stripped the ':'", 1)):
            try:
                got[how] = MI.length(u, block, skip)
            except FD.Unknown as e:
                if "outside the metadata block" in str(e):
                    got[how] = "reads outside the block"
                else:
                    raise AnalysisBroken("R17.3: MetaContainer::length not evaluable on %s: %s" % (name, e))
        nlen += 1
        want = len(block) + 1            # the literal's bytes including the terminator the compiler appends
        ctx.ob("R17.3", name, all(v == want for v in got.values()), site=A.where(fl),
               detail={"block": block.replace("\0", "\\0")[:120], "reported": got, "byte_length_with_terminator": want},
               key="R17.3:%s" % name,
               what="MetaContainer::length reports %s for %s, the block has %d bytes including its terminator" % (got, name, want))
    ctx.require_count("R17.3", 55)

    # ---- R17.2: find / operator[] evaluated on the same blocks, for every key of the block and an absent one
    for q in ("MetaContainer::find", "MetaContainer::operator[]"):
        fn = u.function(q)
        bad2 = []
        n2 = 0
        for name, block, expect in cases:
            keys = []
            for kx, _ in expect:
                if kx not in keys:
                    keys.append(kx)
            for key in keys + ["zz absent"]:
                first = next((i for i, (kx, _) in enumerate(expect) if kx == key), None)
                try:
                    got = MI.lookup(u, block, q, key)
                except FD.Unknown as e:
                    if "outside the metadata block" in str(e):
                        got = "reads outside the block"
                    else:
                        raise AnalysisBroken("R17.2: %s not evaluable on %s with key %r: %s" % (q, name, key, e))
                n2 += 1
                if q.endswith("find"):
                    want = ("entry", first) if first is not None else ("none",)
                else:
                    want = expect[first][1] if first is not None else None
                if got != want:
                    bad2.append({"block": name, "key": key, "answer": list(got) if isinstance(got, tuple) else got, "expected": list(want) if isinstance(want, tuple) else want})
        ctx.ob("R17.2", q, not bad2, site=A.where(fn), detail={"lookups": n2, "mismatches": bad2[:5]},
               what="%s does not answer with the first entry whose key compares equal: %s" % (q, bad2[:2]))
        ctx.require(n2 >= 100, "R17.2: only %d lookups evaluated" % n2)
