"""C17 - Port metadata is read back exactly as written (narrow: reader = writer on the blocks the macros produce)."""
from .. import astlib as A
from .. import fdeval as FD
from ..facts import AnalysisBroken
from ..rules import metaiter as MI
from ..rules import metakeys as MK

LEVEL = "other"
EXPLANATION = ("The clause decided is the agreement of the metadata reader with the metadata writers of the library: every "
               "metadata block that the port macros produce (each metadata macro expanded alone, and the complete blocks of the "
               "41 macro-generated ports of the witness unit - read off the AST as string literals with their embedded NULs, "
               "never run) is fed to the iterator - MetaContainer::begin, MetaIterator's constructor and operator++, "
               "metaiterator_advance, evaluated finite-domain on their AST - which must yield, in order, exactly the (key, value) "
               "pairs the block spells; a few hand-made blocks add the cases the statement names (values containing ':' and '=', "
               "repeated keys, entries without value, an empty value, a block without the leading ':'). (R17.2) find() and "
               "operator[] walk the same iterator and answer with the first entry whose key compares equal (strcmp == 0). "
               "(R17.3) MetaContainer::length, evaluated on the same blocks for a container built on the block as written and behind the "
               "stripped ':', reports the block's byte length including its terminator. Arbitrary byte strings as keys/values are not decided.")
TRUSTED = ["clang 14 AST", "sa/fdeval.py", "witness/meta_matrix.cpp, witness/sugar_matrix.cpp (macro expansions)"]
ASSUMPTIONS = ["the blocks applications hand to the iterator are produced by the macros of port-sugar.h (the property's anchors)"]

HANDMADE = [
    (":k\0=a:b=c\0:k2\0", [("k", "a:b=c"), ("k2", None)]),
    (":a\0=1\0:a\0=2\0", [("a", "1"), ("a", "2")]),
    (":a\0:b\0:c\0=3\0", [("a", None), ("b", None), ("c", "3")]),
    ("k\0=v\0:l\0", [("k", "v"), ("l", None)]),
    (":only\0", [("only", None)]),
    (":e\0=\0:f\0", [("e", ""), ("f", None)]),
    (":sep\0=:\0:d\0=7\0", [("sep", ":"), ("d", "7")]),
    (":u\0=\0:v\0=:x=y\0:w\0", [("u", ""), ("v", ":x=y"), ("w", None)]),
]     # (the empty block is outside the property: "blocks of 1..8 entries"; the iterator yields one entry with an empty key there)


def run(ctx):
    u = ctx.ast("ports.cpp")
    ctx.rule("R17.1", "READER=WRITER: the metadata iterator, evaluated over every metadata block the port macros produce (and the hand-made blocks of the statement's corner cases), yields in order exactly the (key, value) pairs the block spells")
    ctx.rule("R17.3", "LENGTH: MetaContainer::length, evaluated on every such block for a container built on the block as written (path_search) and on the block after Port::meta() stripped the leading ':', reports the block's byte length including its terminator")
    ctx.rule("R17.2", "LOOKUP: MetaContainer::find and operator[] range over the container itself and answer with the first entry whose title compares equal (strcmp == 0), NULL after the loop")
    blocks = {}
    mu = ctx.ast("meta_matrix.cpp")
    for d in mu.decls:
        for x in A.walk(d):
            if x.get("kind") == "VarDecl" and x.get("name", "").startswith("M_") and A.kids(x):
                lit = A.string_literal(A.kids(x)[-1])
                if lit is not None:
                    blocks["macro " + x["name"][2:]] = lit
    su = ctx.ast("sugar_matrix.cpp")
    for d in su.decls:
        for x in A.walk(d):
            if x.get("kind") == "InitListExpr" and A.stype(x).endswith("Port"):
                ks = A.kids(x)
                if len(ks) >= 2 and A.string_literal(ks[0]) is not None and A.string_literal(ks[1]) is not None:
                    blocks["port " + A.string_literal(ks[0])] = A.string_literal(ks[1])
    ctx.require(len(blocks) >= 55, "only %d metadata blocks found in the witness units" % len(blocks))
    cases = [(n, b, MK.split_meta(b)) for n, b in sorted(blocks.items())] + [("hand-made #%d" % i, b, e) for i, (b, e) in enumerate(HANDMADE)]
    for name, block, expect in cases:
        try:
            got = MI.iterate(u, block)
        except FD.Unknown as e:
            # a read outside the block is a verdict (the reader ran off the block), anything else is a limit of the evaluator
            if "outside the metadata block" in str(e):
                got = "reads outside the block: %s" % e
            else:
                raise AnalysisBroken("R17.1: iterator not evaluable on %s: %s" % (name, e))
        ctx.ob("R17.1", name, got == expect, site=A.where(u.function("MetaIterator::operator++")),
               detail={"block": block.replace("\0", "\\0")[:120], "iterator_yields": got if isinstance(got, str) else [list(p) for p in got][:8], "block_spells": [list(p) for p in expect][:8]},
               key="R17.1:%s" % name,
               what="the metadata iterator reads %s as %s, the block spells %s" % (name, got if isinstance(got, str) else got[:4], expect[:4]))
    ctx.require_count("R17.1", 60)

    # ---- R17.3: the reported length, evaluated on the same blocks, for both ways the library builds a container
    fl = u.function("MetaContainer::length")
    nlen = 0
    for name, block, expect in cases:
        if not block.endswith("\0") or not block.startswith(":"):
            continue                     # no double NUL inside the literal / nothing to strip: not a block the macros write
        got = {}
        for how, skip in (("as written (path_search)", 0), ("after Port::meta() stripped the ':'", 1)):
            try:
                got[how] = MI.length(u, block, skip)
            except FD.Unknown as e:
                if "outside the metadata block" in str(e):
                    got[how] = "reads outside the block"
                else:
                    raise AnalysisBroken("R17.3: MetaContainer::length not evaluable on %s: %s" % (name, e))
        nlen += 1
        want = len(block) + 1            # the literal's bytes including the terminator the compiler appends
        ctx.ob("R17.3", name, all(v == want for v in got.values()), site=A.where(fl),
               detail={"block": block.replace("\0", "\\0")[:120], "reported": got, "byte_length_with_terminator": want},
               key="R17.3:%s" % name,
               what="MetaContainer::length reports %s for %s, the block has %d bytes including its terminator" % (got, name, want))
    ctx.require_count("R17.3", 55)

    for q, field in (("MetaContainer::find", None), ("MetaContainer::operator[]", "value")):
        fn = u.function(q)
        loops = [x for x in A.walk(u.body(fn)) if x.get("kind") == "CXXForRangeStmt"]
        ok = False
        det = {"range_for_loops": len(loops)}
        if len(loops) == 1:
            lp = loops[0]
            over_this = any(y.get("kind") == "CXXThisExpr" for y in A.walk(A.kids(lp)[0])) or any(y.get("kind") == "CXXThisExpr" for k_ in A.kids(lp)[:3] for y in A.walk(k_))
            ifs = [x for x in A.walk(lp) if x.get("kind") == "IfStmt"]
            eq = False
            ret_ok = False
            for i_ in ifs:
                c = A.strip_casts(A.kids(i_)[0])
                calls = [k_ for k_ in A.calls_in(c) if A.callee_name(k_) == "strcmp"]
                if len(calls) == 1 and any(y.get("kind") == "MemberExpr" and y.get("name") == "title" for y in A.walk(calls[0])):
                    neg = c.get("kind") == "UnaryOperator" and c.get("opcode") == "!"
                    eq0 = c.get("kind") == "BinaryOperator" and c.get("opcode") == "==" and 0 in (A.int_literal(A.kids(c)[0]), A.int_literal(A.kids(c)[1]))
                    eq = neg or eq0
                    rets = [r_ for r_ in A.walk(A.kids(i_)[1]) if r_.get("kind") == "ReturnStmt"]
                    ret_ok = len(rets) == 1 and (field is None or any(y.get("kind") == "MemberExpr" and y.get("name") == field for y in A.walk(rets[0])))
            # after the loop: return NULL
            tail = [s_ for s_ in A.kids(u.body(fn)) if s_.get("kind") == "ReturnStmt"]
            null_after = len(tail) == 1 and (A.int_literal(A.kids(tail[0])[0]) == 0 or any(y.get("kind") in ("GNUNullExpr", "CXXNullPtrLiteralExpr") for y in A.walk(tail[0])))
            det.update({"ranges_over_this": over_this, "exact_key_comparison": eq, "returns_the_entry": ret_ok, "null_when_absent": null_after})
            ok = over_this and eq and ret_ok and null_after
        if not loops and field is not None:
            # forwarding form: `return find(key).<field>` (directly or through a local holding find's result); find's own
            # loop is obliged above, and an absent key must still read as NULL: MetaIterator(NULL).<field> evaluated
            fcalls = [c for c in A.calls_in(u.body(fn)) if A.callee_name(c) == "find" and "MetaIterator" in (A.qtype(c) or "")]
            ps = u.params(fn)
            rets = [r_ for r_ in A.walk(u.body(fn)) if r_.get("kind") == "ReturnStmt"]
            holders = set()
            for v in A.walk(u.body(fn)):
                if v.get("kind") == "VarDecl" and A.kids(v) and any(c in list(A.walk(v)) for c in fcalls):
                    holders.add(v.get("id"))
            fwd_key = len(fcalls) == 1 and len(A.call_args(fcalls[0])) >= 1 and A.ref_id(A.call_args(fcalls[0])[-1]) == ps[0]["id"]

            def _from_find(r_):
                e = A.strip_casts(A.kids(r_)[0]) if A.kids(r_) else None
                if e is None or e.get("kind") != "MemberExpr" or e.get("name") != field:
                    return False
                b = A.strip_casts(A.kids(e)[0])
                while b.get("kind") in ("MaterializeTemporaryExpr", "CXXBindTemporaryExpr", "ExprWithCleanups", "ParenExpr", "ImplicitCastExpr"):
                    b = A.strip_casts(A.kids(b)[0])
                return (b in fcalls) or (A.ref_id(b) in holders)
            ret_ok = len(rets) == 1 and _from_find(rets[0])
            branches = [x for x in A.walk(u.body(fn)) if x.get("kind") in ("IfStmt", "ConditionalOperator", "SwitchStmt", "WhileStmt", "ForStmt", "DoStmt")]
            absent = None
            try:
                absent = MI._run_advance(u, u.function("metaiterator_advance"), MI._Mem(""), 0, 0)
            except FD.Unknown as e:
                absent = str(e)
            det.update({"forwards_to_find_with_the_key": fwd_key, "returns_the_entry": ret_ok, "unconditional": not branches,
                        "iterator_built_on_NULL": list(absent) if isinstance(absent, tuple) else absent})
            ok = fwd_key and ret_ok and not branches and absent == (0, 0)
        ctx.ob("R17.2", q, ok, site=A.where(fn), detail=det,
               what="%s does not answer with the first entry whose key compares equal: %s" % (q, det))
