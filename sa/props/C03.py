"""C03 - Realtime safety: the message path never allocates and never locks.

Interprocedural effect analysis (rules/effects.py) on the joined -O0 IR of all
22 library units plus the witness unit that instantiates every port macro.
One obligation per realtime root; it is discharged when no forbidden primitive,
no unlisted external and no unexplained indirect call is reachable from it.
"""
import re

from ..facts import AnalysisBroken
from ..rules import effects

LEVEL = "proof"
EXPLANATION = ("Effect analysis over the whole-program call graph (clang -O0 IR of every library unit and of the "
               "macro witness unit, joined by symbol): from each realtime entry point all transitively called "
               "function bodies are visited; a reachable allocator/lock/throw/static-guard/stdio primitive, a "
               "std::function/std::string/std::vector copy, an external that is not allow-listed, or an indirect "
               "call not covered by the stated policy fails the root and prints the call path. Holds for every "
               "input because it quantifies over code paths, not executions.")
TRUSTED = ["clang 14 parser/type checker and -O0 code generation (one IR call per source call)",
           "sa/irlib.py IR parser and call-graph join by symbol name",
           "allow-list of externals and indirect-call policy in sa/props/C03.py (each entry with a reason)",
           "user-supplied port callbacks are realtime safe (ports.h:157 'assuming callbacks are RT safe')",
           "virtual calls on RtData resolve to the RtData:: default bodies (which are roots themselves)"]
ASSUMPTIONS = ["libc string/ctype/atoi/atof functions neither allocate nor lock",
               "page faults, non-locking system calls and unbounded loops are outside the statement",
               "user callbacks and user methods invoked by rAction* are realtime safe"]

C_UNITS_ALL_EXTERNALS = ["rtosc.c", "dispatch.c"]

CPP_ROOTS = [
    (r'^rtosc::Ports::dispatch\(', 1),
    (r'^rtosc::RtData::(reply|broadcast|chain|replyArray|broadcastArray|chainArray|forward|push_index|pop_index)\(', 11),
    (r'^rtosc::ThreadLink::(write|writeArray|raw_write|read|read_lookahead|hasNext|hasNextLookahead|peak|buffer|buffer_size)\(', 11),
    (r'^rtosc::Port::meta\(', 0),   # inline; present only where instantiated
    (r'^rtosc::Port::Meta(Container|Iterator)::', 8),
    (r'^metaiterator_advance\(', 1),
    (r'^rtosc::enum_key\(', 1),
    (r'^rtosc::enum_key_from_msg\(', 1),
]
WITNESS_LAMBDA = r'^witness::(?:\w+::)*\$_\d+::operator\(\)\(char const\*, rtosc::RtData&\) const$'

ALLOW_RAW = {
    "strlen": "libc string scan", "strcmp": "libc string compare", "strncmp": "libc string compare",
    "strchr": "libc string scan", "strrchr": "libc string scan", "strstr": "libc string scan",
    "strcspn": "libc string scan", "strspn": "libc string scan", "strpbrk": "libc string scan", "strnlen": "libc string scan",
    "memchr": "libc scan", "rawmemchr": "libc scan", "strchrnul": "libc string scan",
    "memcpy": "libc copy", "memmove": "libc copy", "memset": "libc fill", "memcmp": "libc compare",
    "strcpy": "libc copy", "strncpy": "libc copy",
    "atoi": "libc numeric parse (strtol; no heap, no lock)", "atof": "libc numeric parse (strtod; no heap, no lock)",
    "__ctype_b_loc": "isdigit/isprint table lookup", "isdigit": "ctype", "isprint": "ctype",
    "tolower": "ctype", "toupper": "ctype",
    "__cxa_pure_virtual": "noreturn abort",
}
ALLOW_DM = [
    (r'^std::__cxx11::basic_string<char, std::char_traits<char>, std::allocator<char> ?>::(c_str|length|size|data|empty|operator\[\]|begin|end|back|front|compare|find|rfind|find_first_of|find_last_of)\(.*\) const$',
     "const accessor of an already constructed std::string"),
    (r'^witness::', "user code of the witness application (methods called by rAction*), assumed realtime safe"),
]
EXEMPT_RAW = {
    "__assert_fail": "noreturn abort path",
    "__clang_call_terminate": "exception-cleanup abort path (reachable only after a throw, which is itself forbidden)",
    "__cxa_begin_catch": "exception path", "__cxa_end_catch": "exception path",
    "_ZSt9terminatev": "std::terminate abort path",
    "_ZSt25__throw_bad_function_callv": "noreturn abort path (empty std::function)",
    "_ZSt20__throw_length_errorPKc": "noreturn abort path",
    "_ZSt24__throw_out_of_range_fmtPKcz": "noreturn abort path",
}

_RE_RTDATA_VCALL = re.compile(r'^(?:call|invoke)\b[^(]*?%[-\w.]+\(%"struct\.rtosc::RtData"\*')


def indirect_ok(P, fn, inst):
    dm = P.dm(fn.name)
    if re.match(r'^std::function<void \(char const\*, rtosc::RtData&\)>::operator\(\)\(', dm):
        return ("port callback invoked through std::function: user callbacks are assumed realtime safe; "
                "library-generated callbacks are analysed as roots")
    if inst.callee and re.search(re.escape(inst.callee) + r'\(%"struct\.rtosc::RtData"\*', inst.text):
        return "virtual call on RtData: resolves to the RtData:: default bodies, which are roots"
    # a call through a function-pointer PARAMETER (a converter handed to an inline helper): resolved over every call site of
    # the enclosing function in the program; accepted when each site passes the address of an allow-listed function
    tg = _param_call_targets(P, fn, inst)
    if tg and all(t in ALLOW_RAW for t in tg):
        return "call through parameter: every call site of %s passes %s" % (P.dm(fn.name).split("(")[0], ", ".join(sorted(tg)))
    return None


def _param_call_targets(P, fn, inst):
    from ..rules import guard as _G
    d = fn.defs().get(inst.callee) if inst.callee else None
    if d is None or d.op != "load":
        return None
    slot = _G.parse_load(d)
    k = None
    for i in range(len(fn.params)):
        try:
            if _G.param_slot(fn, i) == slot:
                k = i
        except Exception:
            continue
    if k is None:
        return None
    # the slot is written only by the parameter spill
    if sum(1 for s_ in fn.insts() if s_.op == "store" and _G.parse_store(s_)[1] == slot) != 1:
        return None
    targets = set()
    sites = 0
    for m in P.modules:
        for g in m.functions.values():
            for c in g.calls():
                if not c.indirect and c.callee == fn.name:
                    sites += 1
                    if k >= len(c.args) or not c.args[k].startswith("@"):
                        return None
                    targets.add(c.args[k].lstrip("@"))
    return targets if sites else None


def make_analysis(P):
    return effects.EffectAnalysis(P, effects.Policy(ALLOW_RAW, ALLOW_DM, EXEMPT_RAW, indirect_ok))


def collect_roots(ctx, P):
    roots = []
    for u in C_UNITS_ALL_EXTERNALS:
        m = ctx.ir(u)
        fs = [f for f in m.functions.values() if not f.internal]
        ctx.require(len(fs) >= 8, "unit %s exports only %d functions" % (u, len(fs)))
        roots += [("C API %s" % u, f) for f in fs]
    for pat, nmin in CPP_ROOTS:
        fs = [f for f in P.find(pat) if not f.module.name.startswith("sugar_")]
        # linkonce copies in several units: keep one per symbol
        uniq = {}
        for f in fs:
            uniq.setdefault(f.name, f)
        fs = list(uniq.values())
        if len(fs) < max(nmin, 1) and nmin:
            raise AnalysisBroken("root pattern %s matched %d functions, expected >= %d" % (pat, len(fs), nmin))
        roots += [("C++ API", f) for f in fs]
    wl = []
    for name in ctx.facts.unit_names(witness=True):
        m = ctx.ir(name)
        dms = P.demangle([f.name for f in m.functions.values()])
        for f, d in zip(list(m.functions.values()), dms):
            if re.match(WITNESS_LAMBDA, d):
                wl.append(f)
    ctx.require(len(wl) >= 40, "only %d macro-generated callbacks found in the witness unit (expected >= 40)" % len(wl))
    roots += [("port-macro callback", f) for f in wl]
    return roots


def witness_label(ctx, f):
    """Port name literal of the witness line the lambda was generated on."""
    try:
        src = open(f.file).read().split("\n")
        return src[f.line - 1].strip().rstrip(",")
    except Exception:
        return "?"


def run(ctx):
    ctx.rule("R03.EFFECT", "from a realtime root no allocator, lock, throw, static-init guard, stdio call, "
                           "std::function/std::string/std::vector copy, unlisted external or unexplained indirect "
                           "call is reachable in the call graph")
    ctx.rule("R03.CONTROL", "positive control: the same analysis must report the allocation in functions known "
                            "to allocate (constructors, savefile path)")
    P = ctx.program()
    an = make_analysis(P)
    roots = collect_roots(ctx, P)
    nvisited = set()
    for kind, f in roots:
        findings, visited = an.analyse_root(f)
        nvisited.update(v.key for v in visited)
        dm = P.dm(f.name)
        inst = dm
        if kind == "port-macro callback":
            inst = "callback %s of `%s`" % (re.sub(r'^.*(\$_\d+).*$', r'\1', dm), witness_label(ctx, f))
        site = "%s:%s" % (f.file, f.line)
        if findings:
            fd = findings[0]
            ctx.ob("R03.EFFECT", inst, False, site=site,
                   detail={"root": dm, "kind": kind, "findings": findings[:5], "functions_visited": len(visited)},
                   key="R03.EFFECT:%s:%s" % (re.sub(r'\$_\d+', '$_N', inst), fd["reason"]),
                   what="%s reaches %s via %s" % (inst, fd["reason"], " => ".join(fd["path"])))
        else:
            ctx.ob("R03.EFFECT", inst, True, site=site, detail={"kind": kind, "functions_visited": len(visited)})
    # positive controls
    controls = [r'^rtosc::ThreadLink::ThreadLink\(', r'^rtosc::Ports::Ports\(std::initializer_list', r'^rtosc::save_to_file\(',
                r'^rtosc::UndoHistory::recordEvent\(']
    for pat in controls:
        fs = P.find(pat)
        if not fs:
            raise AnalysisBroken("positive control %s not found" % pat)
        findings, _ = an.analyse_root(fs[0])
        forb = [x for x in findings if x["kind"] == "forbidden"]
        if not forb:
            raise AnalysisBroken("positive control failed: analysis finds no allocation in " + P.dm(fs[0].name))
        ctx.ob("R03.CONTROL", P.dm(fs[0].name), True, site="%s:%s" % (fs[0].file, fs[0].line),
               detail={"first_finding": forb[0]["reason"]})
    ctx.extra["roots"] = len(roots)
    ctx.extra["functions_visited"] = len(nvisited)
    ctx.extra["program_functions"] = len(P.fn)
    ctx.extra["externals_allowed_and_reached"] = an.externals_seen
