"""C05 - Path-pattern matching (narrow claim: the enumeration bound, DESIGN.md section 2, C05)."""
from .. import astlib as A
from .. import fdeval as FD
from ..facts import AnalysisBroken

LEVEL = "other"
EXPLANATION = ("Only the safety clause of the pattern language is decided - `#N` admits exactly the decimal indices strictly smaller "
               "than N - because it is the clause that keeps array-port callbacks inside their arrays and its truth is a code shape: "
               "(R05.1) the predicate rtosc_match_number returns, evaluated over 0..5 x 0..5, is exactly val < max; val is atoi of the "
               "message cursor and max atoi of the pattern cursor; both digit runs are required and consumed; (R05.2) every caller "
               "of rtosc_match_number rejects the match when it returns false, and `#` in a pattern reaches no other comparison; "
               "(R05.3) the other index consumer (rtosc_match_partial) uses the same strict bound. Literal text, alternatives, "
               "trailing '/' and type alternatives quantify over all (pattern,address) pairs and are not decided by this family.")
TRUSTED = ["clang 14 AST", "sa/fdeval.py"]
ASSUMPTIONS = ["atoi/isdigit behave as documented"]


def run(ctx):
    u = ctx.ast("dispatch.c")
    ctx.rule("R05.1", "ENUM-BOUND: rtosc_match_number returns exactly `val < max` (table over 0..5 x 0..5) with val = atoi(message digits), max = atoi(pattern digits); both cursors must point at a digit and both digit runs are skipped")
    ctx.rule("R05.2", "ENUM-HONOURED: each call of rtosc_match_number is the (negated) condition of a branch that fails the whole match")
    ctx.rule("R05.4", "RETRY-RESTORES: in rtosc_match_options every jump back to try the next alternative is preceded, since the nearest label, by the restore of the message cursor to its value at entry, with no later change of the cursor")
    ctx.rule("R05.5", "TYPE-MATCHER-CLONES: the three hand-written copies of the type-alternative matcher (dispatch.c, two in ports.cpp) are the same function up to renaming - a change to one copy only makes the accepted type strings depend on the lookup strategy")
    ctx.rule("R05.3", "ENUM-SIBLING: rtosc_match_partial's enumerated case compares atoi(address) < atoi(pattern) strictly")
    fn = u.function("rtosc_match_number")
    ps = u.params(fn)
    ctx.require(len(ps) == 2, "rtosc_match_number: expected (pattern, msg)")
    pat_id, msg_id = ps[0]["id"], ps[1]["id"]
    rets = [x for x in A.walk(u.body(fn)) if x.get("kind") == "ReturnStmt"]
    final = rets[-1]
    e = A.kids(final)[0]
    vars_ = sorted({x["referencedDecl"]["id"] for x in A.walk(e) if x.get("kind") == "DeclRefExpr"})
    ctx.require(len(vars_) == 2, "rtosc_match_number: final return does not compare two variables")

    def origin(vid):
        d = u.by_id.get(vid)
        if d is None or not A.kids(d):
            return None
        init = A.strip_casts(A.kids(d)[-1])
        if init.get("kind") == "CallExpr" and A.callee_name(init) == "atoi":
            refs = {x["referencedDecl"]["id"] for x in A.walk(init) if x.get("kind") == "DeclRefExpr"}
            if pat_id in refs and msg_id not in refs:
                return "pattern"
            if msg_id in refs and pat_id not in refs:
                return "message"
        return None
    org = {v: origin(v) for v in vars_}
    ctx.ob("R05.1", "operands", sorted(org.values(), key=str) == ["message", "pattern"], site=A.where(final),
           detail={u.by_id[v].get("name"): org[v] for v in vars_},
           what="rtosc_match_number compares %s" % {u.by_id[v].get("name"): org[v] for v in vars_})
    inv = {o: v for v, o in org.items()}
    bad = []
    if set(inv) == {"message", "pattern"}:
        for val in range(6):
            for mx in range(6):
                try:
                    r = FD.Eval(env={inv["message"]: val, inv["pattern"]: mx}).ev(e)
                except FD.Unknown as ex:
                    raise AnalysisBroken("R05.1: return expression not evaluable: %s" % ex)
                if bool(r) != (val < mx):
                    bad.append({"index": val, "N": mx, "returns": int(bool(r))})
    ctx.ob("R05.1", "predicate table", not bad and set(inv) == {"message", "pattern"}, site=A.where(final), detail={"cases": 36, "mismatches": bad[:6], "expression": A.src(e)},
           what="rtosc_match_number returns `%s`: %s" % (A.src(e), bad[:3]))
    # digit precondition and consumption
    def derefs_param(x, pid):
        return pid in {y["referencedDecl"]["id"] for y in A.walk(x) if y.get("kind") == "DeclRefExpr"}
    pre = [x for x in A.walk(u.body(fn)) if x.get("kind") == "IfStmt"]
    pre_ok = False
    for i in pre:
        c = A.kids(i)[0]
        calls = [k for k in A.calls_in(c) if A.callee_name(k) == "isdigit"] or [k for k in A.walk(c) if k.get("kind") == "ArraySubscriptExpr"]
        txt = A.src(c)
        if txt.count("pattern") >= 1 and txt.count("msg") >= 1 and any(A.int_literal(A.kids(r)[0]) == 0 for r in A.walk(A.kids(i)[1]) if r.get("kind") == "ReturnStmt" and A.kids(r)):
            pre_ok = derefs_param(c, pat_id) and derefs_param(c, msg_id)
    ctx.ob("R05.1", "digits required on both sides", pre_ok, site=A.where(fn), what="rtosc_match_number does not reject when pattern or message cursor is not at a digit")
    # a digit-skipping loop in any spelling: its condition is isdigit of the cursor's character, and the cursor is stepped
    # somewhere in the loop (body of a while, increment clause of a for)
    loops = [x for x in A.walk(u.body(fn)) if x.get("kind") in ("WhileStmt", "ForStmt", "DoStmt")]
    adv = {"pattern": False, "message": False}
    for lp in loops:
        if lp.get("kind") == "ForStmt":
            raw = lp.get("inner", [])
            c, rest = raw[2], [raw[3], raw[4]]
        elif lp.get("kind") == "DoStmt":
            c, rest = A.kids(lp)[1], [A.kids(lp)[0]]
        else:
            c, rest = A.kids(lp)[0], [A.kids(lp)[-1]]
        if not c.get("kind"):
            continue
        isd = any(A.callee_name(k) == "isdigit" for k in A.calls_in(c)) or any((y.get("referencedDecl") or {}).get("name") == "_ISdigit" for y in A.walk(c) if y.get("kind") == "DeclRefExpr")
        for pid, nm in ((pat_id, "pattern"), (msg_id, "message")):
            steps = [x for r_ in rest if r_.get("kind") for x in A.walk(r_)
                     if (x.get("kind") == "UnaryOperator" and x.get("opcode") == "++" or x.get("kind") == "CompoundAssignOperator" and x.get("opcode") == "+=") and derefs_param(x, pid)]
            if isd and derefs_param(c, pid) and steps:
                adv[nm] = True
    ctx.ob("R05.1", "digit runs consumed", all(adv.values()), site=A.where(fn), detail=adv, what="rtosc_match_number does not advance both cursors past their digits: %s" % adv)

    # ---- R05.2
    n = 0
    for q, fns in u.functions.items():
        for f in fns:
            for c in A.calls_in(u.body(f), "rtosc_match_number"):
                n += 1
                ok = False
                child = c
                for p in u.ancestors(c):
                    if p.get("kind") == "IfStmt":
                        cond = A.strip_casts(A.kids(p)[0])
                        neg = cond.get("kind") == "UnaryOperator" and cond.get("opcode") == "!" and _contains(cond, c)
                        fails = any(r.get("kind") == "ReturnStmt" and A.kids(r) and (A.int_literal(A.kids(r)[0]) == 0 or A.strip_casts(A.kids(r)[0]).get("kind") in ("GNUNullExpr", "CXXNullPtrLiteralExpr") or A.src(A.kids(r)[0]).strip("()") in ("(void *)0", "NULL", "0"))
                                    for r in A.walk(A.kids(p)[1]))
                        ok = neg and fails
                        break
                    if p.get("kind") in ("CompoundStmt", "FunctionDecl"):
                        break
                ctx.ob("R05.2", "%s->rtosc_match_number" % q, ok, site=A.where(c), what="%s does not fail the match when rtosc_match_number returns false" % q)
    ctx.require(n >= 1, "no caller of rtosc_match_number")
    # '#' handled nowhere else in rtosc_match_path
    fnp = u.function("rtosc_match_path")
    hashes = [x for x in A.walk(u.body(fnp)) if x.get("kind") == "BinaryOperator" and x.get("opcode") == "==" and ord("#") in (A.int_literal(A.kids(x)[1]), A.int_literal(A.kids(x)[0]))]
    hashes += [x for x in A.walk(u.body(fnp)) if x.get("kind") == "CaseStmt" and A.int_literal(A.kids(x)[0]) == ord("#")]
    ctx.ob("R05.2", "rtosc_match_path: single '#' branch", len(hashes) == 1, site=A.where(fnp), detail={"comparisons_with_#": len(hashes)},
           what="rtosc_match_path has %d branches that look at '#'" % len(hashes))

    # ---- R05.3
    fn2 = u.function("rtosc_match_partial")
    cmpx = [x for x in A.walk(u.body(fn2)) if x.get("kind") == "BinaryOperator" and x.get("opcode") in ("<", "<=", ">", ">=") and len(list(A.calls_in(x, "atoi"))) == 2]
    ctx.require(len(cmpx) == 1, "rtosc_match_partial: enumerated comparison not found")
    x = cmpx[0]
    l, r = A.kids(x)
    ps2 = u.params(fn2)
    lref = {y["referencedDecl"]["id"] for y in A.walk(l) if y.get("kind") == "DeclRefExpr" and y["referencedDecl"]["kind"] == "ParmVarDecl"}
    rref = {y["referencedDecl"]["id"] for y in A.walk(r) if y.get("kind") == "DeclRefExpr" and y["referencedDecl"]["kind"] == "ParmVarDecl"}
    ok = (x.get("opcode") == "<" and lref == {ps2[0]["id"]} and rref == {ps2[1]["id"]}) or (x.get("opcode") == ">" and lref == {ps2[1]["id"]} and rref == {ps2[0]["id"]})
    _r054(ctx, u)
    from . import C04
    C04.matcher_clone_obligations(ctx, "R05.5")
    ctx.ob("R05.3", "rtosc_match_partial", ok, site=A.where(x), detail={"comparison": A.src(x)}, what="rtosc_match_partial bounds an enumeration with `%s`" % A.src(x))


def _contains(root, node):
    nid = node.get("id")
    for x in A.walk(root):
        if x.get("id") == nid:
            return True
    return False



def _r054(ctx, u):
    # ---- R05.4
    fo = u.function("rtosc_match_options")
    pso = u.params(fo)
    msgp = pso[1]["id"]
    # the variable that preserves *msg at entry
    pres = [x for x in A.walk(u.body(fo)) if x.get("kind") == "VarDecl" and A.kids(x) and
            A.strip_casts(A.kids(x)[-1]).get("kind") == "UnaryOperator" and A.strip_casts(A.kids(x)[-1]).get("opcode") == "*" and A.ref_id(A.kids(A.strip_casts(A.kids(x)[-1]))[0]) == msgp]
    ctx.require(len(pres) == 1, "rtosc_match_options: the variable preserving *msg was not found")
    pres_id = pres[0]["id"]
    top = A.kids(u.body(fo))
    # flatten labels: LabelStmt wraps its first statement
    flat = []
    for s_ in top:
        while s_.get("kind") == "LabelStmt":
            flat.append(("label", s_.get("name"), s_))
            s_ = A.kids(s_)[0]
        flat.append(("stmt", None, s_))
    gotos = []
    for i, (kind, nm, s_) in enumerate(flat):
        if kind != "stmt":
            continue
        for g in A.walk(s_):
            if g.get("kind") == "GotoStmt":
                gotos.append((i, g))
    labels = {nm: i for i, (kind, nm, s_) in enumerate(flat) if kind == "label"}
    # label ids -> names
    lab_by_id = {}
    for x in A.walk(u.body(fo)):
        if x.get("kind") == "LabelStmt":
            lab_by_id[x.get("declId")] = x.get("name")
    back = [(i, g) for i, g in gotos if lab_by_id.get(g.get("targetLabelDeclId")) in labels and labels[lab_by_id[g.get("targetLabelDeclId")]] < i]
    ctx.require(len(back) >= 1, "rtosc_match_options: no backward jump (retry) found")

    def is_restore(x):
        if x.get("kind") == "BinaryOperator" and x.get("opcode") == "=":
            l = A.strip_casts(A.kids(x)[0])
            return l.get("kind") == "UnaryOperator" and l.get("opcode") == "*" and A.ref_id(A.kids(l)[0]) == msgp and A.ref_id(A.kids(x)[1]) == pres_id
        return False

    def changes_cursor(x):
        if x.get("kind") == "UnaryOperator" and x.get("opcode") in ("++", "--"):
            l = A.strip_casts(A.kids(x)[0])
            return l.get("kind") == "UnaryOperator" and l.get("opcode") == "*" and A.ref_id(A.kids(l)[0]) == msgp
        if x.get("kind") in ("BinaryOperator", "CompoundAssignOperator") and x.get("opcode", "").endswith("=") and x.get("opcode") not in ("==", "!=", "<=", ">="):
            l = A.strip_casts(A.kids(x)[0])
            return l.get("kind") == "UnaryOperator" and l.get("opcode") == "*" and A.ref_id(A.kids(l)[0]) == msgp and not is_restore(x)
        return False
    for i, g in back:
        j = i
        restored = False
        dirty_after = False
        while j >= 0:
            kind, nm, s_ = flat[j]
            if kind == "label":
                break
            for x in A.walk(s_):
                if is_restore(x):
                    restored = True
                elif changes_cursor(x) and not restored:
                    dirty_after = True
            if restored:
                break
            j -= 1
        ctx.ob("R05.4", "goto %s@%s" % (lab_by_id.get(g.get("targetLabelDeclId")), A.loc(g)[1]), restored and not dirty_after, site=A.where(g),
               what="rtosc_match_options retries the next alternative without first restoring the message cursor to its entry value")
