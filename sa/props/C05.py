"""C05 - Path-pattern matching (narrow claim: the enumeration bound, DESIGN.md section 2, C05)."""
from .. import astlib as A
from .. import fdeval as FD
from ..facts import AnalysisBroken

LEVEL = "other"
EXPLANATION = ("Only the safety clause of the pattern language is decided - `#N` admits exactly the decimal indices strictly smaller "
               "than N - because it is the clause that keeps array-port callbacks inside their arrays and its truth is a code shape: "
               "(R05.1) the predicate rtosc_match_number returns, evaluated over 0..5 x 0..5, is exactly val < max; val is atoi of the "
               "message cursor and max atoi of the pattern cursor; both digit runs are required and consumed; (R05.2) every caller "
               "of rtosc_match_number rejects the match when it returns false, and `#` in a pattern reaches no other comparison; "
               "(R05.3) the other index consumer (rtosc_match_partial) uses the same strict bound. Literal text, alternatives, "
               "trailing '/' and type alternatives quantify over all (pattern,address) pairs and are not decided by this family.")
TRUSTED = ["clang 14 AST", "sa/fdeval.py"]
ASSUMPTIONS = ["atoi/isdigit behave as documented"]


def run(ctx):
    u = ctx.ast("dispatch.c")
    ctx.rule("R05.1", "ENUM-BOUND: rtosc_match_number returns exactly `val < max` (table over 0..5 x 0..5) with val = atoi(message digits), max = atoi(pattern digits); both cursors must point at a digit and both digit runs are skipped")
    ctx.rule("R05.2", "ENUM-HONOURED: each call of rtosc_match_number is the (negated) condition of a branch that fails the whole match")
    ctx.rule("R05.4", "RETRY-RESTORES: in rtosc_match_options every jump back to try the next alternative is preceded, since the nearest label, by the restore of the message cursor to its value at entry, with no later change of the cursor")
    ctx.rule("R05.5", "TYPE-MATCHER-CLONES: the three hand-written copies of the type-alternative matcher (dispatch.c, two in ports.cpp) are the same function up to renaming - a change to one copy only makes the accepted type strings depend on the lookup strategy")
    ctx.rule("R05.6", "PATH-TABLE: rtosc_match_path (rtosc_match_options and rtosc_match_number evaluated in place) matches a probe address exactly when the statement says so - literal text, `#N` with a decimal index strictly below N, one of `{a,b}`, the address ending with the pattern's path or continuing after a trailing '/' - and returns the position where the pattern's type alternatives begin; 66 patterns x one-place variations of a matching address")
    ctx.rule("R05.3", "ENUM-SIBLING: rtosc_match_partial's enumerated case compares atoi(address) < atoi(pattern) strictly")
    fn = u.function("rtosc_match_number")
    ps = u.params(fn)
    ctx.require(len(ps) == 2, "rtosc_match_number: expected (pattern, msg)")
    # evaluated on probe cursors: the function gets the addresses of two cursors (cells), each pointing into a string
    PCELL, MCELL, PB, MB = 100, 200, 4096, 8192
    probes = [("3/x", "0y"), ("3", "2"), ("3", "3"), ("3", "4"), ("10:i", "9/z"), ("10", "10"), ("2", "12"), ("12", "2"), ("1", "0"), ("0", "0"),
              ("010", "7"), ("010", "8"), ("010", "9"), ("16/", "0x0f"), ("9", "010"), ("x", "1"), ("3", "x"), ("", "1"), ("3", "")]
    bad_val, bad_req, bad_adv = [], [], []

    def _digits(t):
        k = 0
        while k < len(t) and t[k].isdigit():
            k += 1
        return k
    for pat, msg in probes:
        cells = {PCELL: PB, MCELL: MB}

        def deref(addr, n, pat=pat, msg=msg, cells=cells):
            if addr in cells:
                return cells[addr]
            if PB <= addr <= PB + len(pat):
                return ord(pat[addr - PB]) if addr - PB < len(pat) else 0
            if MB <= addr <= MB + len(msg):
                return ord(msg[addr - MB]) if addr - MB < len(msg) else 0
            raise FD.Unknown("read outside the probe strings", n)

        def store(addr, v, n, cells=cells):
            if addr not in cells:
                raise FD.Unknown("store outside the two cursors", n)
            cells[addr] = v

        def text_from(addr, pat=pat, msg=msg):
            if PB <= addr <= PB + len(pat):
                return pat[addr - PB:]
            if MB <= addr <= MB + len(msg):
                return msg[addr - MB:]
            raise FD.Unknown("pointer outside the probe strings")

        def hook(n, ev):
            if n.get("kind") == "UnaryOperator" and n.get("opcode") == "&" and A.strip_casts(A.kids(n)[0]).get("kind") == "DeclRefExpr":
                return ("addr", A.ref_id(A.kids(n)[0]))
            if n.get("kind") == "BinaryOperator" and n.get("opcode") == "&":
                enum = [y["referencedDecl"]["name"] for y in A.walk(A.kids(n)[1]) if y.get("kind") == "DeclRefExpr" and (y.get("referencedDecl") or {}).get("kind") == "EnumConstantDecl"]
                subs = [y for y in A.walk(A.kids(n)[0]) if y.get("kind") == "ArraySubscriptExpr"]
                if len(enum) == 1 and enum[0] == "_ISdigit" and subs:
                    v = ev.ev(A.kids(subs[0])[1])
                    return 1 if 48 <= v <= 57 else 0
            return NotImplemented

        def call(nm, vals, n):
            import re as _re
            if nm == "isdigit":
                return 1 if 48 <= vals[0] <= 57 else 0
            if nm in ("atoi", "atol"):
                m_ = _re.match(r'\s*([+-]?\d+)', text_from(vals[0]))
                return int(m_.group(1)) if m_ else 0
            if nm in ("strtol", "strtoul", "strtoll", "strtoull"):
                t = text_from(vals[0])
                base = vals[2]
                m_ = _re.match(r'\s*([+-]?)(0[xX][0-9a-fA-F]+|\d+)', t)
                val, used = 0, 0
                if m_:
                    body = m_.group(2)
                    try:
                        if base == 0:
                            val = int(body, 16) if body[:2].lower() == "0x" else (int(body, 8) if len(body) > 1 and body[0] == "0" and all(c in "01234567" for c in body) else None)
                            if val is None:
                                k_ = 1 if body[0] == "0" else len(body)
                                k_ = len(body) if body[0] != "0" else 1 + sum(1 for _ in _re.match(r'[0-7]*', body[1:]).group(0))
                                val = int(body[:k_], 8 if body[0] == "0" and k_ > 1 else 10)
                                body = body[:k_]
                        elif base == 16:
                            val = int(body[2:] if body[:2].lower() == "0x" else body, 16)
                        else:
                            body = _re.match(r'\d+', body).group(0) if base == 10 else body
                            val = int(body, base)
                    except ValueError:
                        raise FD.Unknown("strtol model", n)
                    used = len(m_.group(1)) + len(body)
                    if m_.group(1) == "-":
                        val = -val
                if isinstance(vals[1], tuple) and vals[1][0] == "addr":
                    ev.env[vals[1][1]] = vals[0] + used
                return val
            fns_ = [f_ for f_ in u.functions.get(nm, []) if u.body(f_) is not None]
            if len(fns_) == 1:
                return ev.call_function(u, fns_[0], vals)
            raise FD.Unknown("call to %s" % nm, n)
        ev = FD.Eval(deref=deref, store=store, node_hook=hook, call=call, max_steps=4000)
        try:
            r = ev.call_function(u, fn, [PCELL, MCELL])
        except FD.Unknown as ex:
            raise AnalysisBroken("R05.1: rtosc_match_number not evaluable on (%r, %r): %s" % (pat, msg, ex))
        dp, dm = _digits(pat), _digits(msg)
        if dp == 0 or dm == 0:
            if r:
                bad_req.append({"pattern_at": pat, "message_at": msg, "returns": 1})
            continue
        exp = int(msg[:dm]) < int(pat[:dp])
        if bool(r) != exp:
            bad_val.append({"N": pat[:dp], "index": msg[:dm], "returns": int(bool(r)), "expected": int(exp)})
        if cells[PCELL] != PB + dp or cells[MCELL] != MB + dm:
            bad_adv.append({"N": pat[:dp], "index": msg[:dm], "pattern_cursor_moved": cells[PCELL] - PB, "message_cursor_moved": cells[MCELL] - MB, "expected": [dp, dm]})
    site = A.where(fn)
    ctx.ob("R05.1", "operands", not bad_val, site=site, detail={"probes": len(probes), "mismatches": bad_val[:6]},
           what="rtosc_match_number does not compare the decimal index of the message with the decimal bound of the pattern: %s" % bad_val[:3])
    ctx.ob("R05.1", "predicate table", not bad_val, site=site, detail={"cases": len(probes), "mismatches": bad_val[:6]},
           what="rtosc_match_number returns something else than index < N: %s" % bad_val[:3])
    ctx.ob("R05.1", "digits required on both sides", not bad_req, site=site, detail={"mismatches": bad_req[:4]},
           what="rtosc_match_number does not reject when pattern or message cursor is not at a digit: %s" % bad_req[:2])
    ctx.ob("R05.1", "digit runs consumed", not bad_adv, site=site, detail={"mismatches": bad_adv[:4]},
           what="rtosc_match_number does not advance both cursors past their digits: %s" % bad_adv[:2])

    # ---- R05.2
    n = 0
    for q, fns in u.functions.items():
        for f in fns:
            for c in A.calls_in(u.body(f), "rtosc_match_number"):
                n += 1
                ok = False
                child = c
                for p in u.ancestors(c):
                    if p.get("kind") == "IfStmt":
                        cond = A.strip_casts(A.kids(p)[0])
                        neg = cond.get("kind") == "UnaryOperator" and cond.get("opcode") == "!" and _contains(cond, c)
                        fails = any(r.get("kind") == "ReturnStmt" and A.kids(r) and (A.int_literal(A.kids(r)[0]) == 0 or A.strip_casts(A.kids(r)[0]).get("kind") in ("GNUNullExpr", "CXXNullPtrLiteralExpr") or A.src(A.kids(r)[0]).strip("()") in ("(void *)0", "NULL", "0"))
                                    for r in A.walk(A.kids(p)[1]))
                        ok = neg and fails
                        break
                    if p.get("kind") in ("CompoundStmt", "FunctionDecl"):
                        break
                ctx.ob("R05.2", "%s->rtosc_match_number" % q, ok, site=A.where(c), what="%s does not fail the match when rtosc_match_number returns false" % q)
    ctx.require(n >= 1, "no caller of rtosc_match_number")
    # '#' handled nowhere else in rtosc_match_path
    fnp = u.function("rtosc_match_path")
    hashes = [x for x in A.walk(u.body(fnp)) if x.get("kind") == "BinaryOperator" and x.get("opcode") == "==" and ord("#") in (A.int_literal(A.kids(x)[1]), A.int_literal(A.kids(x)[0]))]
    hashes += [x for x in A.walk(u.body(fnp)) if x.get("kind") == "CaseStmt" and A.int_literal(A.kids(x)[0]) == ord("#")]
    ctx.ob("R05.2", "rtosc_match_path: single '#' branch", len(hashes) == 1, site=A.where(fnp), detail={"comparisons_with_#": len(hashes)},
           what="rtosc_match_path has %d branches that look at '#'" % len(hashes))

    # ---- R05.3
    fn2 = u.function("rtosc_match_partial")
    cmpx = [x for x in A.walk(u.body(fn2)) if x.get("kind") == "BinaryOperator" and x.get("opcode") in ("<", "<=", ">", ">=") and len(list(A.calls_in(x, "atoi"))) == 2]
    ctx.require(len(cmpx) == 1, "rtosc_match_partial: enumerated comparison not found")
    x = cmpx[0]
    l, r = A.kids(x)
    ps2 = u.params(fn2)
    lref = {y["referencedDecl"]["id"] for y in A.walk(l) if y.get("kind") == "DeclRefExpr" and y["referencedDecl"]["kind"] == "ParmVarDecl"}
    rref = {y["referencedDecl"]["id"] for y in A.walk(r) if y.get("kind") == "DeclRefExpr" and y["referencedDecl"]["kind"] == "ParmVarDecl"}
    ok = (x.get("opcode") == "<" and lref == {ps2[0]["id"]} and rref == {ps2[1]["id"]}) or (x.get("opcode") == ">" and lref == {ps2[1]["id"]} and rref == {ps2[0]["id"]})
    _r054(ctx, u)
    from . import C04
    C04.matcher_clone_obligations(ctx, "R05.5")
    ctx.ob("R05.3", "rtosc_match_partial", ok, site=A.where(x), detail={"comparison": A.src(x)}, what="rtosc_match_partial bounds an enumeration with `%s`" % A.src(x))

    # ---- R05.6: the path matcher evaluated against the statement, pattern by pattern
    from ..rules import pathmatch as PM
    fmp = u.function("rtosc_match_path")
    npairs = 0
    for pat in PM.patterns():
        bad = []
        n_here = 0
        _, _, path_len = PM.parse(pat)
        for adr in PM.addresses(pat):
            want, unamb = PM.reference(pat, adr)
            if not unamb:
                continue
            try:
                got = PM.run_match_path(u, pat, adr)
            except FD.Unknown as ex:
                raise AnalysisBroken("R05.6: rtosc_match_path not evaluable on (%r, %r): %s" % (pat, adr, ex))
            n_here += 1
            if (got is not None) != want:
                bad.append({"address": adr, "matches": got is not None, "statement_says": want})
            elif got is not None and got != path_len:
                bad.append({"address": adr, "returned_pattern_offset": got, "types_begin_at": path_len})
        npairs += n_here
        ctx.ob("R05.6", "pattern \"%s\"" % pat, not bad, site=A.where(fmp), detail={"addresses": n_here, "mismatches": bad[:6]},
               key="R05.6:%s" % pat,
               what="rtosc_match_path on pattern \"%s\": %s" % (pat, bad[:3]))
    ctx.require(npairs >= 1000, "R05.6: only %d (pattern, address) pairs evaluated" % npairs)


def _contains(root, node):
    nid = node.get("id")
    for x in A.walk(root):
        if x.get("id") == nid:
            return True
    return False



def _r054(ctx, u):
    # ---- R05.4
    fo = u.function("rtosc_match_options")
    pso = u.params(fo)
    msgp = pso[1]["id"]
    if not any(x.get("kind") == "GotoStmt" for x in A.walk(u.body(fo))):
        return      # alternatives tried by a loop instead of goto: no retry jump to guard; what the retry must achieve (the
                    # message cursor back at its entry value for the next alternative) is decided by the path table R05.6,
                    # whose probes contain alternatives that share a prefix with the address (`x{on,off}y` against `xoffy`)
    # the variable that preserves *msg at entry
    pres = [x for x in A.walk(u.body(fo)) if x.get("kind") == "VarDecl" and A.kids(x) and
            A.strip_casts(A.kids(x)[-1]).get("kind") == "UnaryOperator" and A.strip_casts(A.kids(x)[-1]).get("opcode") == "*" and A.ref_id(A.kids(A.strip_casts(A.kids(x)[-1]))[0]) == msgp]
    ctx.require(len(pres) == 1, "rtosc_match_options: the variable preserving *msg was not found")
    pres_id = pres[0]["id"]
    top = A.kids(u.body(fo))
    # flatten labels: LabelStmt wraps its first statement
    flat = []
    for s_ in top:
        while s_.get("kind") == "LabelStmt":
            flat.append(("label", s_.get("name"), s_))
            s_ = A.kids(s_)[0]
        flat.append(("stmt", None, s_))
    gotos = []
    for i, (kind, nm, s_) in enumerate(flat):
        if kind != "stmt":
            continue
        for g in A.walk(s_):
            if g.get("kind") == "GotoStmt":
                gotos.append((i, g))
    labels = {nm: i for i, (kind, nm, s_) in enumerate(flat) if kind == "label"}
    # label ids -> names
    lab_by_id = {}
    for x in A.walk(u.body(fo)):
        if x.get("kind") == "LabelStmt":
            lab_by_id[x.get("declId")] = x.get("name")
    back = [(i, g) for i, g in gotos if lab_by_id.get(g.get("targetLabelDeclId")) in labels and labels[lab_by_id[g.get("targetLabelDeclId")]] < i]
    if not gotos:
        return      # alternatives tried by a loop instead of goto: no retry jump to guard; what the retry must achieve (the
                    # message cursor back at its entry value for the next alternative) is decided by the path table R05.6,
                    # whose probes contain alternatives that share a prefix with the address (`x{on,off}y` against `xoffy`)
    ctx.require(len(back) >= 1, "rtosc_match_options: no backward jump (retry) found")

    def is_restore(x):
        if x.get("kind") == "BinaryOperator" and x.get("opcode") == "=":
            l = A.strip_casts(A.kids(x)[0])
            return l.get("kind") == "UnaryOperator" and l.get("opcode") == "*" and A.ref_id(A.kids(l)[0]) == msgp and A.ref_id(A.kids(x)[1]) == pres_id
        return False

    def changes_cursor(x):
        if x.get("kind") == "UnaryOperator" and x.get("opcode") in ("++", "--"):
            l = A.strip_casts(A.kids(x)[0])
            return l.get("kind") == "UnaryOperator" and l.get("opcode") == "*" and A.ref_id(A.kids(l)[0]) == msgp
        if x.get("kind") in ("BinaryOperator", "CompoundAssignOperator") and x.get("opcode", "").endswith("=") and x.get("opcode") not in ("==", "!=", "<=", ">="):
            l = A.strip_casts(A.kids(x)[0])
            return l.get("kind") == "UnaryOperator" and l.get("opcode") == "*" and A.ref_id(A.kids(l)[0]) == msgp and not is_restore(x)
        return False
    for i, g in back:
        j = i
        restored = False
        dirty_after = False
        while j >= 0:
            kind, nm, s_ = flat[j]
            if kind == "label":
                break
            for x in A.walk(s_):
                if is_restore(x):
                    restored = True
                elif changes_cursor(x) and not restored:
                    dirty_after = True
            if restored:
                break
            j -= 1
        ctx.ob("R05.4", "goto %s@%s" % (lab_by_id.get(g.get("targetLabelDeclId")), A.loc(g)[1]), restored and not dirty_after, site=A.where(g),
               what="rtosc_match_options retries the next alternative without first restoring the message cursor to its entry value")
