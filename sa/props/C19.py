"""C19 - Automation output stays in range and MIDI-learn requests are served in order
(DESIGN.md section 2, C19; narrow structural claim)."""
import itertools
import re

from .. import astlib as A
from .. import fdeval as FD
from ..facts import AnalysisBroken
from ..rules import metakeys as MK
from ..rules import oscformat as OF

LEVEL = "other"
EXPLANATION = ("Structural clauses of the automation property: (R19.1) the slot fields that use the literal -1 as `none` (learning, "
               "midi_cc, midi_nrpn - discovered from the stores of -1) are never tested by truthiness; (R19.5) every decrement of "
               "a learn-queue position and of learn_queue_len is enclosed by conditions which - enumerated over queue positions "
               "{-1,1,2,3} for every distinct slot expression - cannot hold while a slot expression other than the decremented one "
               "is -1, i.e. the queue is renumbered only when the reference slot was really waiting; (R19.2) in setSlotSub the "
               "clamp of the mapped value, evaluated over values around the bounds, is clamp(v,min,max), precedes the emit, and "
               "only monotone functions are applied in between; (R19.3) the emit calls pass the C type their type tag takes; "
               "(R19.4) the metadata keys createBinding/setSlotSubPath read are the ones rLinear/rLog/rLogWithLogmin emit and the "
               "`log` test separates their scale values. Linearity of the mapping and queue order over histories are not decided.")
TRUSTED = ["clang 14 AST", "sa/fdeval.py", "witness/meta_matrix.cpp expansions of the metadata macros"]
ASSUMPTIONS = ["roundf/expf are monotone", "the -1 sentinel convention is the one visible in the stores of the current tree"]

UNIT = "automations.cpp"
MONOTONE = {"roundf", "expf", "round", "exp", "floorf", "ceilf", "lroundf"}


def member_text(e):
    return re.sub(r'\s+', '', A.src(A.strip_casts(e)))


def run(ctx):
    u = ctx.ast(UNIT)
    ctx.rule("R19.1", "SENTINEL: a field whose `none` value is the literal -1 is never converted to bool (tested by truthiness)")
    ctx.rule("R19.10", "LOG-DOMAIN: createBinding and setSlotSubPath keep the bounds of a log-scale parameter as logarithms whatever its type; every numeric branch of setSlotSub therefore applies exp to the clamped value exactly when the scale is logarithmic, so that the emitted value is in the parameter's declared range")
    ctx.rule("R19.2", "CLAMP-THEN-EMIT: in setSlotSub the clamp statements compute clamp(v,mn,mx), precede the rtosc_message that emits v, and only monotone library functions are applied to v in between")
    ctx.rule("R19.3", "FORMAT: every variadic OSC constructor call in automations.cpp passes the promoted C type its type tag takes")
    ctx.rule("R19.4", "KEYS: the metadata keys read by createBinding / setSlotSubPath are emitted by rLinear/rLog/rLogWithLogmin, and strstr(scale,\"log\") separates the scale values those macros emit")
    ctx.rule("R19.6", "MAPPING-FRESH: in createBinding / setSlotSubPath every store to a field that updateMapping reads (param_min, param_max, map.gain, map.offset) precedes the updateMapping call")
    ctx.rule("R19.7", "RESET-COMPLETE: clearSlot and the constructor put every -1-sentinel field of the slot (learning, midi_cc, midi_nrpn) back to -1")
    ctx.rule("R19.5", "QUEUE-GUARD: every decrement of a -1-sentinel field or of learn_queue_len is enclosed by conditions that are unsatisfiable while another slot expression in them is -1")

    # ---- sentinel fields: FieldDecls that are assigned the literal -1
    sentinel = {}
    stores = 0
    for d in u.decls:
        for x in A.walk(d):
            if x.get("kind") == "BinaryOperator" and x.get("opcode") == "=":
                l, r = A.kids(x)
                lm = A.strip_casts(l)
                if lm.get("kind") == "MemberExpr" and A.int_literal(r) == -1:
                    sentinel[lm.get("referencedMemberDecl")] = lm.get("name")
                    stores += 1
    # only fields of AutomationSlot
    names = sorted(set(sentinel.values()))
    ctx.require({"learning", "midi_cc", "midi_nrpn"} <= set(names) and stores >= 6,
                "sentinel discovery: found fields %s with %d stores of -1 (expected learning, midi_cc, midi_nrpn / >= 6)" % (names, stores))
    cmp_m1 = 0
    for d in u.decls:
        for x in A.walk(d):
            if x.get("kind") == "BinaryOperator" and x.get("opcode") in ("==", "!="):
                l, r = A.kids(x)
                if A.strip_casts(l).get("kind") == "MemberExpr" and A.strip_casts(l).get("referencedMemberDecl") in sentinel and A.int_literal(r) == -1:
                    cmp_m1 += 1
    ctx.require(cmp_m1 >= 2, "sentinel discovery: only %d comparisons with -1" % cmp_m1)
    # R19.1: one obligation per function that reads a sentinel field
    for q, fns in sorted(u.functions.items()):
        for fn in fns:
            if not (A.loc(fn)[0] or "").endswith(UNIT):
                continue
            reads = [x for x in A.walk(u.body(fn)) if x.get("kind") == "MemberExpr" and x.get("referencedMemberDecl") in sentinel]
            if not reads:
                continue
            bad = []
            for x in A.walk(u.body(fn)):
                if x.get("kind") == "ImplicitCastExpr" and x.get("castKind") == "IntegralToBoolean":
                    inner = A.strip_casts(A.kids(x)[0])
                    if inner.get("kind") == "MemberExpr" and inner.get("referencedMemberDecl") in sentinel:
                        bad.append(inner)
            ctx.ob("R19.1", q, not bad, site=A.where(bad[0]) if bad else A.where(fn), detail={"sentinel_field_uses": len(reads), "truthiness_tests": [member_text(b) for b in bad]},
                   key="R19.1:%s:%s" % (q, ",".join(sorted({b.get("name") for b in bad}))),
                   what="%s tests `%s` by truthiness although -1 means `none`" % (q, member_text(bad[0]) if bad else ""))
    ctx.require_count("R19.1", 3)

    # ---- R19.12: the queue operations as a whole
    ctx.rule("R19.12", "QUEUE-EVALUATED: clearSlot (every slot) and handleMidi with an unbound plain controller, interpreted over all 16 states of the learn queue of three slots, "
                       "leave the waiting slots with the positions 1..n in the order in which they asked and learn_queue_len = n; the controller is bound to the slot that was at the head and to no other")
    from ..rules import learnqueue as LQ
    queue_decided = False
    try:
        bad_c, n_c = LQ.check_clear(u)
        bad_l, n_l = LQ.check_learn(u)
        queue_decided = True
        ctx.ob("R19.12", "clearSlot over all queue states", not bad_c, site=A.where(u.function("AutomationMgr::clearSlot")), detail={"evaluations": n_c, "mismatches": bad_c[:3]},
               what="clearSlot does not keep the learn queue in order: %s" % bad_c[:2])
        ctx.ob("R19.12", "handleMidi (unbound controller) over all queue states", not bad_l, site=A.where(u.function("AutomationMgr::handleMidi")), detail={"evaluations": n_l, "mismatches": bad_l[:3]},
               what="handleMidi with an unbound controller does not serve the head of the learn queue and close the gap: %s" % bad_l[:2])
    except FD.Unknown as e:
        ctx.note("R19.12: the queue operations are not evaluable as a whole (%s); the guards of the decrements are examined one by one (R19.5)" % e)

    # ---- R19.5
    # functions that run only as part of clearSlot / handleMidi (helpers the two hand their work to): where the queue evaluation
    # R19.12 has interpreted those two as wholes - helpers in place, over all queue states - it has decided what their
    # decrements do, and the guard-by-guard reading below is a note there
    callers5 = {}
    for q_, fl_ in u.functions.items():
        for f_ in fl_:
            if u.body(f_) is None or not (A.loc(f_)[0] or "").endswith(UNIT):
                continue
            for c_ in A.walk(u.body(f_)):
                if c_.get("kind") in ("CallExpr", "CXXMemberCallExpr"):
                    nm_ = A.callee_name(c_) or (A.strip_casts(A.kids(c_)[0]).get("name") if A.kids(c_) else None)
                    if nm_:
                        callers5.setdefault(nm_, set()).add(q_.split("::")[-1])
    inside5 = {"clearSlot", "handleMidi"}
    for _ in range(4):
        for nm_, cs_ in callers5.items():
            if nm_ not in inside5 and cs_ and cs_ <= inside5 and any(q_.split("::")[-1] == nm_ for q_ in u.functions):
                inside5.add(nm_)
    qlen_field = None
    n5 = 0
    for q, fns in sorted(u.functions.items()):
        for fn in fns:
            if not (A.loc(fn)[0] or "").endswith(UNIT):
                continue
            for x in A.walk(u.body(fn)):
                tgt = None
                if x.get("kind") == "UnaryOperator" and x.get("opcode") == "--":
                    tgt = A.strip_casts(A.kids(x)[0])
                elif x.get("kind") == "CompoundAssignOperator" and x.get("opcode") == "-=":
                    tgt = A.strip_casts(A.kids(x)[0])
                if tgt is None or tgt.get("kind") != "MemberExpr":
                    continue
                is_sent = tgt.get("referencedMemberDecl") in sentinel
                is_qlen = tgt.get("name") == "learn_queue_len"
                if not (is_sent or is_qlen):
                    continue
                n5 += 1
                conds = _guards(u, x)
                # a file-local helper stands for its call sites: the callers' guards and the argument values count
                sites = []
                if fn.get("kind") == "FunctionDecl" and fn.get("storageClass") == "static":
                    for q2, fns2 in u.functions.items():
                        for g in fns2:
                            if u.body(g) is None or g is fn:
                                continue
                            for c in A.calls_in(u.body(g), fn.get("name")):
                                sites.append((q2, c))
                    if not sites:
                        raise AnalysisBroken("R19.5: static helper %s has no call site" % q)
                    n5 += len(sites) - 1
                witness = None
                for site_q, site_call in (sites or [(None, None)]):
                    cconds = _guards(u, site_call) if site_call is not None else []
                    binds = {}
                    if site_call is not None:
                        for prm, arg in zip(u.params(fn), A.kids(site_call)[1:]):
                            binds[prm["id"]] = arg
                    try:
                        w = _queue_witness(u, sentinel, member_text, x, tgt, is_sent, conds, cconds, binds, q)
                    except AnalysisBroken as e5:
                        if queue_decided and (q.split("::")[-1] in inside5 or (site_q or "").split("::")[-1] in inside5):
                            ctx.note("R19.5: %s - decided by the evaluation of the queue operations (R19.12)" % e5)
                            w = None
                        else:
                            raise
                    if w is not None and queue_decided and q.split("::")[-1] in inside5 - {"clearSlot", "handleMidi"}:
                        # a helper that runs only inside the two evaluated operations: its guards are the callers' (a search result, an
                        # early return) and R19.12 has run it in place on every queue state
                        ctx.note("R19.5: %s: the guards of `%s--` are not read off the helper alone (%s) - decided by the evaluation of the queue operations (R19.12)" % (q, member_text(tgt), w.get("reason", w)))
                        w = None
                    if w is not None:
                        witness = dict(w, **({"called_from": site_q} if site_q else {}))
                        break
                ctx.ob("R19.5", "%s: %s--" % (q, member_text(tgt)), witness is None, site=A.where(x),
                       detail={"enclosing_conditions": [("" if pol else "!") + "(" + A.src(c) + ")" for c, pol in conds], "call_sites": [sq for sq, _ in sites], "counterexample": witness},
                       key="R19.5:%s:%s" % (q, member_text(tgt)),
                       what="%s decrements %s under conditions that hold with %s" % (q, member_text(tgt), witness))
    ctx.require(n5 >= 4, "R19.5: only %d queue decrements found" % n5)

    # ---- R19.7
    def _rec_of(fid):
        d = u.by_id.get(fid)
        par = u.parent.get(fid) if d is not None else None
        return par.get("name") if par is not None else None
    slot_sent = {fid: nm for fid, nm in sentinel.items() if _rec_of(fid) == "AutomationSlot"}
    ctx.require(len(slot_sent) >= 3, "R19.7: sentinel fields of AutomationSlot not found (%s)" % sorted(slot_sent.values()))
    allsent = set(slot_sent.values())
    for q in ("AutomationMgr::clearSlot", "AutomationMgr::AutomationMgr"):
        fq = u.function(q)
        reset = set()
        for x in A.walk(u.body(fq)):
            if x.get("kind") == "BinaryOperator" and x.get("opcode") == "=":
                l = A.strip_casts(A.kids(x)[0])
                if l.get("kind") == "MemberExpr" and l.get("referencedMemberDecl") in slot_sent and A.int_literal(A.kids(x)[1]) == -1:
                    reset.add(l.get("name"))
        if q.endswith("clearSlot") and reset != allsent and queue_decided:
            # a reset made in a helper: clearSlot as a whole is evaluated by R19.12 (positions and both controller bindings of the cleared slot)
            ctx.note("R19.7: clearSlot does not assign %s itself; that a cleared slot is unbound and out of the queue is decided by the evaluation R19.12" % sorted(allsent - reset))
            continue
        if reset != allsent:
            # the missing reset may be made by a helper of the unit that is handed the slot: not followed here
            helpers7 = [A.callee_name(c_) for c_ in A.calls_in(u.body(fq)) if any(u.body(f_) is not None and f_.get("storageClass") == "static" for f_ in u.functions.get(A.callee_name(c_) or "", []))]
            if helpers7:
                raise AnalysisBroken("R19.7: %s leaves %s to be reset elsewhere; the helpers %s are not followed" % (q, sorted(allsent - reset), sorted(set(helpers7))))
        ctx.ob("R19.7", q, reset == allsent, site=A.where(fq), detail={"sentinel_fields": sorted(allsent), "reset_here": sorted(reset)},
               what="%s leaves %s untouched: a cleared slot keeps a stale binding" % (q, sorted(allsent - reset)))


    # ---- R19.8
    ctx.rule("R19.8", "STATE-INIT: every member of the manager that is tested for `not yet set` by its sign (x < 0 / x >= 0) is given a value by the constructor - the NRPN bytes are such members; read uninitialised, the first controller message is interpreted against whatever the memory held")
    sign_tested = {}
    for q_, fns_ in u.functions.items():
        for f_ in fns_:
            if not (A.loc(f_)[0] or "").endswith(UNIT) or u.body(f_) is None:
                continue
            for x in A.walk(u.body(f_)):
                if x.get("kind") == "BinaryOperator" and x.get("opcode") in ("<", ">=") and A.int_literal(A.kids(x)[1]) == 0:
                    l = A.strip_casts(A.kids(x)[0])
                    if l.get("kind") == "MemberExpr" and l.get("referencedMemberDecl"):
                        base = A.strip_casts(A.kids(l)[0]) if A.kids(l) else {}
                        # members of the manager itself (this->X, this->S.X), not of a slot reached through the array
                        if base.get("kind") in ("CXXThisExpr",) or (base.get("kind") == "MemberExpr" and A.strip_casts(A.kids(base)[0]).get("kind") == "CXXThisExpr" and "*" not in (A.qtype(base) or "")):
                            sign_tested[l.get("referencedMemberDecl")] = member_text(l)
    ctor = u.function("AutomationMgr::AutomationMgr")
    inited = set()
    for ci in A.kids(ctor):
        if ci.get("kind") == "CXXCtorInitializer" and (ci.get("anyInit") or {}).get("id"):
            inited.add(ci["anyInit"]["id"])
    for x in A.walk(u.body(ctor)):
        if x.get("kind") == "BinaryOperator" and x.get("opcode") == "=":
            l = A.strip_casts(A.kids(x)[0])
            if l.get("kind") == "MemberExpr":
                inited.add(l.get("referencedMemberDecl"))
        if x.get("kind") == "CallExpr" and A.callee_name(x) == "memset":
            for y in A.walk(A.kids(x)[1]):
                if y.get("kind") == "MemberExpr" and A.strip_casts(A.kids(y)[0]).get("kind") == "CXXThisExpr":
                    # memset(&this->S, v, sizeof S): every member of S
                    rec_ = u.by_id.get(y.get("referencedMemberDecl"))
                    for fid_ in list(sign_tested):
                        if u.parent.get(fid_) is not None and rec_ is not None and A.qtype(rec_) and (u.parent[fid_].get("name") or "?") in A.qtype(rec_):
                            inited.add(fid_)
    ctx.require(len(sign_tested) >= 2, "R19.8: no sign-tested member of the manager found (%d)" % len(sign_tested))
    for fid_, txt_ in sorted(sign_tested.items(), key=lambda kv: kv[1]):
        ctx.ob("R19.8", "constructor sets %s" % txt_, fid_ in inited, site=A.where(ctor),
               key="R19.8:%s" % txt_,
               what="%s is tested by its sign (`not received yet` is negative) but the constructor leaves it uninitialised" % txt_)

    # ---- R19.9
    ctx.rule("R19.9", "LEARN-IDENTITY: handleMidi binds a waiting slot (stores midi_cc / midi_nrpn) only with a controller number computed in that call: on every path from the declaration of the number to such a store, the number has been assigned from the message (a complete NRPN, or channel and controller) - an incomplete NRPN sequence carries no identity yet")
    from ..rules import flow as FL9
    from ..rules import guard as G9
    P9 = ctx.program_of(UNIT)
    m9 = ctx.ir(UNIT)
    hm = [f_ for f_ in m9.functions.values() if re.match(r'^rtosc::AutomationMgr::handleMidi\(', P9.dm(f_.name)) and "::$_" not in P9.dm(f_.name) and "{lambda" not in P9.dm(f_.name)]
    ctx.require(len(hm) == 1, "R19.9: IR of AutomationMgr::handleMidi not found")
    hm = hm[0]
    # the variable stored into midi_cc / midi_nrpn
    fh = u.function("AutomationMgr::handleMidi")
    src_ids = set()
    for x in A.walk(u.body(fh)):
        if x.get("kind") == "BinaryOperator" and x.get("opcode") == "=":
            l = A.strip_casts(A.kids(x)[0])
            if l.get("kind") == "MemberExpr" and l.get("name") in ("midi_cc", "midi_nrpn") and A.ref_id(A.kids(x)[1]):
                src_ids.add(A.ref_id(A.kids(x)[1]))
    ctx.require(len(src_ids) == 1, "R19.9: the controller number bound to a learning slot is not one local variable (%d)" % len(src_ids))
    iddecl9 = u.by_id[src_ids.pop()]
    idname = iddecl9.get("name")
    slot9 = FL9.slot_of_local(hm, idname)
    ctx.require(slot9 is not None, "R19.9: local `%s` not found in the IR of handleMidi" % idname)
    st9 = [i_ for i_ in hm.insts() if i_.op == "store" and G9.parse_store(i_)[1] == slot9]
    if iddecl9.get("kind") == "VarDecl" and A.kids(iddecl9):
        # declared with an initialiser: the first store is that initial value, the others assign from the message
        ctx.require(len(st9) >= 2, "R19.9: assignments of `%s` not found" % idname)
        init9 = st9[0]
        assigns9 = st9[1:]
    else:
        # declared without one: every store is an assignment; the paths start where the function starts
        ctx.require(len(st9) >= 1, "R19.9: assignments of `%s` not found" % idname)
        init9 = hm.blocks[0].insts[0]
        assigns9 = st9
    loads9 = {i_.res for i_ in hm.insts() if i_.op == "load" and G9.parse_load(i_) == slot9}
    binds9 = [i_ for i_ in hm.insts() if i_.op == "store" and G9.parse_store(i_)[0] in loads9 and
              "AutomationSlot" in (hm.defs().get(G9.parse_store(i_)[1]).text if hm.defs().get(G9.parse_store(i_)[1]) is not None else "")]
    ctx.require(len(binds9) >= 2, "R19.9: the stores that bind a slot (midi_cc / midi_nrpn) were not found in the IR (%d)" % len(binds9))
    esc9 = FL9.escapes(hm, init9, assigns9, binds9)
    ctx.ob("R19.9", "handleMidi: learn step", esc9 is None, site=(esc9.where() if esc9 is not None else binds9[0].where()), detail={"controller_number": idname, "assignments": len(assigns9), "binding_stores": len(binds9)},
           key="R19.9:handleMidi:learn",
           what="handleMidi can bind a learning slot at %s with `%s` still at its initial value: a message that identifies no controller (an incomplete NRPN sequence) is learned as controller 0" % (esc9.where() if esc9 is not None else "", idname))

    def _reaches_update(name):
        """updateMapping itself, or a method of the unit whose body calls it"""
        if name == "updateMapping":
            return True
        for q_, fl_ in u.functions.items():
            if q_.split("::")[-1] == (name or ""):
                for f_ in fl_:
                    if u.body(f_) is not None and any((A.callee_name(c_) or (A.strip_casts(A.kids(c_)[0]).get("name") if A.kids(c_) else None)) == "updateMapping"
                                                       for c_ in A.walk(u.body(f_)) if c_.get("kind") in ("CallExpr", "CXXMemberCallExpr")):
                        return True
        return False

    def _call_name(c_):
        return A.callee_name(c_) or (A.strip_casts(A.kids(c_)[0]).get("name") if A.kids(c_) else None)

    # ---- R19.13: a binding starts from its own scale
    ctx.rule("R19.13", "SCALE-FRESH: createBinding and setSlotSubPath reuse the sub-automation of an earlier binding; before they hand it to updateMapping every path has assigned map.control_scale "
                       "(logarithmic or not is a property of the new parameter) - a flag that is only ever raised survives clearSlot and the next, linear parameter is mapped through exp")
    for q13 in ("AutomationMgr::createBinding", "AutomationMgr::setSlotSubPath"):
        f13 = u.function(q13)
        top13 = A.kids(u.body(f13))
        upd = [i_ for i_, s_ in enumerate(top13) if any(_reaches_update(_call_name(c_)) for c_ in A.walk(s_) if c_.get("kind") in ("CallExpr", "CXXMemberCallExpr"))]
        ctx.require(len(upd) >= 1, "R19.13: %s: the call of updateMapping was not found among its statements" % q13)
        via13 = {_call_name(c_) for c_ in A.walk(top13[upd[0]]) if c_.get("kind") in ("CallExpr", "CXXMemberCallExpr") and _reaches_update(_call_name(c_))}
        if via13 <= {"setSlotSubPath", "createBinding"} and q13.split("::")[-1] not in via13:
            ctx.note("R19.13: %s computes the mapping through %s, whose own instance of the rule decides the scale" % (q13, sorted(via13)))
            continue
        before13 = top13[:upd[0]]
        ok13 = any(_definitely_assigns(s_, "control_scale") for s_ in before13)
        some13 = any(_assigns_member(y_, "control_scale") for s_ in before13 for y_ in A.walk(s_))
        if not ok13:
            # a helper of the unit, called unconditionally in front of updateMapping, that assigns the scale on every path to each
            # of its exits (early returns included) stands for the assignment
            for s_ in before13:
                e_ = A.strip_casts(s_)
                while e_.get("kind") in ("ExprWithCleanups", "ParenExpr") and A.kids(e_):
                    e_ = A.strip_casts(A.kids(e_)[0])
                if e_.get("kind") not in ("CallExpr", "CXXMemberCallExpr"):
                    continue
                hs_ = [f_ for q_, fl_ in u.functions.items() if q_.split("::")[-1] == (_call_name(e_) or "") for f_ in fl_ if u.body(f_) is not None]
                if len(hs_) != 1:
                    continue
                try:
                    okx_, aft_ = _exits_assign(A.kids(u.body(hs_[0])), "control_scale", False)
                except _Undecided:
                    continue
                if any(_assigns_member(y_, "control_scale") for y_ in A.walk(u.body(hs_[0]))):
                    some13 = True
                    if okx_ and aft_ is not False:
                        ok13 = True
        if not some13:
            # written somewhere else (a helper that sets the whole mapping): not followed
            helpers13 = [c_ for s_ in before13 for c_ in A.walk(s_) if c_.get("kind") in ("CallExpr", "CXXMemberCallExpr")]
            raise AnalysisBroken("R19.13: %s does not assign control_scale itself; %d calls before updateMapping are not followed" % (q13, len(helpers13)))
        ctx.ob("R19.13", q13.split("::")[-1], ok13, site=A.where(f13), detail={"statements_before_updateMapping": len(before13)},
               key="R19.13:%s" % q13.split("::")[-1],
               what="%s assigns map.control_scale on some paths only before it calls updateMapping: on the others the sub-automation keeps the scale of the parameter it was bound to before" % q13.split("::")[-1])

    # ---- R19.6
    um = u.function("AutomationMgr::updateMapping")
    read_fields = set()
    for x in A.walk(u.body(um)):
        if x.get("kind") == "MemberExpr" and x.get("name") in ("param_min", "param_max", "gain", "offset", "control_scale"):
            par = u.parent.get(x.get("id"))
            if not (par is not None and par.get("kind") == "BinaryOperator" and par.get("opcode") == "=" and A.strip_casts(A.kids(par)[0]).get("id") == x.get("id")):
                read_fields.add(x.get("name"))
    ctx.require({"param_min", "param_max", "gain", "offset"} <= read_fields, "updateMapping no longer reads param_min/param_max/gain/offset: %s" % sorted(read_fields))
    for q in ("AutomationMgr::createBinding", "AutomationMgr::setSlotSubPath"):
        fnq = u.function(q)
        top = A.kids(u.body(fnq))
        calls = [i_ for i_, s_ in enumerate(top) if any(_reaches_update(_call_name(c)) for c in A.walk(s_) if c.get("kind") in ("CallExpr", "CXXMemberCallExpr"))]
        ctx.require(len(calls) >= 1, "%s: no call that computes the mapping (updateMapping, directly or through a method of the unit) found" % q)
        calls = calls[-1:]     # what the mapping reads has to be stored before the LAST computation of it
        late = []
        for i_, s_ in enumerate(top):
            if i_ <= calls[0]:
                continue
            for x in A.walk(s_):
                if x.get("kind") in ("BinaryOperator", "CompoundAssignOperator") and x.get("opcode", "").endswith("=") and x.get("opcode") not in ("==", "!=", "<=", ">="):
                    l = A.strip_casts(A.kids(x)[0])
                    if l.get("kind") == "MemberExpr" and l.get("name") in read_fields:
                        late.append("%s at %s" % (member_text(l), A.where(x)))
        ctx.ob("R19.6", q, not late, site=A.where(top[calls[0]]), detail={"fields_read_by_updateMapping": sorted(read_fields), "stored_after_the_call": late},
               what="%s computes the mapping before it stores %s" % (q, late))

    # ---- R19.10 premise: where the bounds are taken, a logarithmic scale turns them into logarithms for every parameter type
    for q10 in ("AutomationMgr::createBinding", "AutomationMgr::setSlotSubPath"):
        f10 = u.function(q10)
        logs10 = [x for x in A.walk(u.body(f10)) if x.get("kind") == "BinaryOperator" and x.get("opcode") == "=" and
                  A.strip_casts(A.kids(x)[0]).get("kind") == "MemberExpr" and A.strip_casts(A.kids(x)[0]).get("name") in ("param_min", "param_max") and
                  any(A.callee_name(c_) in ("logf", "log", "log10f", "log2f") for c_ in A.calls_in(A.kids(x)[1]))]
        ctx.require(len(logs10) >= 2, "R19.10: %s no longer stores both bounds of a log-scale parameter as logarithms" % q10)
        for x in logs10:
            for anc in u.ancestors(x):
                if anc.get("kind") == "IfStmt" and any(y.get("kind") == "MemberExpr" and y.get("name") == "param_type" for y in A.walk(A.kids(anc)[0])):
                    raise AnalysisBroken("R19.10: in %s the logarithmic bounds depend on the parameter type; the rule is written for bounds that are logarithms for every type" % q10)

    # ---- R19.11: the loops that renumber the learn queue visit every slot
    ctx.rule("R19.11", "RENUMBER-ALL: a counted loop whose body decrements the queue position of a slot it indexes (the renumbering after a slot left the learn queue) runs over every slot: evaluated with 4 slots and every value of the enclosing index, it visits 0, 1, 2, 3 - a waiting slot in front of the one just served would otherwise keep its old position and never reach the head")
    n11 = 0
    for q11, fns11 in sorted(u.functions.items()):
        for fn11 in fns11:
            if u.body(fn11) is None or not (A.loc(fn11)[0] or "").endswith(UNIT):
                continue
            for lp in A.walk(u.body(fn11)):
                if lp.get("kind") != "ForStmt":
                    continue
                raw = lp.get("inner", [])
                if len(raw) < 5 or not isinstance(raw[0], dict) or raw[0].get("kind") != "DeclStmt":
                    continue
                ivs = [d_ for d_ in A.kids(raw[0]) if d_.get("kind") == "VarDecl"]
                if len(ivs) != 1:
                    continue
                iv = ivs[0]["id"]
                # the body decrements a sentinel field of an element indexed by the loop variable, and no loop nested deeper does
                decs = []
                for x in A.walk(raw[4]):
                    t_ = None
                    if x.get("kind") == "UnaryOperator" and x.get("opcode") == "--":
                        t_ = A.strip_casts(A.kids(x)[0])
                    elif x.get("kind") == "CompoundAssignOperator" and x.get("opcode") == "-=":
                        t_ = A.strip_casts(A.kids(x)[0])
                    if t_ is not None and t_.get("kind") == "MemberExpr" and t_.get("referencedMemberDecl") in sentinel and \
                            any(y.get("kind") == "DeclRefExpr" and (y.get("referencedDecl") or {}).get("id") == iv for y in A.walk(t_)):
                        decs.append(x)
                if not decs:
                    continue
                n11 += 1
                outer = [y["referencedDecl"]["id"] for part in (raw[0], raw[2]) if isinstance(part, dict) for y in A.walk(part)
                         if y.get("kind") == "DeclRefExpr" and (y.get("referencedDecl") or {}).get("kind") in ("VarDecl", "ParmVarDecl") and y["referencedDecl"]["id"] != iv]
                bad11 = []
                try:
                    for ov in (range(4) if outer else [None]):
                        env11 = {o_: ov for o_ in outer} if outer else {}

                        def hook11(n_, ev_):
                            if n_.get("kind") == "MemberExpr" and n_.get("name") == "nslots":
                                return 4
                            # a helper that is handed the number of slots as a parameter (its call sites pass nslots)
                            if n_.get("kind") == "DeclRefExpr" and (n_.get("referencedDecl") or {}).get("kind") == "ParmVarDecl" and \
                                    FD.ctype(A.qtype(n_))[0] == "int" and (n_["referencedDecl"].get("name") or "").lower() in ("nslots", "n", "count", "num_slots", "n_slots", "size"):
                                return 4
                            return NotImplemented
                        ev11 = FD.Eval(env=env11, node_hook=hook11, max_steps=400)
                        ev11.run(raw[0])
                        seen11 = []
                        for _ in range(8):
                            if not ev11.ev(raw[2]):
                                break
                            seen11.append(ev11.env[iv])
                            ev11.ev(raw[3])
                        if sorted(seen11) != [0, 1, 2, 3]:
                            bad11.append({"enclosing_index": ov, "slots_visited": seen11})
                except FD.Unknown as e:
                    raise AnalysisBroken("R19.11: loop header in %s not evaluable: %s" % (q11, e))
                ctx.ob("R19.11", "%s: renumbering loop@%s" % (q11, A.loc(lp)[1]), not bad11, site=A.where(lp), detail={"mismatches": bad11[:4]},
                       key="R19.11:%s" % q11,
                       what="%s renumbers the learn queue over the slots %s only (of 0..3): a waiting slot outside that range keeps its old position" % (q11, bad11[0]["slots_visited"] if bad11 else ""))
    ctx.require(n11 >= 1, "R19.11: no counted renumbering loop found")

    # ---- R19.2 / R19.10: setSlotSub evaluated as a whole function on a model automation; the older reading of the two emit
    # branches remains for a function the evaluation cannot follow
    from ..rules import slotmap as SM
    fn2 = u.function("AutomationMgr::setSlotSub")
    try:
        sm = SM.check(u)
    except FD.Unknown as e:
        sm = None
        ctx.note("R19.2: setSlotSub not evaluable as a whole (%s); its emit branches are read instead" % e)
    if sm is not None:
        for tag in "if":
            r_ = sm[tag]
            ctx.ob("R19.10", "setSlotSub '%s'" % tag, not r_["bad_exp"], site=A.where(fn2), detail={"mismatches": r_["bad_exp"][:4], "cases": r_["cases"]},
                   key="R19.10:setSlotSub:%s" % tag,
                   what="setSlotSub '%s': for a logarithmic scale the bounds are stored as logarithms, but the emitted value goes through exp %s - the message carries the logarithm of the value (below the declared minimum), or a linear value exponentiated" % (tag, [(w["log_scale"], w["exp_applied"]) for w in r_["bad_exp"][:2]]))
            ctx.ob("R19.2", "setSlotSub '%s'" % tag, not r_["bad"], site=A.where(fn2), detail={"cases": r_["cases"], "mismatches": r_["bad"][:4], "evaluated": "whole function"},
                   what="setSlotSub '%s': the emitted value is not clamp(value*(b-a)+a, min, max) up to a monotone library function: %s" % (tag, r_["bad"][:2]))
        ctx.ob("R19.2", "setSlotSub 'T'", not sm["T"]["bad"], site=A.where(fn2), detail={"cases": sm["T"]["cases"], "mismatches": sm["T"]["bad"][:3]},
               what="setSlotSub: the toggle branch does not emit exactly T or F without arguments: %s" % sm["T"]["bad"][:2])
        ctx.ob("R19.2", "setSlotSub: unknown tag / unused automation", not sm["other"]["bad"], site=A.where(fn2), detail={"mismatches": sm["other"]["bad"]},
               key="R19.2:setSlotSub:silent", what="setSlotSub emits a message for a type it does not know or for an unused automation: %s" % sm["other"]["bad"][:2])

    def _emit_branches():
        fn = u.function("AutomationMgr::setSlotSub")
        emits = [c for c in A.calls_in(u.body(fn), "rtosc_message")]
        ctx.require(len(emits) == 3, "setSlotSub: expected 3 emit sites, found %d" % len(emits))
        n2 = 0
        valp = u.params(fn)[2]
        # the mapped input: the variable(s) computed from the slot value parameter; the bounds: the variables read from param_min/max
        def _mentions_member(d, name):
            return any(y.get("kind") == "MemberExpr" and y.get("name") == name for y in A.walk(d))
        fvars = [d for d in A.walk(u.body(fn)) if d.get("kind") == "VarDecl" and A.kids(d)]
        inputs = {d["id"] for d in fvars if valp["id"] in _refs(A.kids(d)[-1])}
        lo_ids = {d["id"] for d in fvars if _mentions_member(d, "param_min")}
        hi_ids = {d["id"] for d in fvars if _mentions_member(d, "param_max")}
        ctx.require(inputs and lo_ids and hi_ids, "setSlotSub: mapped value / bounds variables not found")
        LO, HI = 2.0, 10.0
        for c in emits:
            fmt = OF.format_literals(A.kids(c)[4])
            if fmt is None or fmt in (["T", "F"], ["F", "T"]):
                continue
            tag = fmt[0]
            # enclosing compound statement of the branch
            br = None
            for p in u.ancestors(c):
                if p.get("kind") == "CompoundStmt":
                    br = p
                    break
            stmts = A.kids(br)
            ci = next(i for i, s_ in enumerate(stmts) if _contains(s_, c))
            arg = A.kids(c)[5] if len(A.kids(c)) > 5 else None
            # where the evaluation starts: just after the mapped value is computed if that happens inside the branch
            start = 0
            inner_in = None
            for i, s_ in enumerate(stmts[:ci]):
                if s_.get("kind") == "DeclStmt":
                    for d in A.kids(s_):
                        if d.get("id") in inputs:
                            start, inner_in = i + 1, d["id"]
            bad = []
            foreign = []
            exp_applied = {}
            for scale in (0, 1):
                for x0 in (0.5, 2.0, 2.5, 9.75, 10.0, 11.5):
                    env = {i_: x0 for i_ in (inputs if inner_in is None else {inner_in})}
                    env.update({i_: LO for i_ in lo_ids})
                    env.update({i_: HI for i_ in hi_ids})

                    def hook(n, ev, scale=scale):
                        if n.get("kind") == "MemberExpr" and n.get("name") == "control_scale":
                            return scale
                        return NotImplemented

                    def call(name, vals, n, scale=scale, x0=x0):
                        if name in MONOTONE and len(vals) == 1:
                            if name.startswith("exp"):
                                exp_applied.setdefault((scale, x0), 0)
                                exp_applied[(scale, x0)] += 1
                            return vals[0]          # a monotone map keeps the value inside the image of [min,max]: tracked as identity
                        fns = [f for f in u.functions.get(name, []) if u.body(f) is not None]
                        if len(fns) == 1:
                            return ev.call_function(u, fns[0], vals)
                        foreign.append(name)
                        return float("nan")
                    ev = FD.Eval(env=env, node_hook=hook, call=call)
                    try:
                        for s_ in stmts[start:ci]:
                            ev.run(s_)
                        out = ev.ev(arg) if arg is not None else None
                    except FD.Unknown as e:
                        raise AnalysisBroken("R19.2: '%s' branch not evaluable: %s" % (tag, e))
                    except (ValueError, OverflowError):
                        out = None
                    exp = min(max(x0, LO), HI)
                    if out is None or out != out or (float(out) != exp if tag == "f" else int(out) != int(exp)):
                        bad.append({"mapped": x0, "log_scale": scale, "emitted": None if out is None or out != out else out, "expected": exp})
            # R19.10: the bounds of a log-scale parameter are kept as logarithms (createBinding / setSlotSubPath do so for every
            # type), so the emitted value must go through exp exactly when the scale is logarithmic
            wrong10 = [{"log_scale": sc, "mapped": x_, "exp_applied": exp_applied.get((sc, x_), 0)} for sc in (0, 1) for x_ in (0.5, 2.0, 2.5, 9.75, 10.0, 11.5)
                       if exp_applied.get((sc, x_), 0) != sc]
            ctx.ob("R19.10", "setSlotSub '%s'" % tag, not wrong10, site=A.where(c), detail={"mismatches": wrong10[:4]},
                   key="R19.10:setSlotSub:%s" % tag,
                   what="setSlotSub '%s': for a logarithmic scale the bounds are stored as logarithms, but the emitted value goes through exp %s - the message carries the logarithm of the value (below the declared minimum), or a linear value exponentiated" % (tag, [(w["log_scale"], w["exp_applied"]) for w in wrong10[:2]]))
            n2 += 1
            ctx.ob("R19.2", "setSlotSub '%s'" % tag, arg is not None and not bad, site=A.where(c),
                   detail={"cases": 12, "mismatches": bad[:4], "non_monotone_calls": sorted(set(foreign))},
                   what="setSlotSub '%s': the emitted value is not clamp(mapped, min, max) up to a monotone library function: %s %s" % (tag, bad[:2], sorted(set(foreign))))
        ctx.require(n2 == 2, "R19.2: expected the 'i' and 'f' emit branches")
        # toggle branch: emits only T/F
        tf = [c for c in emits if OF.format_literals(A.kids(c)[4]) in (["T", "F"], ["F", "T"])]
        ctx.ob("R19.2", "setSlotSub 'T'", len(tf) == 1 and len(A.kids(tf[0])) == 5, site=A.where(tf[0]) if tf else A.where(fn),
               what="setSlotSub: the toggle branch does not emit exactly T or F without arguments")


    if sm is None:
        _emit_branches()

    # ---- R19.3
    vtab = OF.va_table(ctx.ast("rtosc.c"))
    seen = set()
    for d in u.decls:
        for call, name, fmt, actuals in OF.variadic_calls(u, d):
            if call.get("id") in seen or not (A.loc(call)[0] or "").endswith(UNIT):
                continue
            seen.add(call.get("id"))
            res = OF.check_call(u, vtab, call, name, fmt, actuals)
            if res is None:
                continue
            for ok, tol, det in res:
                ctx.ob("R19.3", "%s \"%s\"@%s" % (name, det["format"], A.loc(call)[1]), ok, site=A.where(call), detail=det,
                       what="%s(...,\"%s\",...): %s" % (name, det["format"], "; ".join(det["problems"])))
    ctx.require_count("R19.3", 4)

    # ---- R19.4
    em = MK.emitted_by_macro(ctx.ast("meta_matrix.cpp"))
    produced = {}
    for mac in ("rLinear", "rLog", "rLogWithLogmin"):
        for k, v in em[mac]:
            produced.setdefault(k, set()).add((mac, v))
    free = {"internal": "generic property set by rProp(internal) / user code", "no learn": "user-supplied opt-out property"}
    for q in ("AutomationMgr::createBinding", "AutomationMgr::setSlotSubPath"):
        fn = u.function(q)
        lk = MK.lookups(u, u.body(fn))
        ctx.require(len(lk) >= 8, "%s: only %d metadata lookups found" % (q, len(lk)))
        keys = sorted({k for k, _, _ in lk if k is not None})
        unknown = [k for k in keys if k not in produced and k not in free]
        dyn = [x for k, x, _ in lk if k is None]
        ctx.ob("R19.4", q + ":keys", not unknown and not dyn and {"min", "max", "scale", "logmin"} <= set(keys), site=A.where(fn),
               detail={"looked_up": keys, "emitted_by_range_macros": sorted(produced), "unknown": unknown},
               what="%s looks up metadata key(s) %s that no range macro emits (emitted: %s)" % (q, unknown or keys, sorted(produced)))
        # the log test: strstr(meta["scale"], LIT): LIT occurs in rLog's scale value and not in rLinear's
        def _is_scale(e):
            if any(k == "scale" for k, _, _ in MK.lookups(u, e)):
                return True
            d_ = u.by_id.get(A.ref_id(e)) if A.ref_id(e) else None          # a local holding the looked-up value
            return d_ is not None and d_.get("kind") == "VarDecl" and A.kids(d_) and any(k == "scale" for k, _, _ in MK.lookups(u, A.kids(d_)[-1]))
        lits = [A.string_literal(A.kids(c)[2]) for c in A.calls_in(u.body(fn), "strstr") if _is_scale(A.kids(c)[1])]
        lin = dict(em["rLinear"]).get("scale") or ""
        lg = dict(em["rLog"]).get("scale") or ""
        lg2 = dict(em["rLogWithLogmin"]).get("scale") or ""
        ok = len(lits) == 1 and lits[0] and lits[0] in lg and lits[0] in lg2 and lits[0] not in lin
        ctx.ob("R19.4", q + ":log-scale-test", ok, site=A.where(fn), detail={"needle": lits, "rLinear": lin, "rLog": lg},
               what="%s recognises a logarithmic scale by %s, which does not separate `%s` from `%s`" % (q, lits, lg, lin))


def _refs(e):
    return {x["referencedDecl"]["id"] for x in A.walk(e) if x.get("kind") == "DeclRefExpr"}


def _terminates(st):
    """the statement always leaves the enclosing iteration / function"""
    k = st.get("kind")
    if k in ("ContinueStmt", "BreakStmt", "ReturnStmt", "GotoStmt"):
        return True
    if k == "CompoundStmt" and A.kids(st):
        return _terminates(A.kids(st)[-1])
    return False


def _guards(u, x):
    """[(condition, polarity)] known to hold at x: enclosing if/else branches, and earlier `if(c) continue/break/return;`
    statements of the enclosing blocks (early-exit guards) up to the function."""
    conds = []
    child = x
    for p in u.ancestors(x):
        if p.get("kind") == "IfStmt":
            ks = A.kids(p)
            if _contains(ks[1], child):
                conds.append((ks[0], True))
            elif len(ks) > 2 and _contains(ks[2], child):
                conds.append((ks[0], False))
        elif p.get("kind") == "CompoundStmt":
            for st in A.kids(p):
                if st is child or _contains(st, child):
                    break
                if st.get("kind") == "IfStmt" and len(A.kids(st)) == 2 and _terminates(A.kids(st)[1]):
                    conds.append((A.kids(st)[0], False))
        if p.get("kind") in ("CXXMethodDecl", "FunctionDecl", "ForStmt", "WhileStmt", "DoStmt") and p.get("kind") in ("CXXMethodDecl", "FunctionDecl"):
            break
        child = p
    return conds


def _same_index_excluded(conds, a, b):
    """a guard of the form `i != id` / `&x != &y` between the two elements is present (not the case in this code base today)"""
    return False


def _queue_witness(u, sentinel, member_text, x, tgt, is_sent, conds, cconds, binds, q):
    """an assignment of queue positions under which the guards hold although a position in them is the sentinel -1"""
    # a local that holds a copy of a queue position (`const int pos = s.learning;`, written nowhere else) stands for it
    copies = {}
    fn_ = None
    for a_ in u.ancestors(x):
        if a_.get("kind") in ("CXXMethodDecl", "FunctionDecl"):
            fn_ = a_
            break
    for c_, _ in conds + cconds:
        for y in A.walk(c_):
            if y.get("kind") == "DeclRefExpr" and (y.get("referencedDecl") or {}).get("kind") == "VarDecl":
                d_ = u.by_id.get(y["referencedDecl"]["id"])
                if d_ is None or not A.kids(d_) or d_["id"] in copies:
                    continue
                init_ = A.strip_casts(A.kids(d_)[-1])
                if init_.get("kind") == "MemberExpr" and init_.get("referencedMemberDecl") in sentinel:
                    written = fn_ is not None and any(
                        (z.get("kind") in ("BinaryOperator", "CompoundAssignOperator") and z.get("opcode", "").endswith("=") and z.get("opcode") not in ("==", "!=", "<=", ">=") and A.ref_id(A.kids(z)[0]) == d_["id"]) or
                        (z.get("kind") == "UnaryOperator" and z.get("opcode") in ("++", "--") and A.ref_id(A.kids(z)[0]) == d_["id"]) for z in A.walk(fn_))
                    if not written:
                        copies[d_["id"]] = member_text(init_)

    def relevant(c):
        # a guard that reads no queue position and no helper parameter only narrows the cases: leaving it out is conservative
        if any(y.get("kind") == "DeclRefExpr" and (y.get("referencedDecl") or {}).get("id") in copies for y in A.walk(c)):
            return True
        return any(m.get("kind") == "MemberExpr" and m.get("referencedMemberDecl") in sentinel for m in A.walk(c)) or \
            any(y.get("kind") == "DeclRefExpr" and (y["referencedDecl"]["id"] in binds or (y["referencedDecl"].get("kind") == "VarDecl" and "bool" in A.qtype(y))) for y in A.walk(c))
    dropped = [c for c, _ in conds + cconds if not relevant(c)]
    conds = [(c, pol) for c, pol in conds if relevant(c)]
    cconds = [(c, pol) for c, pol in cconds if relevant(c)]
    allc = conds + cconds
    exprs = sorted({member_text(m) for c, _ in allc for m in A.walk(c) if m.get("kind") == "MemberExpr" and m.get("referencedMemberDecl") in sentinel} |
                   {copies[y["referencedDecl"]["id"]] for c, _ in allc for y in A.walk(c) if y.get("kind") == "DeclRefExpr" and (y.get("referencedDecl") or {}).get("id") in copies} |
                   {member_text(m) for a in binds.values() for m in A.walk(a) if m.get("kind") == "MemberExpr" and m.get("referencedMemberDecl") in sentinel})
    me = member_text(tgt) if is_sent else None
    # plain local variables in the conditions are free (both truth values are tried) unless they are
    # assigned inside the loop that encloses the decrement: then the renumbering depends on the scan position
    free_ids = sorted({y["referencedDecl"]["id"] for c, _ in allc for y in A.walk(c) if y.get("kind") == "DeclRefExpr" and
                       y["referencedDecl"].get("kind") == "VarDecl" and "bool" in A.qtype(y)})
    loop = None
    for p2 in u.ancestors(x):
        if p2.get("kind") in ("ForStmt", "WhileStmt", "DoStmt"):
            loop = p2
            break
    carried = []
    if loop is not None:
        for y in A.walk(loop):
            if y.get("kind") in ("BinaryOperator", "CompoundAssignOperator") and y.get("opcode", "").endswith("=") and y.get("opcode") not in ("==", "!=", "<=", ">=") and A.ref_id(A.kids(y)[0]) in free_ids:
                carried.append(u.by_id[A.ref_id(A.kids(y)[0])].get("name"))
    if carried and is_sent:
        return {"reason": "the renumbering of other slots is conditioned on `%s`, which the same loop over the slots assigns: only slots visited after that point are renumbered" % carried[0]}
    if not exprs:
        # a guard on a local that was computed from the slots (the result of a search, a pointer to the slot found) may
        # well stand for a queue position: it is not followed, so there is no verdict rather than a report
        for c in dropped:
            for y in A.walk(c):
                d_ = u.by_id.get((y.get("referencedDecl") or {}).get("id")) if y.get("kind") == "DeclRefExpr" else None
                if d_ is not None and d_.get("kind") == "VarDecl" and A.kids(d_) and any(z.get("kind") in ("CallExpr", "CXXMemberCallExpr", "MemberExpr", "LambdaExpr") for z in A.walk(A.kids(d_)[-1])):
                    raise AnalysisBroken("R19.5: %s: the decrement is guarded through the local `%s`, whose relation to the queue positions is not followed" % (q, d_.get("name")))
        return {"reason": "no enclosing condition mentions a queue position"}
    for vals in itertools.product((-1, 1, 2, 3), repeat=len(exprs)):
        asg = dict(zip(exprs, vals))

        def hook(n, ev, asg=asg):
            if n.get("kind") == "MemberExpr" and n.get("referencedMemberDecl") in sentinel:
                return asg[member_text(n)]
            if n.get("kind") == "DeclRefExpr" and (n.get("referencedDecl") or {}).get("id") in copies:
                return asg[copies[n["referencedDecl"]["id"]]]
            return NotImplemented
        try:
            sat = False
            for fv in itertools.product((0, 1), repeat=len(free_ids)):
                env = dict(zip(free_ids, fv))
                if not all(bool(FD.Eval(env=env, node_hook=hook).ev(c)) == pol for c, pol in cconds):
                    continue
                env2 = dict(env)
                for pid, arg in binds.items():
                    try:
                        env2[pid] = FD.Eval(env=env, node_hook=hook).ev(arg)
                    except FD.Unknown:
                        pass          # an argument that is not a queue position: unbound, an error only if a guard reads it
                if all(bool(FD.Eval(env=env2, node_hook=hook).ev(c)) == pol for c, pol in conds):
                    sat = True
                    break
        except FD.Unknown as e:
            raise AnalysisBroken("R19.5: condition not evaluable in %s: %s" % (q, e))
        if sat and any(v == -1 for k, v in asg.items() if k != me):
            return asg
        if sat and me is not None and asg.get(me) == -1:
            return asg
        # the position compared against (read in place, not through a by-value helper parameter) may be the very
        # element the loop is at: if the guard admits that case the loop moves its own threshold while it runs
        if sat and me is not None:
            decl_of = {member_text(m): m.get("referencedMemberDecl") for c, _ in conds for m in A.walk(c) if m.get("kind") == "MemberExpr" and m.get("referencedMemberDecl") in sentinel}
            for k2, v2 in asg.items():
                if k2 != me and k2 in decl_of and decl_of[k2] == tgt.get("referencedMemberDecl") and v2 == asg[me] and not _same_index_excluded(conds, me, k2):
                    return dict(asg, reason="`%s` may be the element `%s` itself (nothing excludes it): the loop then decrements the position it compares against while it is still running" % (k2, me))
    return None


def _contains(root, node):
    nid = node.get("id")
    for x in A.walk(root):
        if x.get("id") == nid:
            return True
    return False


def _assigns_member(y, name):
    if y.get("kind") in ("BinaryOperator", "CompoundAssignOperator") and y.get("opcode") == "=":
        l = A.strip_casts(A.kids(y)[0])
        return l.get("kind") == "MemberExpr" and l.get("name") == name
    return False


class _Undecided(Exception):
    pass


def _exits_assign(stmts, name, assigned):
    """walks a statement list with early returns: -> (every `return` met so far happens with the member assigned,
    state at the end of the list: True / False, or None when no path falls through).  Loops and switches that
    contain a return or an assignment of the member are not decided (_Undecided)."""
    ok = True
    for st in stmts:
        k = st.get("kind")
        if k == "ReturnStmt":
            return ok and assigned, None
        if k == "CompoundStmt":
            o_, a_ = _exits_assign(A.kids(st), name, assigned)
            ok = ok and o_
            if a_ is None:
                return ok, None
            assigned = a_
            continue
        if k == "IfStmt":
            ks = A.kids(st)
            lead = (1 if st.get("hasInit") else 0) + (1 if st.get("hasVar") else 0)
            if any(_assigns_member(y_, name) for y_ in A.walk(ks[lead])):
                raise _Undecided()
            br = ks[lead + 1:]
            res = []
            for b_ in br:
                res.append(_exits_assign(A.kids(b_) if b_.get("kind") == "CompoundStmt" else [b_], name, assigned))
            if len(br) == 1:
                res.append((True, assigned))
            ok = ok and all(r_[0] for r_ in res)
            falls = [r_[1] for r_ in res if r_[1] is not None]
            if not falls:
                return ok, None
            assigned = all(falls)
            continue
        if k in ("ForStmt", "WhileStmt", "DoStmt", "SwitchStmt", "CXXForRangeStmt", "GotoStmt", "LabelStmt", "CXXTryStmt"):
            if any(y_.get("kind") == "ReturnStmt" or _assigns_member(y_, name) for y_ in A.walk(st)):
                raise _Undecided()
            continue
        if any(_assigns_member(y_, name) for y_ in A.walk(st)):
            assigned = True
    return ok, assigned


def _definitely_assigns(st, name):
    """every path through the statement assigns the member (if: both branches; a block: one of its statements; no loops)"""
    k = st.get("kind")
    if k in ("CompoundStmt",):
        return any(_definitely_assigns(s_, name) for s_ in A.kids(st))
    if k == "IfStmt":
        ks = A.kids(st)
        lead = (1 if st.get("hasInit") else 0) + (1 if st.get("hasVar") else 0)
        branches = ks[lead + 1:]
        return len(branches) == 2 and all(_definitely_assigns(b_, name) for b_ in branches)
    if k in ("ForStmt", "WhileStmt", "DoStmt", "SwitchStmt", "CXXForRangeStmt"):
        return False
    if k in ("ExprWithCleanups", "ParenExpr"):
        return any(_definitely_assigns(s_, name) for s_ in A.kids(st))
    if _assigns_member(st, name):
        return True
    if k == "BinaryOperator" and st.get("opcode") == ",":
        return any(_definitely_assigns(s_, name) for s_ in A.kids(st))
    if k == "ConditionalOperator":
        ks = A.kids(st)
        return all(_definitely_assigns(b_, name) for b_ in ks[1:])
    return False
