"""C08 - Bundles (DESIGN.md section 2, C08)."""
from .. import astlib as A
from .. import fdeval as FD
from ..facts import AnalysisBroken
from ..rules import byteorder as BO
from ..rules import codec as C
from . import C02

LEVEL = "other"
EXPLANATION = ("Structural conditions for lossless bundles, for all element sequences: (R08.1) rtosc_bundle and append_bundle "
               "write only under an exact capacity guard; (R08.2) every length/time-tag emit and extract sequence is big-endian; "
               "(R08.3) the writer, the size pre-computation and the four walkers (bundle_ring_length, rtosc_bundle_elements / "
               "fetch / size) advance by the same stride 4+size for every size in 4..32; (R08.4) the bundle magic is the same 8 "
               "bytes at the writer, at rtosc_bundle_p and in rtosc_message_ring_length; (R08.5) time tag at offset 8 and first "
               "size field at offset 16 for writer and all readers; (R08.6) length prefix, memcpy length and cursor advance "
               "are the same value. Byte identity of elements for all nestings is not decided.")
TRUSTED = ["clang 14 AST/-O0 IR", "sa/fdeval.py", "sa/rules/codec.py", "sa/rules/guard.py"]
ASSUMPTIONS = ["element sizes are multiples of 4 (OSC messages and bundles always are)"]

SIZES = list(range(4, 36, 4))
MAGIC = "#bundle"


def _stride_of_assign(u, stmt, cur_id, size_ids=(), size_call=None, base=16):
    """Evaluate `cursor += E` for each size; returns {size: byte delta}"""
    out = {}
    for s in SIZES:
        env = {cur_id: base}
        for i in size_ids:
            env[i] = s
        ev = FD.Eval(env=env, call=(lambda name, args, n, s=s: s if name == size_call else (_ for _ in ()).throw(FD.Unknown("call " + str(name), n))))
        ev.run(stmt)
        out[s] = ev.env[cur_id] - base
    return out


def _string_source(u, e):
    """the string a copy call reads: a literal, or a const char array initialised with one"""
    lit = A.string_literal(e)
    if lit is not None:
        return lit
    e0 = A.strip_casts(e)
    if e0.get("kind") == "DeclRefExpr":
        d = u.by_id.get((e0.get("referencedDecl") or {}).get("id"))
        if d is not None and d.get("kind") == "VarDecl" and "const" in A.stype(d).split() and A.kids(d):
            return A.string_literal(A.kids(d)[-1])
    return None


def _eval_bundle_p(u, fn, data):
    """rtosc_bundle_p evaluated on a buffer (the bytes, then zeros)"""
    BASE_ = 1 << 20

    def deref(a, n):
        k = a - BASE_
        if 0 <= k < len(data) + 16:
            return data[k] if k < len(data) else 0
        raise FD.Unknown("read at offset %d" % k, n)

    def text(v, n):
        if isinstance(v, str):
            return v.encode("latin-1")
        out = bytearray()
        while True:
            c = deref(v + len(out), n)
            if not c:
                return bytes(out)
            out.append(c)

    def hook(n, ev):
        k = n.get("kind")
        ks = A.kids(n)
        if k == "StringLiteral":
            return A.string_literal(n)
        if k == "ImplicitCastExpr" and n.get("castKind") == "ArrayToPointerDecay" and ks:
            s_ = _string_source(u, ks[0])
            if s_ is not None:
                return s_
        if k == "DeclRefExpr" and (n.get("referencedDecl") or {}).get("id") not in ev.env:
            s_ = _string_source(u, n)
            if s_ is not None:
                return s_
        return NotImplemented

    def call(nm, v, n):
        nm = nm.replace("__builtin_", "")
        if nm == "strcmp":
            a, b = text(v[0], n), text(v[1], n)
            return 0 if a == b else (1 if a > b else -1)
        if nm in ("strncmp", "memcmp"):
            def first(x):
                if isinstance(x, str):
                    return (x.encode("latin-1") + bytes(v[2]))[:v[2]]
                return bytes(deref(x + i, n) for i in range(v[2]))
            a, b = first(v[0]), first(v[1])
            if nm == "strncmp":
                a, b = a.split(b"\0")[0], b.split(b"\0")[0]
            return 0 if a == b else (1 if a > b else -1)
        if nm == "strlen":
            return len(text(v[0], n))
        fs_ = [f_ for f_ in u.functions.get(nm, []) if u.body(f_) is not None]
        if len(fs_) == 1:
            return holder["ev"].call_function(u, fs_[0], v)
        raise FD.Unknown("call to %s" % nm, n)
    holder = {}
    ev = FD.Eval(deref=deref, node_hook=hook, call=call, max_steps=2000)
    holder["ev"] = ev
    return ev.call_function(u, fn, [BASE_])


def _const_value(u, e):
    v = A.int_literal(e)
    if v is not None:
        return v
    e0 = A.strip_casts(e)
    if e0.get("kind") == "UnaryExprOrTypeTraitExpr" and e0.get("name") == "sizeof" and A.kids(e0):
        import re as _re
        m = _re.search(r'\[(\d+)\]\s*$', A.qtype(A.strip(A.kids(e0)[0])) or "")
        if m and "char" in A.qtype(A.strip(A.kids(e0)[0])):
            return int(m.group(1))
    try:
        r = FD.Eval().ev(e)
        return r if isinstance(r, int) else None
    except FD.Unknown:
        return None


def run(ctx):
    u = ctx.ast("rtosc.c")
    us = ctx.ast("subtree-serialize.cpp")
    ctx.rule("R08.1", "GUARD: every write of rtosc_bundle / append_bundle through the destination is dominated by the fits-edge of an exact capacity comparison; the fail path returns 0")
    ctx.rule("R08.2", "BYTEORDER: emplace_uint32/64, extract_uint32/64 (all copies) and the size decode of bundle_ring_length are big-endian on consecutive bytes")
    ctx.rule("R08.3", "STRIDE: writer, size pre-computation and the four walkers advance by 4+size for every element size 4..32")
    ctx.rule("R08.4", "MAGIC: the 8 magic bytes written, compared by rtosc_bundle_p and tested by rtosc_message_ring_length are \"#bundle\\0\"")
    ctx.rule("R08.5", "HEADER: magic at offset 0, time tag at offset 8, first size field at offset 16 - for the writer and every reader")
    ctx.rule("R08.7", "TERMINATOR: a bundle is followed by a zero size field for every capacity: rtosc_bundle zero-fills its whole destination (memset(buffer,0,len) on the success path) or append_bundle writes a zero size field after the appended element")
    ctx.rule("R08.8", "SIZE-IS-PREFIX: rtosc_bundle_size returns the stored size field of the element (a value obtained by extract_uint32 of the walking cursor), not a re-measurement of the element's contents (a nested bundle is copied without its own terminator)")
    ctx.rule("R08.9", "WALKERS-ON-LAYOUT: rtosc_bundle_elements / _fetch / _size and bundle_ring_length, evaluated on probe bundles laid out as OSC 1.0 says (header 16 bytes, big-endian size + content per element, zero size field at the end; seven lists of element sizes), return the element count, the element offsets, the stored sizes and the bundle length")
    ctx.rule("R08.6", "PREFIX-COPY: the value written as length prefix, the memcpy length and the cursor advance (minus the 4-byte prefix) are the same variable")

    # ---- R08.1 (shared machinery with C02)
    ctx.rules["_dom"] = ctx.rules["R08.1"]
    ctx.rules["_fail"] = ctx.rules["R08.1"]
    before = len(ctx.obs)
    for unit, pat, bi, li, sizer, null_ok in C02.WRITERS[1:]:
        C02.writer_obligations(ctx, "_dom", "_fail", unit, pat, bi, li, sizer, null_ok)
    for o in ctx.obs[before:]:
        o.key = o.key.replace("_dom", "R02.1").replace("_fail", "R02.2")
        o.rule = "R08.1"
    del ctx.rules["_dom"], ctx.rules["_fail"]
    ctx.require_count("R08.1", 8)

    # ---- R08.2
    want = {("rtosc.c", "emplace_uint32"), ("rtosc.c", "emplace_uint64"), ("rtosc.c", "extract_uint32"), ("rtosc.c", "extract_uint64"),
            ("rtosc.c", "bundle_ring_length"), ("subtree-serialize.cpp", "emplace_uint32")}
    # the time tag as the reader hands it out: rtosc_bundle_timetag evaluated as a whole on byte patterns behind the magic
    try:
        badt, npt = BO.eval_extractor(u, u.function("rtosc_bundle_timetag"), 8, offset=8)
    except FD.Unknown as e:
        raise AnalysisBroken("R08.2: rtosc_bundle_timetag is not evaluable on byte patterns: %s" % e)
    ctx.ob("R08.2", "rtosc.c:rtosc_bundle_timetag evaluated", not badt, site=A.where(u.function("rtosc_bundle_timetag")), detail={"patterns": npt, "mismatches": badt[:4]},
           key="R08.2:rtosc.c:rtosc_bundle_timetag:evaluated",
           what="rtosc_bundle_timetag, evaluated on byte patterns, does not return the big-endian 64-bit value of bytes 8..15 (e.g. sign extension of a word whose top bit is set): %s" % badt[:2])
    for un, q in sorted(want):
        uu = ctx.ast(un)
        fn = uu.function(q, required=(q != "extract_uint64"))
        if fn is None:
            ctx.note("R08.2: %s:%s no longer exists; the 64-bit decode is decided on rtosc_bundle_timetag as a whole" % (un, q))
            continue
        runs = BO.sequences(uu, fn)
        if not runs:
            # the decode may live in a helper of the unit that the function calls (e.g. a big-endian word reader)
            for c in A.calls_in(uu.body(fn)):
                for h in uu.functions.get(A.callee_name(c) or "", []):
                    if uu.body(h) is not None and h is not fn:
                        runs = BO.sequences(uu, h)
                        if runs:
                            break
                if runs:
                    break
        # the four codec functions are also evaluated as a whole, whatever their spelling
        width = 8 if q.endswith("64") else 4
        evaluated = False
        if q.startswith("extract_uint") or q.startswith("emplace_uint"):
            try:
                badv, npat = (BO.eval_extractor if q.startswith("extract") else BO.eval_emplacer)(uu, fn, width)
                evaluated = True
                ctx.ob("R08.2", "%s:%s evaluated" % (un, q), not badv, site=A.where(fn), detail={"patterns": npat, "mismatches": badv[:4]},
                       key="R08.2:%s:%s:evaluated" % (un, q),
                       what="%s, evaluated on byte patterns, is not the big-endian %d-byte codec (e.g. sign extension of a byte >= 0x80, wrong order): %s" % (q, width, badv[:2]))
            except FD.Unknown as e:
                ctx.note("R08.2: %s:%s not evaluable as a whole (%s): decided on its byte sequence" % (un, q, e))
        if not runs and evaluated:
            ctx.note("R08.2: %s:%s is not written as a sequence of byte operations; decided by its evaluation" % (un, q))
            continue
        ctx.require(runs, "R08.2: no byte sequence found in %s:%s" % (un, q))
        for r in runs:
            ok, d = BO.check_run(r)
            ctx.ob("R08.2", "%s:%s:%d-byte %s" % (un, q, len(r), d["dir"]), ok, site=A.where(r[0][4]), detail=d,
                   what="%s in %s is not big-endian: shifts %s positions %s" % (d["data"], q, d["shifts"], d["byte_positions"]))
            if ok:
                try:
                    bad, ncases = BO.check_values(r)
                except FD.Unknown as e:
                    raise AnalysisBroken("R08.2: sequence at %s not evaluable: %s" % (A.where(r[0][4]), e))
                ctx.ob("R08.2", "%s:%s:%d-byte %s values" % (un, q, len(r), d["dir"]), not bad, site=A.where(r[0][4]),
                       detail={"patterns": ncases, "mismatches": bad[:4]},
                       what="%s of %s in %s does not reproduce the bytes (e.g. sign extension of bytes >= 0x80): %s" % (d["dir"], d["data"], q, bad[:2]))

    # ---- R08.3
    strides = {}
    # walkers over uint32_t* `lengths`
    for q in ("rtosc_bundle_elements", "rtosc_bundle_fetch", "rtosc_bundle_size"):
        fn = u.function(q)
        cands = [x for x in A.walk(u.body(fn)) if x.get("kind") == "CompoundAssignOperator" and x.get("opcode") == "+=" and
                 any(A.callee_name(c) == "extract_uint32" for c in A.calls_in(x))]
        if not cands and any(A.callee_name(c) in ("rtosc_bundle_fetch", "rtosc_bundle_elements") for c in A.calls_in(u.body(fn))):
            ctx.note("%s delegates the walk to another walker" % q)
            continue
        if len(cands) != 1:
            ctx.note("%s: the walk is not a single `cursor += f(extract_uint32())` step; decided by R08.9 alone" % q)
            continue
        st = cands[0]
        cur = C.var_id(A.kids(st)[0])
        try:
            strides[q] = (_stride_of_assign(u, st, cur, size_call="extract_uint32"), A.where(st), A.src(st))
        except FD.Unknown as e:
            raise AnalysisBroken("R08.3: cannot evaluate `%s`: %s" % (A.src(st), e))
    # ring walker
    fn = u.function("bundle_ring_length")
    adv = C.local_decl(u, fn, "advance", required=False)
    cands = [x for x in A.walk(u.body(fn)) if x.get("kind") == "CompoundAssignOperator" and x.get("opcode") == "+="]
    cands = [x for x in cands if any(y.get("kind") == "DeclRefExpr" for y in A.walk(A.kids(x)[1]))]
    if len(cands) == 1:
        st = cands[0]
        cur = C.var_id(A.kids(st)[0])
        sz = C.refs(A.kids(st)[1]) - {cur}
        try:
            strides["bundle_ring_length"] = (_stride_of_assign(u, st, cur, size_ids=sz), A.where(st), A.src(st))
        except FD.Unknown as e:
            raise AnalysisBroken("R08.3: cannot evaluate `%s`: %s" % (A.src(st), e))
    else:
        ctx.note("bundle_ring_length: the walk is not a single `pos += 4+size` step; decided by R08.9 alone")
    # writer loops of rtosc_bundle: copy loop (cursor = buffer) and size pre-computation
    fn = u.function("rtosc_bundle")
    params = u.params(fn)
    loops = [x for x in A.walk(u.body(fn)) if x.get("kind") == "ForStmt"]
    if not loops:
        ctx.note("rtosc_bundle: no `for` loop over the elements in the function itself; its strides are decided by R08.10 alone")
    for k, lp in enumerate(loops):
        body = lp["inner"][4]
        assigned = [x for x in A.walk(body) if x.get("kind") == "CompoundAssignOperator" and x.get("opcode") == "+="]
        curs = {C.var_id(A.kids(x)[0]) for x in assigned}
        curs.discard(None)
        if not curs:
            continue
        sm = C.Summariser(u, curs, {})
        sm.len_calls = ("rtosc_message_length",)
        try:
            S = sm.summarise([body])
        except C.Unrecognised as e:
            ctx.note("rtosc_bundle loop #%d is not `cursor += 4 + length` (%s); decided by R08.10 alone" % (k, e))
            continue
        items = list(S.items)
        tab = {s: (4 + s if items in ([4, "len"], ["len", 4]) else None) for s in SIZES}
        strides["rtosc_bundle:loop#%d(%s)" % (k, ",".join(sorted(u.by_id[c].get("name") for c in curs)))] = (tab, A.where(lp), str(items))
    if sum(1 for k_ in strides if k_.startswith("rtosc_bundle:loop")) < 2:
        ctx.note("rtosc_bundle: fewer than two element loops of the known form; the writer's layout is decided by R08.10")
    for name, (tab, site, text) in strides.items():
        ok = all(tab.get(s) == 4 + s for s in SIZES)
        ctx.ob("R08.3", name, ok, site=site, detail={"expression": text, "stride_by_size": {str(s): tab.get(s) for s in SIZES}},
               what="%s advances by %s for element sizes %s, expected size+4" % (name, [tab.get(s) for s in SIZES[:4]], SIZES[:4]))

    # ---- R08.4
    fn = u.function("rtosc_bundle")
    lits = [_string_source(u, a) for c in A.calls_in(u.body(fn)) if A.callee_name(c) in ("strcpy", "memcpy", "strncpy") for a in A.kids(c)[2:3] if _string_source(u, a) is not None]
    ctx.require(lits, "R08.4: rtosc_bundle writes no string literal")
    ctx.ob("R08.4", "rtosc_bundle:magic-written", lits == [MAGIC], site=A.where(fn), detail={"literal": lits},
           what="rtosc_bundle writes magic %r, expected %r" % (lits, MAGIC))
    fn = u.function("rtosc_bundle_p")
    # evaluated on probe buffers: exactly the buffers that begin with the eight bytes "#bundle\0" are bundles
    P_PROBES = [(b"#bundle\0" + bytes(8), True), (b"#bundle\0", True), (b"#bundleX" + bytes(8), False), (b"#bundl\0\0" + bytes(8), False), (b"/a\0\0,\0\0\0", False),
                (b"\0\0\0\0", False), (b"#Bundle\0" + bytes(8), False), (b"/#bundle\0\0\0\0", False), (b"#bundle/x\0\0\0", False)]
    badp = []
    try:
        for data_, want_ in P_PROBES:
            got_ = _eval_bundle_p(u, fn, data_)
            if bool(got_) != want_:
                badp.append({"buffer": data_[:12].hex(), "is_bundle": bool(got_), "expected": want_})
        ctx.ob("R08.4", "rtosc_bundle_p:magic-compared", not badp, site=A.where(fn), detail={"probes": len(P_PROBES), "mismatches": badp[:4]},
               what="rtosc_bundle_p, evaluated on probe buffers, does not tell exactly the buffers that begin with \"#bundle\\0\" for bundles: %s" % badp[:3])
    except FD.Unknown as e_p:
        lits = [_string_source(u, a) for c in A.calls_in(u.body(fn)) if A.callee_name(c) in ("strcmp", "memcmp", "strncmp") for a in A.kids(c)[1:] if _string_source(u, a) is not None]
        rets = [x for x in A.walk(u.body(fn)) if x.get("kind") == "ReturnStmt"]
        neg = len(rets) == 1 and A.strip_casts(A.kids(rets[0])[0]).get("kind") == "UnaryOperator" and A.strip_casts(A.kids(rets[0])[0]).get("opcode") == "!"
        if not lits or not rets:
            raise AnalysisBroken("R08.4: rtosc_bundle_p is neither evaluable (%s) nor a negated comparison with a literal" % e_p)
        ctx.ob("R08.4", "rtosc_bundle_p:magic-compared", lits == [MAGIC] and neg, site=A.where(fn), detail={"literal": lits, "returns_negated_strcmp": neg},
               what="rtosc_bundle_p compares with %r (negated: %s), expected !strcmp(msg, %r)" % (lits, neg, MAGIC))
    fn = u.function("rtosc_message_ring_length")
    # which buffers are handed to bundle_ring_length: evaluated on probes (the test may be eight comparisons, a loop over a
    # table, a helper ...)
    from ..rules import bundlewalk as BW4
    try:
        badr = BW4.recognition(u)
    except FD.Unknown as e:
        raise AnalysisBroken("R08.4: rtosc_message_ring_length not evaluable on the recognition probes: %s" % e)
    ctx.ob("R08.4", "rtosc_message_ring_length:magic-tested", not badr, site=A.where(fn),
           detail={"probes": len(BW4.RECOG_PROBES), "mismatches": badr[:4]},
           what="rtosc_message_ring_length does not recognise a bundle by exactly the bytes %r: %s" % (MAGIC + "\0", badr[:3]))
    # the comparison must be a conjunction guarding the call of bundle_ring_length
    calls = list(A.calls_in(u.body(fn), "bundle_ring_length"))
    ctx.ob("R08.4", "rtosc_message_ring_length:dispatches-to-bundle_ring_length", len(calls) == 1, site=A.where(fn),
           what="rtosc_message_ring_length no longer hands bundles to bundle_ring_length")

    # ---- R08.5
    fn = u.function("rtosc_bundle")
    bufp = params[0]["id"]
    # the write cursor: the buffer parameter itself or a local char pointer started at it, whichever is advanced
    cursors = {bufp}
    for d in A.walk(u.body(fn)):
        if d.get("kind") == "VarDecl" and "*" in A.stype(d) and A.kids(d) and C.refs(A.kids(d)[-1]) == {bufp}:
            cursors.add(d["id"])
    advanced = {C.var_id(A.kids(x)[0]) for x in A.walk(u.body(fn)) if x.get("kind") == "CompoundAssignOperator" and x.get("opcode") == "+="} & cursors
    writer_by_shape = len(advanced) == 1
    if not writer_by_shape:
        ctx.note("rtosc_bundle: no single advancing write cursor (%d candidates); the writer's offsets are decided by R08.10 alone" % len(advanced))
    cur_id = advanced.pop() if writer_by_shape else None
    off = 0
    seen = {}
    for s in (A.kids(u.body(fn)) if writer_by_shape else []):
        e = A.strip(s)
        if e.get("kind") == "CompoundAssignOperator" and e.get("opcode") == "+=" and C.var_id(A.kids(e)[0]) == cur_id:
            v = _const_value(u, A.kids(e)[1])
            if v is None:
                break
            off += v
            continue
        for c in A.calls_in(s):
            n = A.callee_name(c)
            if n in ("strcpy", "memcpy", "strncpy") and C.refs(A.kids(c)[1]) == {cur_id} and _string_source(u, A.kids(c)[2]) is not None:
                seen["magic"] = off
            if n == "emplace_uint64" and C.refs(A.kids(c)[1]) == {cur_id}:
                seen["emplace_uint64"] = off
        if s.get("kind") == "ForStmt" and any(C.var_id(A.kids(x)[0]) == cur_id for x in A.walk(s) if x.get("kind") == "CompoundAssignOperator"):
            seen["elements"] = off
            break
    if writer_by_shape and set(seen) != {"magic", "emplace_uint64", "elements"}:
        ctx.note("rtosc_bundle: header writes not recognised by shape (%s); decided by R08.10 alone" % sorted(seen))
        writer_by_shape = False
    if writer_by_shape:
        ctx.ob("R08.5", "rtosc_bundle:offsets", seen == {"magic": 0, "emplace_uint64": 8, "elements": 16}, site=A.where(fn), detail=seen,
               what="rtosc_bundle lays out magic/time tag/elements at %s, expected 0/8/16" % seen)
    # the starting offsets of the readers and of rtosc_bundle_timetag are decided by R08.9 (layout evaluation)

    # ---- R08.6
    fn = u.function("rtosc_bundle")
    for k, lp in enumerate(loops):
        body = lp["inner"][4]
        em = [c for c in A.calls_in(body) if A.callee_name(c) == "emplace_uint32"]
        mc = [c for c in A.calls_in(body) if A.callee_name(c) in ("memcpy", "memmove")]
        if not em and not mc:
            continue
        adv = [x for x in A.walk(body) if x.get("kind") == "CompoundAssignOperator" and x.get("opcode") == "+=" and A.int_literal(A.kids(x)[1]) is None]
        ok = len(em) == 1 and len(mc) == 1 and len(adv) == 1
        ids = None
        if ok:
            ids = [A.ref_id(A.kids(em[0])[2]), A.ref_id(A.kids(mc[0])[3]), A.ref_id(A.kids(adv[0])[1])]
            if any(i_ is None for i_ in ids):
                # one of the three is an expression (`pos += 4+size`), not a plain variable: what the loop writes is decided
                # by the interpretation of the writer (R08.10), which compares every byte and the returned length
                ctx.note("rtosc_bundle copy loop: prefix / copy length / advance are not three plain variables; decided by R08.10")
                continue
            ok = ids[0] is not None and ids[0] == ids[1] == ids[2]
            # the variable is the measured length of the very message that is copied
            if ok:
                d = u.by_id[ids[0]]
                init = A.strip_casts(A.kids(d)[-1]) if A.kids(d) else None
                src_id = A.ref_id(A.kids(mc[0])[2])
                ok = init is not None and init.get("kind") == "CallExpr" and A.callee_name(init) == "rtosc_message_length" and A.ref_id(A.kids(init)[1]) == src_id
        ctx.ob("R08.6", "rtosc_bundle:copy-loop", ok, site=A.where(lp),
               what="rtosc_bundle: length prefix, memcpy length and cursor advance are not one and the same rtosc_message_length(msg) value")
    fns = us.function("append_bundle")
    em = [c for c in A.calls_in(us.body(fns)) if A.callee_name(c) == "emplace_uint32"]
    mc = [c for c in A.calls_in(us.body(fns)) if A.callee_name(c) in ("memcpy", "memmove")]
    ok = len(em) == 1 and len(mc) == 1
    det = {}
    if ok:
        ps = {p["id"]: p.get("name") for p in us.params(fns)}
        pref_dst = A.src(A.strip_casts(A.kids(em[0])[1]))
        pref_val = A.ref_id(A.kids(em[0])[2])
        cp_dst = A.src(A.strip_casts(A.kids(mc[0])[1]))
        cp_len = A.ref_id(A.kids(mc[0])[3])
        det = {"prefix_at": pref_dst, "prefix_value": ps.get(pref_val), "copy_to": cp_dst, "copy_len": ps.get(cp_len)}
        norm = lambda t: t.replace(" ", "").replace("(", "").replace(")", "")
        ok = pref_val is not None and pref_val == cp_len and norm(cp_dst) in (norm(pref_dst) + "+4", "4+" + norm(pref_dst))
    ctx.ob("R08.6", "append_bundle:prefix-copy", ok, site=A.where(fns), detail=det,
           what="append_bundle: length prefix / copy destination / copy length disagree: %s" % det)

    # the amount compared with max_len is the amount written (= the value returned)
    def _once_assigned_local(t):
        """initialiser of a local that is written nowhere else (stands for its value)"""
        if t.get("kind") != "DeclRefExpr":
            return None
        d = us.by_id.get((t.get("referencedDecl") or {}).get("id"))
        if d is None or d.get("kind") != "VarDecl" or not A.kids(d):
            return None
        for y in A.walk(us.body(fns)):
            if y.get("kind") in ("BinaryOperator", "CompoundAssignOperator") and y.get("opcode", "").endswith("=") and y.get("opcode") not in ("==", "!=", "<=", ">=") and A.ref_id(A.kids(y)[0]) == d["id"]:
                return None
            if y.get("kind") == "UnaryOperator" and y.get("opcode") in ("++", "--") and A.ref_id(A.kids(y)[0]) == d["id"]:
                return None
        return A.kids(d)[-1]

    def terms(e, depth=0):
        out = []
        for sign, t in C._additive_terms(e):
            lit = A.int_literal(t)
            init = _once_assigned_local(t) if depth < 4 else None
            if lit is None and init is not None:
                out += [(sign * s2, v2) for s2, v2 in terms(init, depth + 1)]
            else:
                out.append((sign, lit if lit is not None else A.src(A.strip_casts(t))))
        return sorted(out, key=str)
    guard_total = None
    for x in A.walk(us.body(fns)):
        if x.get("kind") == "BinaryOperator" and x.get("opcode") in ("<", ">", "<=", ">="):
            l, r = A.kids(x)
            pid = us.params(fns)[2]["id"]
            if A.ref_id(l) == pid:
                guard_total = terms(r)
            elif A.ref_id(r) == pid:
                guard_total = terms(l)
    rets = [x for x in A.walk(us.body(fns)) if x.get("kind") == "ReturnStmt" and A.int_literal(A.kids(x)[0]) is None]
    ret_total = terms(A.kids(rets[0])[0]) if len(rets) == 1 else None
    extent = None
    if len(mc) == 1:
        d = terms(A.kids(mc[0])[1])
        d = [t for t in d if t[1] != us.params(fns)[0].get("name")]
        extent = sorted(d + terms(A.kids(mc[0])[3]), key=str)
    ctx.ob("R08.6", "append_bundle:guarded-amount=written-amount", guard_total is not None and guard_total == ret_total == extent, site=A.where(fns),
           detail={"compared_with_max_len": guard_total, "returned": ret_total, "copy_end_offset": extent},
           what="append_bundle compares max_len with %s but writes up to %s and returns %s" % (guard_total, extent, ret_total))

    # rtosc_bundle: the pre-computed total starts at the header size the writer lays out
    fnb = u.function("rtosc_bundle")
    lenp = u.params(fnb)[1]["id"]
    tot = None
    for x in A.walk(u.body(fnb)):
        if x.get("kind") == "BinaryOperator" and x.get("opcode") in ("<", ">", "<=", ">="):
            l, r = A.kids(x)
            if A.ref_id(r) == lenp and A.ref_id(l):
                tot = u.by_id.get(A.ref_id(l))
            elif A.ref_id(l) == lenp and A.ref_id(r):
                tot = u.by_id.get(A.ref_id(r))
    iv = None
    if tot is not None and A.kids(tot):
        init_ = A.kids(tot)[-1]
        parts = [(sg, _const_value(u, t_)) for sg, t_ in C._additive_terms(init_)]
        iv = sum(sg * v_ for sg, v_ in parts) if all(v_ is not None for _, v_ in parts) else None
    if writer_by_shape and iv is None:
        ctx.note("R08.5: the total rtosc_bundle compares with its capacity does not start from a constant in the function itself (a helper computes it); what fits is decided by R08.10 at the capacities needed and needed-1")
    if writer_by_shape and iv is not None:
      ctx.ob("R08.5", "rtosc_bundle:precomputed-header-size", iv == seen.get("elements"), site=A.where(tot) if tot is not None else A.where(fnb),
           detail={"initial_total": iv, "first_element_offset": seen.get("elements")},
           what="rtosc_bundle pre-computes a header of %s bytes but writes its first element at offset %s" % (iv, seen.get("elements")))

    bundle_measure_obligation(ctx, u, "R08.6")
    # R08.8
    fsz = u.function("rtosc_bundle_size")
    rets = [x for x in A.walk(u.body(fsz)) if x.get("kind") == "ReturnStmt"]
    srcs = []
    for r_ in rets:
        srcs += sorted(_value_leaves(u, A.kids(r_)[0], fsz, None, 0))
    okp = bool(rets) and set(srcs) <= {"constant", "read through a pointer"} and "read through a pointer" in srcs
    ctx.ob("R08.8", "rtosc_bundle_size", okp, site=A.where(fsz), detail={"returned_value_comes_from": sorted(set(srcs))},
           what="rtosc_bundle_size returns a value obtained from %s instead of the element's stored size field" % sorted(set(srcs)))
    # R08.7
    fb = u.function("rtosc_bundle")
    bufp, lenp = u.params(fb)[0]["id"], u.params(fb)[1]["id"]
    full_clear = False
    for stmt in A.kids(u.body(fb)):
        e = A.strip(stmt)
        if e.get("kind") == "CallExpr" and A.callee_name(e) == "memset":
            a = A.kids(e)[1:]
            if A.ref_id(a[0]) == bufp and A.int_literal(a[1]) == 0 and A.ref_id(a[2]) == lenp:
                full_clear = True       # top-level statement of the function: on the success path
    fa = us.function("append_bundle")
    term = any(A.callee_name(c) == "emplace_uint32" and A.int_literal(A.kids(c)[2]) == 0 for c in A.calls_in(us.body(fa))) or \
        any(A.callee_name(c) == "memset" and A.int_literal(A.kids(c)[2]) == 0 for c in A.calls_in(us.body(fa)))
    ctx.ob("R08.7", "zero size field after the last element", full_clear or term, site=A.where(fb),
           detail={"rtosc_bundle_clears_whole_destination": full_clear, "append_bundle_writes_terminator": term},
           what="neither does rtosc_bundle zero-fill its whole destination nor does append_bundle write a terminating zero size field: stale bytes behind an appended element read as further elements")

    # ---- R08.10: the writer interpreted
    ctx.rule("R08.10", "WRITER-LAYOUT: rtosc_bundle, interpreted on seven lists of element sizes (the variadic elements handed out in order, rtosc_message_length answering with their sizes), returns the bundle's length and writes `#bundle`, the time tag, and per element its big-endian size and its bytes; into a buffer with spare room the rest stays zero (the terminator of a later nesting), into one that is a byte too small it writes nothing but zeros and returns 0")
    from ..rules import bundlewalk as BW10
    bad10 = []
    for sizes10 in BW10.LAYOUTS:
        exp10 = BW10.expected_bundle(sizes10)
        try:
            r_a, b_a, o_a = BW10.write_bundle(u, sizes10, len(exp10) + 8)
            r_b, b_b, o_b = BW10.write_bundle(u, sizes10, len(exp10))
            r_c, b_c, o_c = BW10.write_bundle(u, sizes10, len(exp10) - 1)
        except FD.Unknown as e:
            raise AnalysisBroken("R08.10: rtosc_bundle not evaluable on element sizes %s: %s" % (sizes10, e))
        probs = []
        if r_a != len(exp10) or b_a[:len(exp10)] != exp10 or any(b_a[len(exp10):]) or o_a:
            probs.append({"capacity": "needed+8", "returns": r_a, "expected": len(exp10), "written": b_a.hex()[:96], "stores_beyond_capacity": o_a[:4]})
        if r_b != len(exp10) or b_b != exp10 or o_b:
            probs.append({"capacity": "exactly needed", "returns": r_b, "expected": len(exp10), "stores_beyond_capacity": o_b[:4]})
        if r_c != 0 or any(b_c) or o_c:
            probs.append({"capacity": "needed-1", "returns": r_c, "expected": 0, "non_zero_bytes_left": sum(1 for x_ in b_c if x_), "stores_beyond_capacity": o_c[:4]})
        if probs:
            bad10.append({"element_sizes": sizes10, "problems": probs})
    ctx.ob("R08.10", "rtosc_bundle", not bad10, site=A.where(u.function("rtosc_bundle")), detail={"layouts": [list(l_) for l_ in BW10.LAYOUTS], "mismatches": bad10[:3]},
           what="rtosc_bundle, interpreted, does not lay the bundle out as specified: %s" % bad10[:2])

    # ---- R08.9
    from ..rules import bundlewalk as BW
    try:
        badw, nw = BW.run(u)
    except FD.Unknown as e:
        raise AnalysisBroken("R08.9: a bundle reader is not evaluable: %s" % e)
    for rd in ("rtosc_bundle_elements", "rtosc_bundle_fetch", "rtosc_bundle_size", "bundle_ring_length", "rtosc_bundle_timetag"):
        br_ = [b_ for b_ in badw if b_["reader"] == rd]
        ctx.ob("R08.9", rd, not br_, site=A.where(u.function(rd)), detail={"layouts": [list(l_) for l_ in BW.LAYOUTS], "mismatches": br_[:4]},
               what="%s misreads a bundle laid out as the writer lays it out: %s" % (rd, br_[:2]))


def bundle_measure_obligation(ctx, u, rule):
    """the size pre-computation of rtosc_bundle measures every element exactly as the copy loop does"""
    fnb = u.function("rtosc_bundle")
    measures = []
    # rtosc_bundle itself and the file-local helpers it calls (the sizing pass may live in one)
    hosts = [fnb]
    for c_ in A.calls_in(u.body(fnb)):
        for h_ in u.functions.get(A.callee_name(c_) or "", []):
            if u.body(h_) is not None and h_.get("storageClass") == "static" and h_ not in hosts:
                hosts.append(h_)
    def origin(a0, host, depth=0):
        """what is measured: "va_arg" for the next variadic element - directly, through a local initialised from it, or
        through the parameter of a file-local helper whose every call in rtosc_bundle passes one"""
        a0 = A.strip_casts(a0)
        if a0.get("kind") == "VAArgExpr":
            return "va_arg"
        if a0.get("kind") != "DeclRefExpr":
            return A.src(a0)
        dd = u.by_id.get(a0["referencedDecl"]["id"])
        if dd is not None and dd.get("kind") == "VarDecl" and A.kids(dd) and A.strip_casts(A.kids(dd)[-1]).get("kind") == "VAArgExpr":
            return "va_arg"
        if dd is not None and dd.get("kind") == "ParmVarDecl" and host is not fnb and depth < 2:
            ids_ = [p_["id"] for p_ in u.params(host)]
            if dd["id"] in ids_:
                k_ = ids_.index(dd["id"])
                srcs = {origin(A.kids(c_)[1 + k_], fnb, depth + 1) for c_ in A.calls_in(u.body(fnb), host.get("name")) if len(A.kids(c_)) > 1 + k_}
                if len(srcs) == 1:
                    return srcs.pop()
        return "var"
    for h_, c in ((h_, x) for h_ in hosts for x in A.calls_in(u.body(h_), "rtosc_message_length")):
        a = A.kids(c)[1:]
        src0 = origin(a[0], h_)
        try:
            lim = FD.Eval().ev(a[1])
        except FD.Unknown:
            lim = A.src(a[1])
        measures.append((src0, lim, A.where(c)))
    if len(measures) < 2:
        raise AnalysisBroken("%s: the two measurements of rtosc_bundle (sizing pass, copy loop) were not found (%d)" % (rule, len(measures)))
    ctx.ob(rule, "rtosc_bundle:sizer-measures-like-copier", len({(m[0], m[1]) for m in measures}) == 1, site=A.where(fnb),
           detail={"measurements": [list(m) for m in measures]},
           what="rtosc_bundle measures its elements differently when sizing and when copying: %s" % [(m[0], m[1]) for m in measures])


def _value_leaves(u, e, fn, member, depth):
    """where a value comes from: {"constant", "read through a pointer", "parameter <name>", "call <public function>", "?..."}.
    Locals are followed through their initialisers and assignments, struct members through the assignments to that
    member, file-local (static) helpers through their return values; a call of a function with external linkage is a
    leaf (a measurement such as rtosc_message_length is not looked into)."""
    e = A.strip_casts(e)
    k = e.get("kind")
    if depth > 8:
        return {"?deep"}
    if A.int_literal(e) is not None or k in ("IntegerLiteral", "CharacterLiteral"):
        return {"constant"}
    if k in ("ArraySubscriptExpr",) or (k == "UnaryOperator" and e.get("opcode") == "*"):
        return {"read through a pointer"}
    if k in ("BinaryOperator", "ConditionalOperator", "ParenExpr") or (k == "UnaryOperator" and e.get("opcode") in ("-", "+", "~", "!")):
        out = set()
        ks = A.kids(e)
        for sub in (ks[1:] if k == "ConditionalOperator" else ks):
            out |= _value_leaves(u, sub, fn, member, depth + 1)
        return out
    if k == "MemberExpr" and A.kids(e):
        return _value_leaves(u, A.kids(e)[0], fn, e.get("name"), depth + 1)
    if k == "InitListExpr":
        if member is not None:
            # positional initialiser of a struct: the member's index in its record
            rec = None
            for cand in u.by_id.values():
                if cand.get("kind") in ("RecordDecl", "CXXRecordDecl") and any(f.get("kind") == "FieldDecl" and f.get("name") == member for f in A.kids(cand)):
                    rec = cand
            if rec is not None:
                names = [f.get("name") for f in A.kids(rec) if f.get("kind") == "FieldDecl"]
                i = names.index(member)
                if i < len(A.kids(e)):
                    return _value_leaves(u, A.kids(e)[i], fn, None, depth + 1)
            return {"constant"}
        out = set()
        for sub in A.kids(e):
            out |= _value_leaves(u, sub, fn, None, depth + 1)
        return out
    if k == "CallExpr":
        nm = A.callee_name(e)
        helpers = [f for f in u.functions.get(nm, []) if u.body(f) is not None and f.get("storageClass") == "static"]
        if len(helpers) == 1:
            out = set()
            for r_ in A.walk(u.body(helpers[0])):
                if r_.get("kind") == "ReturnStmt" and A.kids(r_):
                    out |= _value_leaves(u, A.kids(r_)[0], helpers[0], member, depth + 1)
            return out or {"?no return in " + str(nm)}
        return {"call " + str(nm)}
    if k == "DeclRefExpr":
        rd = e.get("referencedDecl") or {}
        if rd.get("kind") == "ParmVarDecl":
            return {"parameter " + str(rd.get("name"))}
        vid = rd.get("id")
        if (vid, member) in _VISITING:
            return set()            # an accumulator that is computed from itself (`v = (v << 8) | p[i]`) adds no origin of its own
        _VISITING.add((vid, member))
        try:
            return _value_leaves_of_var(u, e, fn, member, depth, rd, vid)
        finally:
            _VISITING.discard((vid, member))
    return {"?" + A.src(e)[:40]}


_VISITING = set()


def _value_leaves_of_var(u, e, fn, member, depth, rd, vid):
    if True:
        d = u.by_id.get(vid)
        out = set()
        if d is not None and A.kids(d) and d.get("kind") == "VarDecl":
            out |= _value_leaves(u, A.kids(d)[-1], fn, member, depth + 1)
        for y in A.walk(u.body(fn)):
            if y.get("kind") in ("BinaryOperator", "CompoundAssignOperator") and y.get("opcode", "").endswith("=") and y.get("opcode") not in ("==", "!=", "<=", ">="):
                l = A.strip_casts(A.kids(y)[0])
                if member is None and A.ref_id(l) == vid:
                    out |= _value_leaves(u, A.kids(y)[1], fn, None, depth + 1)
                elif member is not None and l.get("kind") == "MemberExpr" and l.get("name") == member and A.ref_id(A.kids(l)[0]) == vid:
                    out |= _value_leaves(u, A.kids(y)[1], fn, None, depth + 1)
            if y.get("kind") == "UnaryOperator" and y.get("opcode") in ("++", "--"):
                l = A.strip_casts(A.kids(y)[0])
                if (member is None and A.ref_id(l) == vid) or (member is not None and l.get("kind") == "MemberExpr" and l.get("name") == member and A.ref_id(A.kids(l)[0]) == vid):
                    out.add("constant")
        return out or {"?unassigned " + str(rd.get("name"))}
    return {"?" + A.src(e)[:40]}
