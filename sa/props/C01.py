"""C01 - OSC 1.0 wire format: structural necessary conditions (see DESIGN.md section 2, C01)."""
import re
from .. import astlib as A
from ..facts import AnalysisBroken
from ..rules import byteorder as BO
from ..rules import codec as C
from ..rules import codec_tables as T
from ..rules import cursor as K

LEVEL = "other"
EXPLANATION = ("Decides the structural part of the wire-format property from rtosc.c's typed AST: (R01.1) the per-tag "
               "payload table of all seven hand-written sibling functions equals the OSC 1.0 table on every tag; "
               "(R01.2) every numeric emit/extract sequence is big-endian with consecutive byte positions; (R01.3) every "
               "alignment step, evaluated over pos mod 4, is the table of its field kind; (R01.4) loops over the type-tag "
               "string classify the element they NUL-tested and skip exactly '[' and ']'; (R01.5) rtosc_v2args takes the "
               "promoted C type and writes the union member of the width the writer reads; (R01.6) accessor and "
               "constructor entry points share one decoder / forward their buffer arguments unchanged. These are "
               "necessary conditions for every input; the values written are not decided.")
TRUSTED = ["clang 14 parser and JSON AST dump", "sa/astlib.py, sa/fdeval.py (finite-domain evaluation of extracted expressions)",
           "the OSC 1.0 tag table in sa/props/C01.py (the specification)", "idiom recognisers in sa/rules/codec.py (unknown idiom = exit 2)"]
ASSUMPTIONS = ["offsets are sums of the per-tag sizes and paddings that are decided; payload values are not decided",
               "only rtosc.c / arg-val.c as compiled by the build (NDEBUG) are analysed"]

# OSC 1.0 (+ the unofficial tags rtosc.h documents): payload class of every type tag
SPEC = {"i": "4", "f": "4", "c": "4", "r": "4", "m": "4", "h": "8", "t": "8", "d": "8",
        "s": "string", "S": "string", "b": "blob",
        "T": "none", "F": "none", "N": "none", "I": "none", "[": "none", "]": "none"}
UNION_WIDTH = {"i": 4, "f": 4, "d": 8, "h": 8, "t": 8, "m": 4, "T": 1}
BRACKETS = {"[", "]"}


def tables(ctx, u):
    """{function: ({tag: class}, default class, site)}"""
    out = {}
    # (a function that is not written as the table extraction expects is left out of the table comparison: what it
    # computes is decided by the evaluations R01.9 / R01.10 on probe messages)
    try:
        hr, hr_other, fn = T.has_reserved_table(u)
        out["has_reserved"] = ({t: ("payload" if c == "payload" else "none") for t, c in hr.items()}, hr_other, A.where(fn), None)
    except AnalysisBroken as e:
        ctx.notes.append("has_reserved: no tag table by shape (%s)" % e)
    for name in ("vsosc_null", "rtosc_amessage", "rtosc_message_ring_length"):
        try:
            tab, dflt, sw, cur, fn = T.loop_switch_summaries(u, name)
            out[name] = ({t: C.classify(s.items) for t, s in tab.items()}, C.classify(dflt.items) if dflt else "none", A.where(sw), tab)
        except AnalysisBroken as e:
            if name == "rtosc_message_ring_length":
                ctx.notes.append("rtosc_message_ring_length: no tag table by shape (%s)" % e)
                continue
            # not a tag switch inside a loop: the classes are read off evaluations on one-argument messages (rules/oscref.py)
            from ..rules import oscref as _O
            from .. import fdeval as _FD
            try:
                ev_tab = _O.builder_classes_eval(u, name, sorted(set(SPEC) | set("xq")))
            except _FD.Unknown as e:
                raise AnalysisBroken("%s: neither a tag switch in a loop nor evaluable: %s" % (name, e))
            out[name] = ({t: s.cls for t, s in ev_tab.items() if t in SPEC}, ev_tab["x"].cls, A.where(u.function(name)), ev_tab)
    try:
        tab, dflt, guard, sw, fn = T.arg_size_table(u)
        # tags outside the switch take no payload when an entry guard says so or when the default case returns 0
        dflt_none = guard or (dflt is not None and isinstance(dflt.ret, int) and dflt.ret == 0 and not dflt.items)
        out["arg_size"] = ({t: C.classify(s.items) for t, s in tab.items()}, ("none" if dflt_none else "unguarded"), A.where(sw), tab)
    except AnalysisBroken as e:
        ctx.notes.append("arg_size: no tag table by shape (%s)" % e)
    try:
        # the classes are read off an evaluation of the decoder per tag (independent of how it is written) ...
        cls, fn = T.extract_arg_classes_eval(u)
        tab = None
    except AnalysisBroken:
        # ... or, where that is not possible, off the shape of its two switches
        tab, fn = T.extract_arg_table(u)
        cls = {}
        for t, s in tab.items():
            c = C.classify(s.items)
            if s.ptr_members == ["s"] and c == "none":
                c = "string"
            elif s.ptr_members == ["b.data"] and c == "4":
                c = "blob"
            elif s.ptr_members:
                c = "?ptr=%s" % s.ptr_members
            cls[t] = c
    out["extract_arg"] = (cls, "none", A.where(fn), tab)
    tab, dflt, sw, fn = T.v2args_table(u)
    out["rtosc_v2args"] = ({t: T.v2args_class(s) for t, s in tab.items()}, "none", A.where(sw), tab)
    return out


def run(ctx):
    u = ctx.ast("rtosc.c")
    ctx.rule("R01.1", "TAGTAB: each of has_reserved, vsosc_null, rtosc_amessage, rtosc_v2args, arg_size, extract_arg, "
                      "rtosc_message_ring_length gives every type tag the payload class OSC 1.0 assigns to it")
    ctx.rule("R01.2", "BYTEORDER: shifts of an n-byte emit/extract sequence are 8(n-1),...,8,0 on consecutive ascending byte positions")
    ctx.rule("R01.3", "PAD: an alignment step after a NUL-terminated field maps pos%4 {0,1,2,3} to +{4,3,2,1}; after a blob to +{0,3,2,1}")
    ctx.rule("R01.4", "CURSOR: a loop over the type-tag string classifies only an element it NUL-tested in the same iteration, "
                      "and the characters skipped as non-arguments are exactly '[' and ']'")
    ctx.rule("R01.8", "ITERATOR-TAGS: rtosc_itr_begin / rtosc_itr_next / rtosc_itr_end, evaluated on probe type strings with nested, adjacent and empty arrays, yield every tag except '[' and ']' in order - the tags rtosc_narguments counts and rtosc_type indexes")
    ctx.rule("R01.9", "CONFORMANCE (builder): vsosc_null and rtosc_amessage, evaluated on 65 probe messages (every tag, address lengths 2..6, strings of 0..5 and blobs of 0..6 bytes with and without data, nested brackets, value bytes with the top bit set), return the length and write the bytes that OSC 1.0 prescribes")
    ctx.rule("R01.10", "CONFORMANCE (readers): on the specified encoding of the same probe messages rtosc_narguments, rtosc_argument_string and rtosc_type answer with the message's tags, and rtosc_argument hands its decoder the tag and the offset at which that argument lies")
    ctx.rule("R01.5", "VAARG: for every tag rtosc_v2args takes the default-promoted C type and stores into the union member whose "
                      "width equals the payload the writer emits from its member")
    ctx.rule("R01.6", "SHARED-DECODER/FORWARD: rtosc_argument and rtosc_itr_next decode through extract_arg and arg_size; "
                      "rtosc_message -> rtosc_vmessage -> rtosc_amessage and rtosc_avmessage -> rtosc_amessage forward (buffer,len,address) unchanged")

    # ---- R01.1
    tabs = tables(ctx, u)
    universe = sorted(set(SPEC) | {t for tb in tabs.values() for t in tb[0]})
    for fname, (tab, dflt, site, _) in tabs.items():
        for tag in universe:
            got = tab.get(tag, dflt)
            exp = SPEC.get(tag, "none")
            if fname == "has_reserved":
                exp = "none" if exp == "none" else "payload"
            ctx.ob("R01.1", "%s['%s']" % (fname, tag), got == exp, site=site,
                   detail={"function": fname, "tag": tag, "expected": exp, "found": got},
                   what="%s treats tag '%s' as %s, OSC 1.0 says %s" % (fname, tag, got, exp))
    ctx.require_count("R01.1", 3 * 17)      # the decoder, the vararg unpacker and at least one more table; the rest is decided by R01.9 / R01.10

    # ---- R01.2
    n = 0
    for q, fns in u.functions.items():
        for fn in fns:
            if not (A.loc(fn)[0] or "").endswith("rtosc.c"):
                continue
            for r in BO.sequences(u, fn):
                ok, d = BO.check_run(r)
                n += 1
                ctx.ob("R01.2", "%s:%s:%d-byte %s" % (q, d["data"], len(r), d["dir"]), ok, site=A.where(r[0][4]), detail=d,
                       what="byte sequence of %s in %s is not big-endian: shifts %s" % (d["data"], q, d["shifts"]))
                if ok:
                    try:
                        bad, ncases = BO.check_values(r)
                    except Exception as e:
                        from .. import fdeval as _FD
                        if isinstance(e, _FD.Unknown):
                            raise AnalysisBroken("R01.2: sequence at %s not evaluable: %s" % (A.where(r[0][4]), e))
                        raise
                    ctx.ob("R01.2", "%s:%s:%d-byte %s values" % (q, d["data"], len(r), d["dir"]), not bad, site=A.where(r[0][4]),
                           detail={"patterns": ncases, "mismatches": bad[:4]},
                           what="%s of %s in %s does not reproduce the bytes: %s" % (d["dir"], d["data"], q, bad[:2]))
    ctx.require_count("R01.2", 8, but_not_ending=" values")     # 13 on the pinned tree; shared helpers and loops legitimately merge some (the decoder's values are also checked by evaluation in R01.1)

    # ---- R01.3
    pad_obligations(ctx, u, "R01.3", ["vsosc_null", "rtosc_amessage", "arg_start", "arg_off", "arg_size", "rtosc_message_ring_length"])
    ctx.require_count("R01.3", 6)     # how many alignment steps the code spells out is its business (helpers merge them); what they add up to is decided by R01.9

    # ---- R01.4
    seen_sets = {}
    for q in ["nreserved", "rtosc_narguments", "rtosc_type", "arg_off", "advance_past_dummy_args"]:
        fn = u.function(q)
        loops = K.char_cursor_loops(u, fn)
        if not loops:
            # no hand-written loop over the type string here (e.g. strspn / a shared helper): what the function answers is
            # decided by the readers' evaluation on probe type strings with brackets (R01.10, R01.8)
            ctx.notes.append("R01.4: no type-string loop in %s (decided by R01.10)" % q)
            continue
        for lp, c in loops:
            tr = K.analyse_loop(lp, c)
            cname = u.by_id[c].get("name")
            tests = sorted({t[0] for t in tr.tests})
            bad = [(o, lit) for o, lit, _ in tr.classes if tests and o not in tests]
            if tr.classes or tests:
                ctx.ob("R01.4", "%s:loop(%s)" % (q, cname), not bad, site=A.where(lp),
                       detail={"nul_tested_offsets": tests, "classified": [(o, l) for o, l, _ in tr.classes]},
                       what="%s tests element %s of the type string for NUL but classifies element %s (%s)" %
                            (q, tests, sorted({o for o, _ in bad}), sorted({str(l) for _, l in bad})))
            if tr.uses and not tr.classes:
                ctx.ob("R01.4", "%s:loop(%s) brackets" % (q, cname), False, site=A.where(lp), detail={"element_handed_to": sorted({u_[1] for u_ in tr.uses})},
                       what="%s walks the type string and hands each element to %s without setting '[' and ']' apart: a bracket is counted as an argument" % (q, sorted({u_[1] for u_ in tr.uses})))
            lits = {l for _, l, _ in tr.classes if isinstance(l, str) and len(l) == 1}
            if lits:
                seen_sets["%s:loop(%s)@%s" % (q, cname, A.loc(lp)[1])] = (lits, A.where(lp))
    for inst, (lits, site) in seen_sets.items():
        ctx.ob("R01.4", "skipset:" + inst.split("@")[0], lits == BRACKETS, site=site, detail={"characters": sorted(lits)},
               what="non-argument characters skipped here are %s, expected ['[', ']']" % sorted(lits))
    ctx.require_count("R01.4", 3)

    # ---- R01.12: the iterator on real message bytes
    ctx.rule("R01.12", "ITERATOR-OFFSETS: rtosc_itr_begin / rtosc_itr_end / rtosc_itr_next, evaluated on the specified encoding of the 65 probe messages and of messages made from the bracketed probe type strings "
                       "(the iterator's cursors are member slots, the decoder's by-value result is carried back with its members), decode every argument with its tag at the offset at which it lies - "
                       "what rtosc_argument(msg, k) finds for the same k (R01.10)")
    from ..rules import itertags as IT
    from .. import fdeval as _FD8
    from ..rules import oscref as OR12
    itr_decided = False
    try:
        groups12 = {}
        for adr12, ty12, va12 in OR12.PROBES + [("/z", ts_, OR12.default_values(ts_)) for ts_ in IT.PROBES if ts_.count("[") == ts_.count("]")]:
            g12 = {"/p": "fixed-width tags", "/s": "strings", "/b": "blobs", "/t": "tags without payload", "/x": "arrays and all tags", "/y": "several arguments", "/z": "bracketed type strings"}.get(adr12, "address lengths")
            groups12.setdefault(g12, []).append((adr12, ty12, va12))
        res12 = {}
        for g12, probes12 in sorted(groups12.items()):
            bad12 = []
            for adr12, ty12, va12 in probes12:
                b12 = OR12.iterator_checks(u, adr12, ty12, va12)
                if b12:
                    bad12.append({"address": adr12, "types": ty12, "problems": b12[:2]})
            res12[g12] = (len(probes12), bad12)
        itr_decided = True
        for g12, (n12, bad12) in sorted(res12.items()):
            ctx.ob("R01.12", "probe messages: %s" % g12, not bad12, site=A.where(u.function("rtosc_itr_next")), detail={"messages": n12, "mismatches": bad12[:3]},
                   key="R01.12:%s" % g12,
                   what="the iterator, evaluated on probe messages (%s), does not decode the arguments where they lie: %s" % (g12, bad12[:2]))
    except _FD8.Unknown as e12:
        ctx.note("R01.12: the iterator is not evaluable on message bytes (%s); its walk over the type string is decided by R01.8" % e12)

    # ---- R01.8: the iterator's walk over the type string, evaluated on probe type strings
    for ts in IT.PROBES:
        try:
            got = IT.walk(u, ts)
        except _FD8.Unknown as e:
            if "outside the type string" in str(e):
                got = "reads outside the type string"
            elif itr_decided:
                ctx.note("R01.8: the iterator's walk over the bare type string is not evaluable (%s); decided on message bytes by R01.12" % e)
                break
            else:
                raise AnalysisBroken("R01.8: iterator not evaluable on %r: %s" % (ts, e))
        want = [c for c in ts if c not in BRACKETS]
        ctx.ob("R01.8", "types \"%s\"" % ts, got == want, site=A.where(u.function("rtosc_itr_next")), detail={"type_string": ts, "iterator_yields": got, "value_tags": want},
               key="R01.8:%s" % ts,
               what="the iterator yields %s for the type string \"%s\"; its value tags are %s (rtosc_narguments / rtosc_type skip every '[' and ']')" % (got, ts, want))
    if not itr_decided or any(o_.rule == "R01.8" for o_ in ctx.obs):
        ctx.require_count("R01.8", 12 if not itr_decided else 1)

    # ---- R01.9: sizer and writer evaluated on probe messages against the encoding the specification prescribes
    from ..rules import oscref as OR
    groups9 = {}
    for adr9, ty9, va9 in OR.PROBES:
        groups9.setdefault(("address length %d mod 4" % (len(adr9) % 4)) if adr9 not in ("/p", "/s", "/b", "/t", "/x", "/y") else
                           {"/p": "fixed-width tags", "/s": "strings", "/b": "blobs", "/t": "tags without payload", "/x": "arrays and all tags", "/y": "several arguments"}[adr9], []).append((adr9, ty9, va9))
    for g9, probes9 in sorted(groups9.items()):
        bad9 = []
        for adr9, ty9, va9 in probes9:
            ref9 = OR.encode(adr9, ty9, va9)
            try:
                r9, m9 = OR.run_builder(u, "rtosc_amessage", adr9, ty9, va9)
                s9, _ = OR.run_builder(u, "vsosc_null", adr9, ty9, va9)
            except _FD8.Unknown as e:
                if re.search(r"argument slot \d+ of \d+ read", str(e)):
                    # the caller passes one array element per value-carrying tag: reading another one is reading behind the array
                    bad9.append({"address": adr9, "types": ty9, "problem": "the builder reads an element of the argument array that the type string does not account for: %s" % e})
                    continue
                raise AnalysisBroken("R01.9: builder not evaluable on (%r, %r): %s" % (adr9, ty9, e))
            w9 = m9.written(len(ref9))
            if r9 != len(ref9) or s9 != len(ref9) or w9 != ref9 or m9.oob:
                bad9.append({"address": adr9, "types": ty9, "sizer": s9, "writer_returns": r9, "specified_length": len(ref9),
                             "written": w9.hex(), "specified": ref9.hex()})
        ctx.ob("R01.9", g9, not bad9, site=A.where(u.function("rtosc_amessage")), detail={"messages": len(probes9), "mismatches": bad9[:3]},
               key="R01.9:%s" % g9,
               what="the message builder, evaluated on probe messages (%s), does not produce the OSC 1.0 encoding: %s" % (g9, bad9[:2]))

    # ---- R01.10: the readers evaluated on the specified encoding of the same probe messages
    for g9, probes9 in sorted(groups9.items()):
        bad10 = []
        for adr9, ty9, va9 in probes9:
            try:
                rb = OR.reader_checks(u, adr9, ty9, va9)
            except _FD8.Unknown as e:
                raise AnalysisBroken("R01.10: readers not evaluable on (%r, %r): %s" % (adr9, ty9, e))
            if rb:
                bad10.append({"address": adr9, "types": ty9, "problems": rb[:3]})
        ctx.ob("R01.10", g9, not bad10, site=A.where(u.function("rtosc_argument")), detail={"messages": len(probes9), "mismatches": bad10[:3]},
               key="R01.10:%s" % g9,
               what="the readers, evaluated on the specified encoding of probe messages (%s), do not find the arguments where they lie: %s" % (g9, bad10[:2]))

    # ---- R01.5
    v2, _, sw, fn = T.v2args_table(u)
    wr_tab = tabs["rtosc_amessage"][3]
    for tag, S in sorted(v2.items()):
        cls = T.v2args_class(S)
        written = sorted(set(S.written))
        wS = wr_tab.get(tag)
        read = sorted(m for m in (wS.members if wS else set()) if m in UNION_WIDTH or m in ("s", "b"))
        ok = not cls.startswith("?") and not getattr(S, "narrowing", [])
        detail = {"tag": tag, "va_arg": S.va_types, "written": written, "writer_reads": read, "class": cls, "narrowing_casts": getattr(S, "narrowing", [])}
        if ok and cls in ("4", "8"):
            ww = {UNION_WIDTH.get(m.split(".")[0]) for m in written}
            rw = {UNION_WIDTH.get(m) for m in read}
            ok = ww == {int(cls)} and rw == {int(cls)}
        elif ok and cls == "string":
            ok = read == ["s"]
        elif ok and cls == "blob":
            ok = "b" in read
        ctx.ob("R01.5", "rtosc_v2args['%s']" % tag, ok, site=A.where(sw), detail=detail,
               what="tag '%s': va_arg %s stored into %s%s, writer reads %s" % (tag, S.va_types, written, (" after a cast to %s (narrower than the member: the value is cut)" % getattr(S, "narrowing", [])) if getattr(S, "narrowing", []) else "", read))
    ctx.require_count("R01.5", 11)

    # ---- R01.6
    forward_obligations(ctx, u)
    ctx.require_count("R01.6", 7)

    # ---- R01.7
    ctx.rule("R01.7", "ARG-SLOTS: the argument-value-list constructor fills the rtosc_arg_t array it hands to rtosc_amessage with one "
                      "element per value-carrying tag - the discipline rtosc_amessage's own argument index follows - checked on "
                      "every tag sequence of length 1..3")
    from ..rules import argslots as AS
    cons = AS.consumer_table(u)
    ua = ctx.ast("arg-val.c")
    prods = [p_ for p_ in AS.producers(ua) if p_[0] == "rtosc_avmessage"]
    ctx.require(len(prods) == 1, "R01.7: the loop of rtosc_avmessage that fills type string and values was not found (%d)" % len(prods))
    q, fnp, call, tid, vid, lp = prods[0]
    ptab, names = AS.producer_table(ua, fnp, tid, vid, lp)
    bad = AS.mismatches(cons, ptab)
    ctx.ob("R01.7", "rtosc_avmessage", not bad, site=A.where(lp),
           detail={"rtosc_amessage_consumes_an_element_for": "".join(t for t in AS.TAGS if cons[t]), "sequences": sum(15 ** n for n in (1, 2, 3)), "mismatches": bad[:4]},
           what="rtosc_avmessage stores argument values in other array elements than rtosc_amessage reads them from: %s" % bad[:2])


    # ---- R01.11: arg-val kinds that are no OSC tags
    ctx.rule("R01.11", "AV-KINDS: what rtosc_avmessage writes into the type string are OSC type tags: for the argument-value kind 'a' (an array header; its elements follow) it does not write the kind letter itself - OSC spells an array with '[' and ']' around the elements' tags")
    st11 = AS.stored_tag(ua, lp, tid, vid, "a")
    ctx.ob("R01.11", "rtosc_avmessage: kind 'a'", "a" not in st11, site=A.where(lp), detail={"stored_into_the_type_string": st11},
           key="R01.11:rtosc_avmessage:array kind written as a tag",
           what="rtosc_avmessage copies the argument-value kind 'a' (array) into the type tag string and passes over the array's elements: {[1 2] 3} becomes `,ai` with one value instead of `,[ii]i`")


def pad_obligations(ctx, u, rule, fnames):
    for q in fnames:
        fn = u.function(q)
        cur = T._ret_cursor_ids(u, fn)
        lists = list(BO._stmt_lists(u.body(fn)))
        for L in lists:
            for i, s in enumerate(L):
                pk = C.pad_kind(s, u)
                if pk is None:
                    continue
                kind, x, table = pk
                prev = None
                j = i - 1
                while j >= 0 and prev is None:
                    sm = C.Summariser(u, cur, {})
                    try:
                        S = sm.summarise([L[j]])
                    except C.Unrecognised:
                        break
                    if S.items:
                        prev = S.items[-1]
                    j -= 1
                if isinstance(prev, str) and prev.startswith("if("):
                    ctx.ob(rule, "%s:pad@after-diverging-branch#%d" % (q, sum(1 for o in ctx.obs if o.rule == rule and o.instance.startswith(q + ":"))), False, site=A.where(s),
                           detail={"statement": A.src(s), "preceded_by": prev},
                           what="alignment step `%s` in %s follows a branch whose arms advance the cursor differently (%s)" % (A.src(s), q, prev))
                    continue
                if prev == "strlen":
                    exp = "pad+"
                elif prev == "len" or isinstance(prev, int):
                    exp = "pad"
                else:
                    # which field the step follows cannot be told from the statements in front of it (the field length may
                    # come out of a helper): this step is left to the evaluations on probe messages (R01.9 / R01.10), which
                    # exercise every field length mod 4
                    ctx.notes.append("%s: alignment step at %s not classified (decided by R01.9/R01.10)" % (rule, A.where(s)))
                    continue
                ctx.ob(rule, "%s:pad@%s" % (q, "after-" + ("string" if exp == "pad+" else "blob") + "#%d" % sum(1 for o in ctx.obs if o.rule == rule and o.instance.startswith(q + ":"))),
                       kind == exp, site=A.where(s),
                       detail={"statement": A.src(s), "table_pos_mod4": list(table) if not isinstance(table, dict) else table, "expected": exp, "found": kind},
                       what="alignment step `%s` in %s computes %s over pos%%4, expected %s" % (A.src(s), q, list(table) if not isinstance(table, dict) else table, exp))


def _call_args_are_params(u, fn, call, idx_pairs):
    """idx_pairs: [(arg index, param index)] - the call's argument is a plain reference to the function's parameter."""
    ps = u.params(fn)
    args = A.kids(call)[1:]
    for ai, pi in idx_pairs:
        if ai >= len(args) or pi >= len(ps):
            return False
        if A.ref_id(args[ai]) != ps[pi]["id"]:
            return False
    return True


def forward_obligations(ctx, u):
    def calls(fn, name):
        return list(A.calls_in(u.body(fn), name))
    fn = u.function("rtosc_argument")
    ctx.ob("R01.6", "rtosc_argument->extract_arg", len(calls(fn, "extract_arg")) >= 1 and len(calls(fn, "arg_off")) >= 1, site=A.where(fn),
           what="rtosc_argument no longer decodes through extract_arg/arg_off")
    fn = u.function("arg_off")
    ctx.ob("R01.6", "arg_off->arg_size", len(calls(fn, "arg_size")) >= 1, site=A.where(fn), what="arg_off no longer sizes through arg_size")
    fn = u.function("rtosc_itr_next")
    ctx.ob("R01.6", "rtosc_itr_next->extract_arg+arg_size", len(calls(fn, "extract_arg")) >= 1 and len(calls(fn, "arg_size")) >= 1, site=A.where(fn),
           what="rtosc_itr_next no longer decodes through extract_arg/arg_size")
    fn = u.function("rtosc_message")
    cs = calls(fn, "rtosc_vmessage")
    ctx.ob("R01.6", "rtosc_message=>rtosc_vmessage", len(cs) == 1 and _call_args_are_params(u, fn, cs[0], [(0, 0), (1, 1), (2, 2), (3, 3)]), site=A.where(fn),
           what="rtosc_message does not forward (buffer,len,address,arguments) unchanged")
    fn = u.function("rtosc_vmessage")
    cs = calls(fn, "rtosc_amessage")
    ctx.ob("R01.6", "rtosc_vmessage=>rtosc_amessage", len(cs) >= 1 and all(_call_args_are_params(u, fn, c, [(0, 0), (1, 1), (2, 2), (3, 3)]) for c in cs), site=A.where(fn),
           detail={"call_sites": len(cs)}, what="rtosc_vmessage does not forward (buffer,len,address,arguments) unchanged at every call of rtosc_amessage")
    # the vararg count handed to rtosc_v2args is nreserved(arguments)
    cs2 = calls(fn, "rtosc_v2args")
    ok = False
    if len(cs2) == 1:
        a = A.kids(cs2[0])[1:]
        nid = A.ref_id(a[1])
        nd = u.by_id.get(nid)
        init = A.kids(nd)[-1] if nd and A.kids(nd) else None
        ok = bool(init is not None and A.strip_casts(init).get("kind") == "CallExpr" and A.callee_name(A.strip_casts(init)) == "nreserved"
                  and A.ref_id(A.kids(A.strip_casts(init))[1]) == u.params(fn)[3]["id"] and A.ref_id(a[2]) == u.params(fn)[3]["id"])
    ctx.ob("R01.6", "rtosc_vmessage:count=nreserved(arguments)", ok, site=A.where(fn),
           what="rtosc_vmessage does not unpack exactly nreserved(arguments) varargs of `arguments`")
    ua = ctx.ast("arg-val.c")
    fn = ua.function("rtosc_avmessage")
    cs = list(A.calls_in(ua.body(fn), "rtosc_amessage"))
    ctx.ob("R01.6", "rtosc_avmessage=>rtosc_amessage", len(cs) == 1 and _call_args_are_params(ua, fn, cs[0], [(0, 0), (1, 1), (2, 2)]), site=A.where(fn),
           what="rtosc_avmessage does not forward (buffer,len,address) unchanged")
    # ---- R01.13: type letter and value of one argument come from the value the iterator hands out
    ctx.rule("R01.13", "AVMESSAGE-ONE-SOURCE: in rtosc_avmessage every read of an argument value's type or value goes through the pointer rtosc_arg_val_itr_get returned - never through the iterator's raw cursor (`itr.av`), which stands on the range header inside a repetition: "
             "the type string and the decision whether a value is pushed for a tag (none for T, F, N, I) must be taken from the same value")
    gets13 = list(A.calls_in(ua.body(fn), "rtosc_arg_val_itr_get"))
    ctx.require(len(gets13) >= 1, "R01.13: rtosc_avmessage no longer reads its values through rtosc_arg_val_itr_get")
    raw13 = [y for y in A.walk(ua.body(fn)) if y.get("kind") == "MemberExpr" and y.get("name") in ("type", "val") and A.kids(y) and
             any(z.get("kind") == "MemberExpr" and z.get("name") == "av" and "rtosc_arg_val_itr" in (A.qtype(A.strip_casts(A.kids(z)[0])) or "") for z in A.walk(A.kids(y)[0]))]
    ctx.ob("R01.13", "rtosc_avmessage: reads of type / value", not raw13, site=A.where(raw13[0]) if raw13 else A.where(fn), detail={"reads_through_the_raw_cursor": [A.src(y)[:40] for y in raw13][:4]},
           key="R01.13:rtosc_avmessage",
           what="rtosc_avmessage reads `%s` through the iterator's raw cursor: inside a repetition that is the range header, so a value is pushed for every repeated T / F / N / I and the values behind them shift (`3xtrue 42 7` encodes 1 1 for the two integers)" % (A.src(raw13[0])[:40] if raw13 else ""))
