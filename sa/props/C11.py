"""C11 - The scanner accepts the documented text syntax (narrow: agreement of the two recognisers; DESIGN.md section 2, C11)."""
import re

from .. import astlib as A
from .. import fdeval as FD
from ..facts import AnalysisBroken
from ..rules import recog as R
from ..rules import outparam as OP

LEVEL = "other"
EXPLANATION = ("The syntax checker rtosc_skip_next_printed_arg and the scanner rtosc_scan_arg_val are two hand-written recognisers of "
               "one grammar; the clauses that are code shapes are decided: (R11.1) both dispatch on the same set of first characters, "
               "and the ordered chain of token-class tests in their default: branches (range multiplier, identifier, date, numeric) "
               "is the same - tests that are not spelled identically are evaluated over ~3300 probe strings (all strings over "
               "{'1',' ','-'} up to length 7 plus real dates and numerals) with a small model of the sscanf directives they use, and "
               "must agree on every probe (the scanner's former `fifth character is '-'` date test disagreed on \"0 0 -7\"); (R11.2) "
               "both map the reserved words true/false/nil/inf/now/immediately to the same tags; (R11.3) the four entry loops skip "
               "white space and `%` comments with the same introducer and an equivalent skip format. Value denotation, ranges and "
               "canonicalisation quantify over all sentences and are not decided.")
TRUSTED = ["clang 14 AST", "sa/fdeval.py", "mini_sscanf model (literals, white space, %*Nd, %n) in sa/rules/recog.py", "the probe set in sa/rules/recog.py"]
ASSUMPTIONS = ["agreement of differently spelled tests is established on the probe set only"]
UNIT = "pretty-format.c"


KW_PROBES = ["true", "false", "nil", "inf", "now", "immediately", "truex", "fals", "nile", "info", "nowhere", "immediate", "t", "n"]


def keyword_table_checker(u, fn, sw):
    """{word: tag} - what the checker makes of a word that starts with one of its keyword letters, decided by evaluating
    the case of the first-character switch on the word (skip_word, skip_identifier and any other helper of the unit are
    evaluated in place; a table of keywords is read through its initialiser).  A word that comes out as an identifier
    ('S') or is not accepted is left out."""
    from ..rules import codec as _C
    tab = _C.case_table(sw)
    srcp = [p_ for p_ in u.params(fn) if A.ref_id(A.kids(A.strip_casts(A.kids(sw)[0]))[0]) == p_["id"]]
    if len(srcp) != 1:
        raise AnalysisBroken("checker: the cursor the first-character switch reads was not recognised")
    src_id = srcp[0]["id"]
    typep = [p_ for p_ in u.params(fn) if (A.qtype(p_) or "").replace(" ", "") == "char*"]
    if len(typep) != 1:
        raise AnalysisBroken("checker: the type output parameter was not recognised")
    BASE, TCELL = 1 << 16, 64
    out = {}
    for word in KW_PROBES:
        stmts = tab.get(ord(word[0]))
        if stmts is None:
            continue
        text = word + " 1"
        got = {}
        holder = {}

        def deref(a, n, text=text):
            if isinstance(a, tuple) and a[0] == "addr":
                return holder["ev"].env[a[1]]
            if BASE <= a <= BASE + len(text):
                return ord(text[a - BASE]) if a - BASE < len(text) else 0
            if a == TCELL:
                return got.get("type", 0)
            raise FD.Unknown("read outside the probe word", n)

        def store(a, v, n):
            if isinstance(a, tuple) and a[0] == "addr":
                holder["ev"].env[a[1]] = v
            elif a == TCELL:
                got["type"] = v
            else:
                raise FD.Unknown("store outside the outputs", n)

        def strval(v, text=text):
            if isinstance(v, str):
                return v
            if isinstance(v, int) and BASE <= v <= BASE + len(text):
                return text[v - BASE:]
            raise FD.Unknown("string operand %r" % (v,))

        def hook(n, ev):
            k = n.get("kind")
            if k == "StringLiteral":
                return A.string_literal(n)
            if k == "ImplicitCastExpr" and n.get("castKind") == "ArrayToPointerDecay" and A.string_literal(A.kids(n)[0]) is not None:
                return A.string_literal(A.kids(n)[0])
            if k == "UnaryOperator" and n.get("opcode") == "&" and A.strip_casts(A.kids(n)[0]).get("kind") == "DeclRefExpr":
                return ("addr", A.ref_id(A.kids(n)[0]))
            if k in ("MemberExpr", "ArraySubscriptExpr"):
                r_ = FD.const_aggregate(u, n, ev)
                if r_ is not NotImplemented:
                    return r_
                if k == "ArraySubscriptExpr":
                    b_ = ev.ev(A.kids(n)[0])
                    if isinstance(b_, str):
                        i_ = ev.ev(A.kids(n)[1])
                        return ord(b_[i_]) if 0 <= i_ < len(b_) else 0
            if k == "BinaryOperator" and n.get("opcode") == "&":
                enum = [y["referencedDecl"]["name"] for y in A.walk(A.kids(n)[1]) if y.get("kind") == "DeclRefExpr" and (y.get("referencedDecl") or {}).get("kind") == "EnumConstantDecl"]
                subs = [y for y in A.walk(A.kids(n)[0]) if y.get("kind") == "ArraySubscriptExpr"]
                if len(enum) == 1 and enum[0].startswith("_IS") and subs:
                    v = ev.ev(A.kids(subs[0])[1])
                    c = chr(v) if 0 < v < 128 else ""
                    pred = {"_ISalpha": str.isalpha, "_ISdigit": str.isdigit, "_ISalnum": str.isalnum, "_ISspace": str.isspace}.get(enum[0])
                    if pred is None:
                        raise FD.Unknown("ctype class " + enum[0], n)
                    return 1 if c and pred(c) else 0
            return NotImplemented

        def call(nm, vals, n):
            ev = holder["ev"]
            if nm == "strlen":
                return len(strval(vals[0]).split("\0")[0]) if isinstance(vals[0], str) else len(strval(vals[0]))
            if nm in ("strncmp", "memcmp"):
                a, b = strval(vals[0])[:vals[2]], strval(vals[1])[:vals[2]]
                return 0 if a == b else (1 if a > b else -1)
            if nm == "strcmp":
                a, b = strval(vals[0]), strval(vals[1])
                return 0 if a == b else (1 if a > b else -1)
            if nm in ("isspace", "isalnum", "isalpha", "isdigit"):
                c = chr(vals[0]) if 0 < vals[0] < 128 else ""
                return 1 if c and getattr(c, nm)() else 0
            if nm == "strchr" and isinstance(vals[0], str):
                return 1 if vals[1] and chr(vals[1]) in vals[0] else 0
            fns_ = [f_ for f_ in u.functions.get(nm, []) if u.body(f_) is not None]
            if len(fns_) == 1:
                return ev.call_function(u, fns_[0], vals)
            raise FD.Unknown("call to %s" % nm, n)
        ev = FD.Eval(env={src_id: BASE, typep[0]["id"]: TCELL}, deref=deref, store=store, node_hook=hook, call=call, max_steps=3000)
        holder["ev"] = ev
        try:
            for st_ in stmts:
                ev.run(st_)
        except FD._Break:
            pass
        except FD._Return:
            pass
        except FD.Unknown as e:
            raise AnalysisBroken("checker: keyword case '%s' not evaluable on %r: %s" % (word[0], word, e))
        t_ = got.get("type")
        end = ev.env.get(src_id)
        if t_ and chr(t_) != "S" and end == BASE + len(word):
            out[word] = chr(t_)
    return out


def keyword_table_scanner(ctx, u, fn, sw):
    out = {}
    imm_tag = None
    ut = ctx.ast("rtosc-time.c")
    f2 = ut.function("rtosc_arg_val_immediatelly")
    for y in A.walk(ut.body(f2)):
        if y.get("kind") == "BinaryOperator" and y.get("opcode") == "=" and A.strip_casts(A.kids(y)[0]).get("kind") == "MemberExpr" and A.strip_casts(A.kids(y)[0]).get("name") == "type":
            imm_tag = chr(A.int_literal(A.kids(y)[1]))
    for x in A.walk(A.kids(sw)[-1]):
        if x.get("kind") == "IfStmt":
            c = A.kids(x)[0]
            kws = [A.string_literal(A.kids(k)[1]) for k in A.calls_in(c, "skip_word")]
            if not kws:
                continue
            then = A.kids(x)[1]
            if any(A.callee_name(k) == "rtosc_arg_val_immediatelly" for k in A.calls_in(then)):
                for kw in kws:
                    out[kw] = imm_tag
                continue
            up = [y for y in A.walk(then) if y.get("kind") == "BinaryOperator" and y.get("opcode") == "=" and
                  A.strip_casts(A.kids(y)[0]).get("kind") == "MemberExpr" and A.strip_casts(A.kids(y)[0]).get("name") == "type"]
            if up and any(A.callee_name(k) == "toupper" for k in A.calls_in(A.kids(up[0])[1])):
                for kw in kws:
                    out[kw] = kw[0].upper()
    return out


def run(ctx):
    u = ctx.ast(UNIT)
    ctx.rule("R11.1", "RECOGNISERS: checker and scanner dispatch on the same first characters, and their default: chains test the same token classes in the same order (identical spelling, or agreement on every probe string)")
    ctx.rule("R11.2", "KEYWORDS: true/false/nil/inf/now/immediately map to the same tag in checker and scanner")
    ctx.rule("R11.4", "SSCANF-ATOMIC: when the scanner decides an optional part by a sscanf with two or more assigning conversions (its %n result is tested afterwards), the converted values are read only under that test - a partial match must not leak into the result")
    ctx.rule("R11.5", "TYPES-MATCH: the element-type compatibility relation used by checker and scanner (types_match / arraytypes_match), evaluated over all tag pairs, is reflexive and symmetric and relates T with F")
    ctx.rule("R11.6", "ARGS-BEFORE: wherever a list of values is scanned (top level and inside `[...]`), the look-behind count handed to rtosc_scan_arg_val is the number of argument values written so far (a variable advanced by next_arg_offset), not a token counter")
    ctx.rule("R11.7", "LOOKBEHIND-TIGHT: a look-behind access arg[-k] is guarded by exactly `at least k values before` (args_before > k-1): weaker reads before the list, stronger ignores a neighbour the checker takes into account")
    ctx.rule("R11.3", "COMMENTS: the four entry loops skip white space and comments introduced by '%' up to the end of the line")
    ctx.rule("R11.8", "DATE-EXTENT: over probe texts (a date with every optional part, the exact fraction in the printer's own spelling and in the 0x...p-32 spelling, alone or followed by another value) the scanner's time-tag branch consumes exactly what the checker's accepts and reads no local it has not assigned")
    from ..rules import datescan as DS
    n_date = DS.obligations(ctx, u, "R11.8")
    ctx.require(n_date >= 60, "R11.8: only %d date probes evaluated" % n_date)
    ctx.rule("R11.9", "PREV-SLOT: in both list printers the value handed to rtosc_print_arg_val as the one before a range is the slot directly in front of the current position of the original list (NULL for the first) - the loop's own bookkeeping is evaluated with arguments that span 1..4 slots and with printer-made ranges")
    from ..rules import prevslot as PSL
    sites_ = PSL.list_sites(u)
    ctx.require(len(sites_) >= 2, "R11.9: the two list printers were not found (%d)" % len(sites_))
    for q_, fn_, lp_, c_ in sites_:
        bad_ = PSL.run_site(u, fn_, lp_)
        ctx.ob("R11.9", "%s: value before a range" % q_, not bad_, site=A.where(c_), detail={"scenarios": len(PSL.SCENARIOS), "mismatches": bad_[:3]},
               what="%s hands rtosc_print_arg_val a value that is not the slot in front of the current argument: %s" % (q_, bad_[:2]))
    ctx.rule("R11.10", "NUMERIC-SPELLING: the format the readers choose for an integer token (scanf_fmtstr), applied to the token, yields the value the spelling denotes as a C literal - decimal, 0x hexadecimal, leading-zero octal - with and without the `i` suffix; digits that are no C literal (08) read as decimal")
    from ..rules import numspell as NSP
    bad10, n10 = NSP.run(u)
    ctx.ob("R11.10", "integer spellings", not bad10, site=A.where(u.function("scanf_fmtstr")), detail={"tokens": n10, "mismatches": bad10[:6]},
           key="R11.10:integer spellings",
           what="the readers give integer spellings another value than they denote: %s" % bad10[:3])
    # ---- R11.20: the type of `value (exact value)` is the type of its first spelling
    ctx.rule("R11.20", "EXACT-PART-KEEPS-TYPE: in the checker the type of a number with a parenthesised exact value - `2.5d (0x1.4p+1)` - is decided by the first spelling (the scanner takes the suffix from there): "
             "in the branch that skips the parenthesised part, entered under a test of `*type` for 'f' / 'd', the type is not written again - neither stored nor handed to a callee as an out-parameter")
    chk20 = u.function("rtosc_skip_next_printed_arg")
    tps20 = [p_ for p_ in u.params(chk20) if (A.qtype(p_) or "").replace(" ", "") == "char*" and p_.get("name") not in ("src",)]
    tpar20 = [p_ for p_ in tps20 if any(y.get("kind") == "UnaryOperator" and y.get("opcode") == "*" and A.ref_id(A.kids(y)[0]) == p_["id"] for y in A.walk(u.body(chk20)))]
    n20 = 0
    for tp20 in tpar20:
        for x in A.walk(u.body(chk20)):
            if x.get("kind") != "IfStmt":
                continue
            cnd = A.kids(x)[0]
            lits = {A.int_literal(z) for y in A.walk(cnd) if y.get("kind") == "BinaryOperator" and y.get("opcode") == "==" for z in A.kids(y)}
            reads = any(y.get("kind") == "UnaryOperator" and y.get("opcode") == "*" and A.ref_id(A.kids(y)[0]) == tp20["id"] for y in A.walk(cnd))
            if not (reads and {ord("f"), ord("d")} <= lits):
                continue
            then = A.kids(x)[1]
            if not any(A.callee_name(c_) in ("skip_numeric", "rtosc_skip_next_printed_arg") or "skip" in (A.callee_name(c_) or "") for c_ in A.calls_in(then)):
                continue
            n20 += 1
            writes = []
            for y in A.walk(then):
                if y.get("kind") in ("BinaryOperator", "CompoundAssignOperator") and y.get("opcode", "").endswith("=") and y.get("opcode") not in ("==", "!=", "<=", ">="):
                    l_ = A.strip_casts(A.kids(y)[0])
                    if l_.get("kind") == "UnaryOperator" and l_.get("opcode") == "*" and A.ref_id(A.kids(l_)[0]) == tp20["id"]:
                        writes.append(y)
                if y.get("kind") == "CallExpr":
                    for a_ in A.kids(y)[1:]:
                        if A.ref_id(a_) == tp20["id"]:
                            writes.append(y)
            ctx.ob("R11.20", "checker: exact part of a float / double@%s" % A.loc(x)[1], not writes, site=A.where(writes[0]) if writes else A.where(x),
                   detail={"writes_of_the_type": [A.src(w_)[:50] for w_ in writes]}, key="R11.20:exact-part",
                   what="while it skips the parenthesised exact value the checker writes the argument's type again (`%s`): `2.5d (0x1.4p+1)` is then reported as a float, so an array or a range of doubles in both spellings is rejected although the scanner reads it" % (A.src(writes[0])[:50] if writes else ""))
    ctx.require(n20 >= 1, "R11.20: the checker's branch for the parenthesised exact value (under a test of the type for 'f' / 'd') was not found")

    # ---- R11.19: "is the step zero" is an exact question
    ctx.rule("R11.19", "EXACT-ZERO-STEP: in delta_from_arg_vals the comparisons whose result decides `the step is zero` (the variable tested by `if(!cmp)`) are exact - no tolerance options - : the tolerance of 0.001 is for the check that n steps reach the right end; "
             "with it, a float range whose step is 0.001 or smaller reads as a range without step")
    fd19 = u.function("delta_from_arg_vals")
    zero_tested = set()
    for y in A.walk(u.body(fd19)):
        if y.get("kind") == "IfStmt":
            c_ = A.strip_casts(A.kids(y)[0])
            if c_.get("kind") == "UnaryOperator" and c_.get("opcode") == "!" and A.ref_id(A.kids(c_)[0]):
                zero_tested.add(A.ref_id(A.kids(c_)[0]))
            elif c_.get("kind") == "BinaryOperator" and c_.get("opcode") in ("==", "!=") and 0 in (A.int_literal(A.kids(c_)[0]), A.int_literal(A.kids(c_)[1])):
                for side in A.kids(c_):
                    if A.ref_id(side):
                        zero_tested.add(A.ref_id(side))
    CMPS19 = ("rtosc_arg_vals_cmp", "rtosc_arg_vals_cmp_single", "rtosc_arg_vals_eq", "rtosc_arg_vals_eq_single")

    def _assigned19(fn_, vid):
        out = []
        for y in A.walk(u.body(fn_)):
            if y.get("kind") == "BinaryOperator" and y.get("opcode") == "=" and A.ref_id(A.kids(y)[0]) == vid:
                out.append(A.kids(y)[1])
            elif y.get("kind") == "VarDecl" and y.get("id") == vid and A.kids(y):
                out.append(A.kids(y)[-1])
        return out

    def _cmp_sources(e, fn_, depth=0):
        """the comparison calls an expression's value comes from: directly, through the arms of a conditional, through a local
        of fn_, or through the return value of a file-local helper"""
        e = A.strip_casts(e)
        k_ = e.get("kind")
        if depth > 4:
            return []
        if k_ == "CallExpr":
            nm_ = A.callee_name(e)
            if nm_ in CMPS19:
                return [e]
            hs = [g_ for g_ in u.functions.get(nm_ or "", []) if u.body(g_) is not None and g_.get("storageClass") == "static"]
            out = []
            if len(hs) == 1:
                for r_ in A.walk(u.body(hs[0])):
                    if r_.get("kind") == "ReturnStmt" and A.kids(r_):
                        out += _cmp_sources(A.kids(r_)[0], hs[0], depth + 1)
            return out
        if k_ == "ConditionalOperator":
            return _cmp_sources(A.kids(e)[1], fn_, depth + 1) + _cmp_sources(A.kids(e)[2], fn_, depth + 1)
        if k_ == "DeclRefExpr" and (e.get("referencedDecl") or {}).get("kind") == "VarDecl":
            out = []
            for v_ in _assigned19(fn_, e["referencedDecl"]["id"]):
                out += _cmp_sources(v_, fn_, depth + 1)
            return out
        return []
    n19 = 0
    seen19 = set()
    for vid19 in sorted(zero_tested):
        for val in _assigned19(fd19, vid19):
            for v_ in _cmp_sources(val, fd19):
                if v_.get("id") in seen19:
                    continue
                seen19.add(v_.get("id"))
                n19 += 1
                opt = A.strip_casts(A.kids(v_)[-1])
                exact = opt.get("kind") in ("GNUNullExpr", "CXXNullPtrLiteralExpr") or A.int_literal(opt) == 0 or A.src(opt).strip("() ") in ("NULL", "(void *)0", "(void*)0", "0")
                if not exact:
                    # options with a tolerance of zero are exact as well
                    lits = [z for z in A.walk(opt) if z.get("kind") == "FloatingLiteral"]
                    od = u.by_id.get(A.ref_id(A.kids(opt)[0])) if opt.get("kind") == "UnaryOperator" and opt.get("opcode") == "&" and A.ref_id(A.kids(opt)[0]) else None
                    if od is not None:
                        lits = [z for z in A.walk(od) if z.get("kind") == "FloatingLiteral"]
                    if lits and all(float(z.get("value")) == 0.0 for z in lits):
                        exact = True
                ctx.ob("R11.19", "delta_from_arg_vals: zero-step test@%s" % A.loc(v_)[1], exact, site=A.where(v_), detail={"options": A.src(A.kids(v_)[-1])[:60]},
                       key="R11.19:zero-step",
                       what="delta_from_arg_vals decides `the step is zero` with tolerance options (`%s`): a float range whose step is within the tolerance (`0.0 0.0005 ... 0.002`) is read as a range without step - the checker rejects text the printer wrote, or both readers silently drop the step" % A.src(A.kids(v_)[-1])[:40])
    ctx.require(n19 >= 1, "R11.19: no comparison feeding the zero-step test of delta_from_arg_vals was found")
    ctx.rule("R11.11", "NULL-BUFFER-SCAN: the checker calls the scanner without a string buffer (NULL) only for a token it knows to be numeric - the call is unreachable when the range's type is not one of the numeric range types - because strings, symbols and blobs are stored through that buffer")
    from .C19 import _guards as _g19
    chkf = u.function("rtosc_skip_next_printed_arg")
    # the checker and the file-local helpers it hands the range check to (each with its own flag and guards)
    bodies11 = [chkf]
    for _ in range(2):
        for f_ in list(bodies11):
            for c in A.calls_in(u.body(f_)):
                for g_ in u.functions.get(A.callee_name(c) or "", []):
                    if g_ not in bodies11 and u.body(g_) is not None and g_.get("storageClass") == "static" and \
                            any(True for _c in A.calls_in(u.body(g_), "rtosc_scan_arg_val")) and g_.get("name") not in ("rtosc_scan_arg_val", "rtosc_scan_arg_vals"):
                        bodies11.append(g_)
    nums = [d for f_ in bodies11 for d in A.walk(u.body(f_)) if d.get("kind") == "VarDecl" and any(A.callee_name(c) == "numeric_range_types" for c in A.calls_in(d))]
    ctx.require(len(nums) >= 1, "R11.11: the `numeric` flag of the range check was not found")
    num_ids = {d["id"] for d in nums}
    # a helper's parameter is the flag when every call of the helper hands the flag (or the test itself) over at that position
    for _ in range(2):
        for g_ in bodies11[1:]:
            sites_g = [c_ for f_ in bodies11 for c_ in A.calls_in(u.body(f_), g_.get("name"))]
            for pi_, pp_ in enumerate(u.params(g_)):
                if pp_["id"] in num_ids or not sites_g:
                    continue
                if all(len(A.kids(c_)) > pi_ + 1 and (A.ref_id(A.kids(c_)[pi_ + 1]) in num_ids or
                                                      any(A.callee_name(k_) == "numeric_range_types" for k_ in A.calls_in(A.kids(c_)[pi_ + 1]))) for c_ in sites_g):
                    num_ids.add(pp_["id"])
    n11 = 0
    for c in [c_ for f_ in bodies11 for c_ in A.calls_in(u.body(f_), "rtosc_scan_arg_val")]:
        a_ = A.kids(c)[1:]
        if len(a_) < 4 or A.strip_casts(a_[3]).get("kind") not in ("GNUNullExpr", "CXXNullPtrLiteralExpr") and A.int_literal(a_[3]) != 0 and A.src(a_[3]).strip("() ") not in ("NULL", "(void *)0", "0"):
            continue
        n11 += 1
        safe = False
        for cond, pol in _g19(u, c):
            ids_ = {y["referencedDecl"]["id"] for y in A.walk(cond) if y.get("kind") == "DeclRefExpr" and (y.get("referencedDecl") or {}).get("kind") in ("VarDecl", "ParmVarDecl")}
            if not (ids_ & num_ids):
                continue
            # with the flag false (and every other operand as permissive as possible) the guard must fail
            holds_somehow = False
            others = sorted(ids_ - num_ids)
            import itertools as _it
            for vals in _it.product((0, 1), repeat=len(others)):
                env = {i_: 0 for i_ in num_ids}
                env.update(dict(zip(others, vals)))
                try:
                    if bool(FD.Eval(env=env, call=lambda n_, a2, nd: 1).ev(cond)) == pol:
                        holds_somehow = True
                except FD.Unknown:
                    holds_somehow = True
            if not holds_somehow:
                safe = True
        ctx.ob("R11.11", "checker: rtosc_scan_arg_val(%s, ..., NULL, ...)" % A.src(a_[0]), safe, site=A.where(c),
               key="R11.11:%s" % A.src(a_[0]),
               what="the checker scans `%s` without a string buffer although the token may be a string, symbol or blob: the scanner stores through the null pointer" % A.src(a_[0]))
    ctx.require(n11 >= 2, "R11.11: calls of the scanner without a string buffer not found in the checker (%d)" % n11)
    ctx.rule("R11.12", "LOOKBEHIND-KINDS: where the scanner chooses the value a range counts on from, it distinguishes every kind of argument that occupies more than one slot (the kinds next_arg_offset treats specially: arrays and ranges) - for such a kind the slot before the range is not the previous argument")
    nao = u.function("next_arg_offset")
    def _type_literals(root):
        out = set()
        for y in A.walk(root):
            if y.get("kind") == "BinaryOperator" and y.get("opcode") in ("==", "!="):
                l_, r_ = A.kids(y)
                for a1, a2 in ((l_, r_), (r_, l_)):
                    m1 = A.strip_casts(a1)
                    v2 = A.int_literal(a2)
                    if m1.get("kind") == "MemberExpr" and m1.get("name") == "type" and v2 is not None and 32 < v2 < 127:
                        out.add(chr(v2))
        return out
    kinds = _type_literals(u.body(nao)) - {" "}
    ctx.require(kinds >= {"a", "-"}, "R11.12: multi-slot kinds of next_arg_offset not recognised (%s)" % sorted(kinds))
    scn12 = u.function("rtosc_scan_arg_val")
    ell = [x for x in A.walk(u.body(scn12)) if x.get("kind") == "IfStmt" and any(y.get("kind") == "DeclRefExpr" and (y.get("referencedDecl") or {}).get("name") == "follow_ellipsis" for y in A.walk(A.kids(x)[0]))]
    ctx.require(len(ell) == 1, "R11.12: the scanner's range block (guarded by follow_ellipsis) was not found (%d)" % len(ell))
    handled = _type_literals(A.kids(ell[0])[1])
    missing = sorted(kinds - handled)
    ctx.ob("R11.12", "left neighbour of a range", not missing, site=A.where(ell[0]), detail={"multi_slot_kinds": sorted(kinds), "distinguished_by_the_scanner": sorted(handled & kinds)},
           key="R11.12:left neighbour",
           what="the scanner picks the left neighbour of a range by slot position without telling apart arguments of kind %s, which occupy several slots: the slot before the range is then the last element of that argument (`[1 1] 3 ... 7` reads as 3 5 7)" % missing)
    # ---- R11.15: the identifier recognisers agree
    ctx.rule("R11.15", "IDENTIFIER-SIBLINGS: the scanner's identifier parser (parse_identifier, used for words that begin like a reserved word) consumes, on probe words, exactly the characters the checker's skip_identifier consumes (letters, digits and '_' after a letter or '_')")
    fpi = u.function("parse_identifier")
    fsk = u.function("skip_identifier")
    bad15 = []
    for word in ["tone2", "in1", "Bus_7", "t_9z", "nilpferd", "f", "x9", "_a1", "a", "MIDINOTE", "t", "i2c_bus", "n0", "true1", "a-b", "9x", "", "_"]:
        text15 = word + " 7"
        TB15, BUF15, CELL15, ARG15 = 1 << 16, 1 << 18, 64, 1 << 20
        cells15 = {CELL15: 64}
        h15 = {}

        def deref15(a_, n_, text15=text15):
            if TB15 <= a_ <= TB15 + len(text15):
                return ord(text15[a_ - TB15]) if a_ - TB15 < len(text15) else 0
            if a_ in cells15:
                return cells15[a_]
            raise FD.Unknown("read at %r" % (a_,), n_)

        def store15(a_, v_, n_):
            if a_ in cells15:
                cells15[a_] = v_
            elif BUF15 <= a_ < BUF15 + 256:
                pass
            else:
                raise FD.Unknown("store at %r" % (a_,), n_)

        def hook15(n_, ev_):
            k_ = n_.get("kind")
            if k_ == "BinaryOperator" and n_.get("opcode") == "&":
                enum = [y["referencedDecl"]["name"] for y in A.walk(A.kids(n_)[1]) if y.get("kind") == "DeclRefExpr" and (y.get("referencedDecl") or {}).get("kind") == "EnumConstantDecl"]
                subs = [y for y in A.walk(A.kids(n_)[0]) if y.get("kind") == "ArraySubscriptExpr"]
                if len(enum) == 1 and enum[0].startswith("_IS") and subs:
                    v_ = ev_.ev(A.kids(subs[0])[1])
                    c_ = chr(v_) if 0 < v_ < 128 else ""
                    pred = {"_ISalpha": str.isalpha, "_ISdigit": str.isdigit, "_ISalnum": str.isalnum, "_ISspace": str.isspace}.get(enum[0])
                    if pred is None:
                        raise FD.Unknown("ctype class " + enum[0], n_)
                    return 1 if c_ and pred(c_) else 0
            if k_ == "CallExpr" and A.callee_name(n_) == "__assert_fail":
                return 0
            return NotImplemented

        def call15(nm, vals, n_):
            if nm in ("isalpha", "isalnum", "isdigit", "isspace"):
                c_ = chr(vals[0]) if 0 < vals[0] < 128 else ""
                return 1 if c_ and getattr(c_, nm)() else 0
            fns_ = [f_ for f_ in u.functions.get(nm, []) if u.body(f_) is not None]
            if len(fns_) == 1:
                return h15["ev"].call_function(u, fns_[0], vals)
            raise FD.Unknown("call to %s" % nm, n_)
        try:
            ev15 = FD.Eval(deref=deref15, store=store15, node_hook=hook15, call=call15, max_steps=2000)
            h15["ev"] = ev15
            r_parse = ev15.call_function(u, fpi, [TB15, ARG15, BUF15, CELL15])
            ev15b = FD.Eval(deref=deref15, store=store15, node_hook=hook15, call=call15, max_steps=2000)
            h15["ev"] = ev15b
            r_skip = ev15b.call_function(u, fsk, [TB15])
        except FD.Unknown as e:
            raise AnalysisBroken("R11.15: identifier recognisers not evaluable on %r: %s" % (word, e))
        c_parse = (r_parse - TB15) if r_parse else 0
        c_skip = (r_skip - TB15) if r_skip else 0
        if c_parse != c_skip:
            bad15.append({"word": word, "scanner_takes": text15[:c_parse], "checker_takes": text15[:c_skip]})
    ctx.ob("R11.15", "parse_identifier vs skip_identifier", not bad15, site=A.where(fpi), detail={"mismatches": bad15[:6]},
           what="the scanner's identifier parser and the checker's disagree on %s: the checker counts one value where the scanner stops in the middle of the word" % bad15[:3])

    # ---- R11.18: what counts as the `N x` of a repetition
    ctx.rule("R11.18", "MULTIPLIER: is_range_multiplier (used by checker and scanner alike), evaluated on probe words, says yes exactly for a decimal count that does not begin with 0 directly followed by `x` - "
                       "`10x1`, `105x2.5`, `20x\"a\"` are repetitions (ten equal values are printed as `10x7`), `0x1f` is a hexadecimal number")
    fmul = u.function("is_range_multiplier")
    MUL_PROBES = [("3x4", True), ("1x1", True), ("9x7", True), ("10x1", True), ("20x\"a\"", True), ("105x2.5", True), ("100x[1 2]", True), ("1000x0", True), ("12x", True),
                  ("0x1f", False), ("0x10", False), ("x3", False), ("3", False), ("12 x3", False), ("3y4", False), ("", False), ("a3x4", False), ("-3x4", False), ("3.5x2", False)]
    bad18 = []
    for word18, want18 in MUL_PROBES:
        text18 = word18 + "\0"

        def deref18(a_, n_, text18=text18):
            k_ = a_ - 4096
            if 0 <= k_ < len(text18) + 4:
                return ord(text18[k_]) if k_ < len(text18) else 0
            raise FD.Unknown("read at offset %d" % k_, n_)

        def hook18(n_, ev_):
            if n_.get("kind") == "BinaryOperator" and n_.get("opcode") == "&":
                enum = [y["referencedDecl"]["name"] for y in A.walk(A.kids(n_)[1]) if y.get("kind") == "DeclRefExpr" and (y.get("referencedDecl") or {}).get("kind") == "EnumConstantDecl"]
                subs = [y for y in A.walk(A.kids(n_)[0]) if y.get("kind") == "ArraySubscriptExpr"]
                if len(enum) == 1 and enum[0].startswith("_IS") and subs:
                    v_ = ev_.ev(A.kids(subs[0])[1])
                    c_ = chr(v_) if 0 < v_ < 128 else ""
                    pred = {"_ISalpha": str.isalpha, "_ISdigit": str.isdigit, "_ISalnum": str.isalnum, "_ISspace": str.isspace}.get(enum[0])
                    if pred is None:
                        raise FD.Unknown("ctype class " + enum[0], n_)
                    return 1 if c_ and pred(c_) else 0
            return NotImplemented

        def call18(nm, vals, n_):
            if nm in ("isalpha", "isalnum", "isdigit", "isspace"):
                c_ = chr(vals[0]) if 0 < vals[0] < 128 else ""
                return 1 if c_ and getattr(c_, nm)() else 0
            if nm in ("strchr", "__builtin_strchr") and isinstance(vals[0], int):
                i_ = 0
                while True:
                    b_ = deref18(vals[0] + i_, n_)
                    if b_ == (vals[1] & 0xff):
                        return vals[0] + i_
                    if not b_:
                        return 0
                    i_ += 1
            if nm in ("strspn", "strcspn") and isinstance(vals[0], int) and isinstance(vals[1], str):
                i_ = 0
                while deref18(vals[0] + i_, n_) and ((chr(deref18(vals[0] + i_, n_)) in vals[1]) == (nm == "strspn")):
                    i_ += 1
                return i_
            raise FD.Unknown("call to %s" % nm, n_)

        def lit18(n_, ev_):
            r_ = hook18(n_, ev_)
            if r_ is not NotImplemented:
                return r_
            if n_.get("kind") == "StringLiteral":
                return A.string_literal(n_)
            if n_.get("kind") == "ImplicitCastExpr" and n_.get("castKind") == "ArrayToPointerDecay" and A.kids(n_) and A.string_literal(A.kids(n_)[0]) is not None:
                return A.string_literal(A.kids(n_)[0])
            return NotImplemented
        try:
            got18 = FD.Eval(deref=deref18, node_hook=lit18, call=call18, max_steps=2000).call_function(u, fmul, [4096])
        except FD.Unknown as e:
            raise AnalysisBroken("R11.18: is_range_multiplier not evaluable on %r: %s" % (word18, e))
        if bool(got18) != want18:
            bad18.append({"word": word18, "taken_for_a_repetition": bool(got18), "expected": want18})
    ctx.ob("R11.18", "is_range_multiplier", not bad18, site=A.where(fmul), detail={"probes": len(MUL_PROBES), "mismatches": bad18[:6]},
           what="is_range_multiplier, evaluated on probe words: %s" % bad18[:4])

    # ---- R11.17: the scanner's choice of the value a range counts on from, evaluated
    ctx.rule("R11.17", "LEFT-NEIGHBOUR (scanner): the statements of rtosc_scan_arg_val that compute what it hands to delta_from_arg_vals as the value before the range, evaluated on 13 slot layouts "
                       "of the arguments already scanned, choose the slot before lhs after a scalar or a repetition `N x v`, the last element of a range with delta, and nothing after an array or at the start - "
                       "whatever stands further left (a repetition two arguments back has its header where the header of a delta range would be)")
    from ..rules import llhs as LL
    try:
        bad17, n17 = LL.check(u)
    except FD.Unknown as e:
        raise AnalysisBroken("R11.17: the scanner's choice of a range's left neighbour is not evaluable: %s" % e)
    ctx.ob("R11.17", "left neighbour of a range, evaluated", not bad17, site=A.where(u.function("rtosc_scan_arg_val")), detail={"layouts": n17, "mismatches": bad17[:4]},
           what="the scanner counts a range on from the wrong value: %s" % bad17[:3])

    # ---- R11.16: every step over an ellipsis has the ellipsis' length
    ctx.rule("R11.16", "ELLIPSIS-STEP: where a cursor known to stand on an ellipsis (compared with or searched for the literal `...`) is moved on by a constant and then "
                       "by `while(isspace(*++p))`, constant plus the pre-increment make exactly the three characters of the ellipsis - in the checker (right-hand side, end of the previous range) as in the scanner; "
                       "one more swallows the first character of a value written tight against the dots")
    n16 = 0
    for q16, fns16 in sorted(u.functions.items()):
        for fn16 in fns16:
            if u.body(fn16) is None or not (A.loc(fn16)[0] or "").endswith(UNIT):
                continue
            for wl in A.walk(u.body(fn16)):
                if wl.get("kind") != "WhileStmt":
                    continue
                cnd = A.strip_casts(A.kids(wl)[0])
                incs = [y for y in A.walk(cnd) if y.get("kind") == "UnaryOperator" and y.get("opcode") == "++" and not y.get("isPostfix")]
                if len(incs) != 1 or not any(A.callee_name(c_) in ("isspace", "__ctype_b_loc") for c_ in A.calls_in(cnd)):
                    continue
                if any(y.get("kind") not in ("NullStmt", "CompoundStmt") for y in A.walk(A.kids(wl)[1])):
                    continue
                pid = A.ref_id(A.kids(incs[0])[0])
                par = u.parent.get(wl.get("id"))
                if pid is None or par is None or par.get("kind") != "CompoundStmt":
                    continue
                sibs = A.kids(par)
                k16 = next(i_ for i_, s_ in enumerate(sibs) if s_ is wl)
                if k16 == 0:
                    continue
                prev = A.strip_casts(sibs[k16 - 1])
                base, step = None, None
                if prev.get("kind") == "CompoundAssignOperator" and prev.get("opcode") == "+=" and A.ref_id(A.kids(prev)[0]) == pid:
                    base, step = ("self", pid), A.int_literal(A.kids(prev)[1])
                elif prev.get("kind") == "BinaryOperator" and prev.get("opcode") == "=" and A.ref_id(A.kids(prev)[0]) == pid:
                    rhs = A.strip_casts(A.kids(prev)[1])
                    if rhs.get("kind") == "BinaryOperator" and rhs.get("opcode") == "+" and A.ref_id(A.kids(rhs)[0]) is not None:
                        base, step = ("var", A.ref_id(A.kids(rhs)[0])), A.int_literal(A.kids(rhs)[1])
                elif prev.get("kind") == "DeclStmt":
                    for d_ in A.kids(prev):
                        if d_.get("kind") == "VarDecl" and d_.get("id") == pid and A.kids(d_):
                            rhs = A.strip_casts(A.kids(d_)[-1])
                            if rhs.get("kind") == "BinaryOperator" and rhs.get("opcode") == "+" and A.ref_id(A.kids(rhs)[0]) is not None:
                                base, step = ("var", A.ref_id(A.kids(rhs)[0])), A.int_literal(A.kids(rhs)[1])
                if base is None or step is None:
                    continue
                if not _stands_on_ellipsis(u, prev, base[1], 0):
                    continue
                n16 += 1
                ctx.ob("R11.16", "%s: step over the ellipsis@%s" % (q16, A.loc(wl)[1]), step + 1 == 3, site=A.where(prev), detail={"constant": step, "then": A.src(cnd)},
                       key="R11.16:%s:%d" % (q16, n16),
                       what="%s moves the cursor %d+1 characters past the start of an ellipsis (`%s; %s`): the ellipsis has three" % (q16, step, A.src(prev), A.src(wl)[:40]))
    ctx.require(n16 >= 1, "R11.16: no step over an ellipsis found")

    left_neighbour_checker(ctx, u, "R11.14")

    # ---- R11.13: out-parameters of the checker, on the IR of every function of the unit
    ctx.rule("R11.13", "OUT-PARAMETER: a local handed to the checker (rtosc_skip_next_printed_arg) as an output that the checker can leave unwritten when it rejects the text is defined before the call, or the call's result is used, or the local is not read afterwards")
    mir = ctx.ir("pretty-format.c")
    callee_ir = mir.functions.get("rtosc_skip_next_printed_arg")
    ctx.require(callee_ir is not None, "R11.13: rtosc_skip_next_printed_arg not in the IR")
    outs = [k for k in range(len(callee_ir.params)) if OP.may_return_without_writing(callee_ir, k)]
    n13 = 0
    for fn_ir in mir.functions.values():
        seen13, bad13 = OP.check(fn_ir, "rtosc_skip_next_printed_arg", outs)
        badkeys = {(b["call"], b["local"]) for b in bad13}
        for inst in seen13:
            n13 += 1
            ctx.ob("R11.13", "%s: %s" % (inst["function"], inst["local"]), (inst["call"], inst["local"]) not in badkeys, site=inst["call"], detail=inst,
                   key="R11.13:%s:%s" % (inst["function"], inst["local"]),
                   what="`%s` is handed to the checker as an output without having a value, the call's result is dropped, and it is read at %s: when the checker rejects that text the value is indeterminate (e.g. a time tag printed with its exact fraction `(...+0x1p-1s)` followed by `1 ... 4`)" % (inst["local"], inst["read_after_call"][:2]))
    ctx.require(n13 >= 3, "R11.13: only %d local outputs of the checker found" % n13)

    chk = u.function("rtosc_skip_next_printed_arg")
    scn = u.function("rtosc_scan_arg_val")
    swc, sws = R.top_switch(u, chk), R.top_switch(u, scn)
    lc, ls = R.labels(swc), R.labels(sws)
    ctx.ob("R11.1", "first-character sets", lc == ls and len(lc) >= 10, site=A.where(sws), detail={"checker_only": sorted(lc - ls), "scanner_only": sorted(ls - lc), "common": sorted(lc & ls)},
           what="checker and scanner dispatch on different first characters: checker only %s, scanner only %s" % (sorted(lc - ls), sorted(ls - lc)))
    cc, cs = R.default_chain(swc), R.default_chain(sws)
    ctx.ob("R11.1", "default chain length", len(cc) == len(cs) and len(cc) >= 4, site=A.where(sws), detail={"checker": [R.norm(c) if c else "else" for c in cc], "scanner": [R.norm(c) if c else "else" for c in cs]},
           what="the default: branches test %d (checker) and %d (scanner) token classes" % (len(cc) - 1, len(cs) - 1))
    probes = R.probes()
    for k, (a, b) in enumerate(zip(cc, cs)):
        if a is None or b is None:
            continue
        na, nb = R.norm(a), R.norm(b)
        if na == nb:
            ctx.ob("R11.1", "token class #%d" % k, True, site=A.where(b), detail={"test": na, "identical": True})
            continue
        # earlier classes must have failed for this test to be reached
        dis = []
        try:
            for p in probes:
                if any(R.eval_predicate(u, e, p) for e in cs[:k] if e is not None) or any(R.eval_predicate(u, e, p) for e in cc[:k] if e is not None):
                    continue
                va, vb = R.eval_predicate(u, a, p), R.eval_predicate(u, b, p)
                if va != vb:
                    dis.append({"text": p, "checker": va, "scanner": vb})
        except FD.Unknown as e:
            raise AnalysisBroken("R11.1: token-class test not evaluable: %s" % e)
        ctx.ob("R11.1", "token class #%d" % k, not dis, site=A.where(b), detail={"checker": na, "scanner": nb, "probes": len(probes), "disagreements": dis[:8]},
               key="R11.1:token class #%d" % k,
               what="checker tests `%s`, scanner tests `%s`: they disagree on %d probe texts, e.g. %s" % (na, nb, len(dis), [d["text"] for d in dis[:5]]))
    # ---- R11.2
    kc = keyword_table_checker(u, chk, swc)
    ks = keyword_table_scanner(ctx, u, scn, sws)
    want = {"true", "false", "nil", "inf", "now", "immediately"}
    ctx.require(set(kc) >= want, "checker keyword table incomplete: %s" % sorted(kc))
    for kw in sorted(set(kc) | set(ks) | want):
        ctx.ob("R11.2", "keyword \"%s\"" % kw, kc.get(kw) is not None and kc.get(kw) == ks.get(kw), site=A.where(sws), detail={"checker": kc.get(kw), "scanner": ks.get(kw)},
               what="reserved word \"%s\": checker says tag %s, scanner %s" % (kw, kc.get(kw), ks.get(kw)))
    # the case label under which the checker looks for a keyword is its first character (else it is never tried)
    tab = {}
    from ..rules import codec as C
    for lab, stmts in C.case_table(swc).items():
        if lab == "default":
            continue
        for s_ in stmts:
            for k_ in A.calls_in(s_, "skip_word"):
                tab.setdefault(chr(lab), set()).add(A.string_literal(A.kids(k_)[1]))
    badlab = [(l, w) for l, ws in tab.items() for w in ws if w and w[0] != l]
    ctx.ob("R11.2", "keywords reachable from their first character", not badlab, site=A.where(swc), detail={"by_label": {l: sorted(w) for l, w in tab.items()}},
           what="checker looks for %s under a case label that is not its first character" % badlab)
    # ---- R11.3
    probes_sep = R.separator_probes()
    nruns = 0
    for q in ("rtosc_count_printed_arg_vals", "rtosc_count_printed_arg_vals_of_msg", "rtosc_scan_arg_vals", "rtosc_scan_message"):
        fn = u.function(q)
        runs = R.separator_runs(u, fn)
        ctx.require(runs, "%s: no `while(*x == '%%')` comment loop found" % q)
        for k, (stmts, cur, w) in enumerate(runs):
            nruns += 1
            bad = []
            try:
                for t in probes_sep:
                    # a run that follows a value starts on white space or at the end; a leading run may start anywhere
                    got = R.run_separator(u, stmts, cur, t)
                    exp = R.expected_skip(t)
                    if got != exp:
                        bad.append({"text": t, "stops_at": got, "expected": exp})
            except FD.Unknown as e:
                raise AnalysisBroken("R11.3: separator skipping of %s not evaluable: %s" % (q, e))
            ctx.ob("R11.3", "%s#%d" % (q, k), not bad, site=A.where(w), detail={"statements": [A.src(s_)[:120] for s_ in stmts], "probes": len(probes_sep), "mismatches": bad[:6]},
                   key="R11.3:%s#%d" % (q, k),
                   what="%s does not skip every run of white space and %%-comments: e.g. on %r it stops at %s instead of %s" % (q, bad[0]["text"] if bad else "", bad[0]["stops_at"] if bad else "", bad[0]["expected"] if bad else ""))
    ctx.require(nruns >= 5, "R11.3: only %d separator-skipping sites found" % nruns)

    # ---- R11.5
    import itertools
    for q in ("types_match", "arraytypes_match"):
        fq = u.function(q)
        tags = sorted(set("ifsbhtdScrmTFNI-a"))
        tab = {}
        try:
            for a_, b_ in itertools.product(tags, tags):
                def call(name, args, n_):
                    f2 = u.function(name)
                    return FD.Eval(call=call).call_function(u, f2, args)
                tab[(a_, b_)] = 1 if FD.Eval(call=call).call_function(u, fq, [ord(a_), ord(b_)]) else 0
        except FD.Unknown as e:
            raise AnalysisBroken("R11.5: %s not evaluable: %s" % (q, e))
        asym = sorted(k for k in tab if tab[k] != tab[(k[1], k[0])])
        irr = [t for t in tags if not tab[(t, t)]]
        tf = tab[("T", "F")] and tab[("F", "T")]
        ctx.ob("R11.5", q, not asym and not irr and bool(tf), site=A.where(fq), detail={"pairs": len(tab), "asymmetric": ["%s/%s" % k for k in asym[:8]], "irreflexive": irr, "T~F": bool(tf)},
               what="%s is not a symmetric, reflexive relation with T~F: asymmetric on %s" % (q, ["%s/%s" % k for k in asym[:4]]))

    # ---- R11.7
    ab = [p_ for p_ in u.params(scn) if p_.get("name") == "args_before"]
    ctx.require(len(ab) == 1, "rtosc_scan_arg_val: parameter args_before not found")
    abid = ab[0]["id"]
    n7 = 0

    def conjuncts(e):
        e = A.strip_casts(e)
        if e.get("kind") == "BinaryOperator" and e.get("opcode") == "&&":
            return conjuncts(A.kids(e)[0]) + conjuncts(A.kids(e)[1])
        return [e]

    def lookbehind_depths(e):
        out = []
        for y in A.walk(e):
            if y.get("kind") == "ArraySubscriptExpr":
                k_ = A.int_literal(A.kids(y)[1])
                if k_ is not None and k_ < 0 and A.ref_name(A.kids(y)[0]) == "arg":
                    out.append(-k_)
            if y.get("kind") == "BinaryOperator" and y.get("opcode") == "-" and A.ref_name(A.kids(y)[0]) == "arg":
                k_ = A.int_literal(A.kids(y)[1])
                if k_ is not None and k_ > 0:
                    out.append(k_)
        return out
    for x in A.walk(u.body(scn)):
        if x.get("kind") != "ConditionalOperator":
            continue
        cj = conjuncts(A.kids(x)[0])
        bound = None
        for c_ in cj:
            if c_.get("kind") == "BinaryOperator" and c_.get("opcode") in (">", ">=") and A.ref_id(A.kids(c_)[0]) == abid:
                v = A.int_literal(A.kids(c_)[1])
                if v is not None:
                    bound = v + 1 if c_.get("opcode") == ">" else v
        if bound is None:
            continue
        depths = [d_ for c_ in cj for d_ in lookbehind_depths(c_)]
        if not depths:
            continue
        n7 += 1
        need = max(depths)
        ctx.ob("R11.7", "look-behind %d" % need, bound == need, site=A.where(x), detail={"guard_requires_values_before": bound, "deepest_access": "arg[-%d]" % need},
               key="R11.7:arg[-%d]" % need,
               what="arg[-%d] is read when at least %d values precede; exactly %d are needed" % (need, bound, need))
    ctx.require(n7 >= 2, "R11.7: guarded look-behind accesses not found (%d)" % n7)

    # ---- R11.6
    n6 = 0
    for q in ("rtosc_scan_arg_vals", "rtosc_scan_arg_val"):
        fq = u.function(q)
        for c in A.calls_in(u.body(fq), "rtosc_scan_arg_val"):
            a = A.kids(c)[1:]
            if len(a) < 7 or A.int_literal(a[6]) != 1:
                continue          # follow_ellipsis == 0: a single value is scanned, no look-behind
            n6 += 1
            vid = A.ref_id(a[5])
            how = []
            ok6 = False
            if vid is not None:
                ups = []
                for x in A.walk(u.body(fq)):
                    if x.get("kind") == "CompoundAssignOperator" and x.get("opcode") == "+=" and A.ref_id(A.kids(x)[0]) == vid:
                        r_ = A.strip_casts(A.kids(x)[1])
                        src_ok = False
                        if r_.get("kind") == "CallExpr" and A.callee_name(r_) == "next_arg_offset":
                            src_ok = True
                        elif r_.get("kind") == "DeclRefExpr":
                            dd = u.by_id.get(r_["referencedDecl"]["id"])
                            init = A.strip_casts(A.kids(dd)[-1]) if dd is not None and A.kids(dd) else None
                            src_ok = init is not None and init.get("kind") == "CallExpr" and A.callee_name(init) == "next_arg_offset"
                        ups.append(("+= next_arg_offset" if src_ok else "+= " + A.src(r_), src_ok))
                    elif x.get("kind") == "UnaryOperator" and x.get("opcode") in ("++", "--") and A.ref_id(A.kids(x)[0]) == vid:
                        ups.append((x.get("opcode"), False))
                how = [h for h, _ in ups]
                ok6 = bool(ups) and all(k_ for _, k_ in ups)
            ctx.ob("R11.6", "%s: args_before `%s`" % (q, A.src(a[5])), ok6, site=A.where(c), detail={"argument": A.src(a[5]), "updated_by": how},
                   key="R11.6:%s" % q,
                   what="%s hands rtosc_scan_arg_val the look-behind count `%s`, which is updated by %s - not the number of argument values written" % (q, A.src(a[5]), how))
    ctx.require(n6 >= 2, "R11.6: list-context calls of rtosc_scan_arg_val not found")

    # ---- R11.4
    n4 = 0
    for x in A.calls_in(u.body(scn), "sscanf"):
        args = A.kids(x)[1:]
        fmt = A.string_literal(args[1]) if len(args) > 1 else None
        if fmt is None or not fmt.endswith("%n"):
            continue
        convs = re.findall(r'%(\*?)(\d*)(?:l|ll|h|hh|j|z)?([diouxXfFeEgGaAcs]|\[[^\]]*\])', fmt[:-2])
        assigning = [c for c in convs if c[0] != "*"]
        if len(assigning) < 2:
            continue
        targets = args[2:2 + len(assigning)]
        nvar = A.strip_casts(args[2 + len(assigning)]) if len(args) > 2 + len(assigning) else None
        nid = None
        if nvar is not None and nvar.get("kind") == "UnaryOperator" and nvar.get("opcode") == "&":
            nid = A.ref_id(A.kids(nvar)[0])
        # is the %n result tested after the call (deciding sscanf)?
        parent = None
        stmt = x
        for p_ in u.ancestors(x):
            if p_.get("kind") == "CompoundStmt":
                parent = p_
                break
            stmt = p_
        sibs = A.kids(parent)
        after = sibs[sibs.index(stmt) + 1:] if stmt in sibs else []
        tests = []
        for s_ in after:
            if s_.get("kind") == "IfStmt" and A.ref_id(A.kids(s_)[0]) == nid:
                tests.append(s_)
                break
            # stop at the next assignment of the %n variable
            if any(y.get("kind") == "BinaryOperator" and y.get("opcode") == "=" and A.ref_id(A.kids(y)[0]) == nid for y in A.walk(s_)):
                break
        if not tests:
            continue
        n4 += 1
        guard = tests[0]
        leaks = []
        for t in targets:
            tt = A.strip_casts(t)
            if not (tt.get("kind") == "UnaryOperator" and tt.get("opcode") == "&"):
                leaks.append("target `%s` is not a plain variable" % A.src(t))
                continue
            lv = A.strip_casts(A.kids(tt)[0])
            base = lv
            while base.get("kind") in ("MemberExpr", "ArraySubscriptExpr"):
                base = A.strip_casts(A.kids(base)[0])
            bid = base.get("referencedDecl", {}).get("id") if base.get("kind") == "DeclRefExpr" else None
            text = re.sub(r'\s+', '', A.src(lv))
            for s_ in after:
                for y in A.walk(s_):
                    if y.get("kind") == "DeclRefExpr" and y["referencedDecl"]["id"] == bid:
                        # a read of the whole base object or of this very member
                        par = u.parent.get(y.get("id"))
                        whole = True
                        ytext = text
                        if lv.get("kind") == "MemberExpr":
                            whole = not (par is not None and par.get("kind") == "MemberExpr")
                            ytext = re.sub(r'\s+', '', A.src(par)) if not whole else None
                        if (whole or ytext == text) and not _inside(A.kids(guard)[1], y):
                            # assignments (re-initialisation) do not count as reads
                            asg = u.parent.get((par if not whole and par is not None else y).get("id"))
                            if asg is not None and asg.get("kind") == "BinaryOperator" and asg.get("opcode") == "=" and _inside(A.kids(asg)[0], y):
                                continue
                            leaks.append("`%s` read at %s outside `if(%s)`" % (text, A.where(y), A.src(A.kids(guard)[0])))
                            break
                if leaks and leaks[-1].startswith("`" + text):
                    break
        ctx.ob("R11.4", "sscanf \"%s\"" % fmt, not leaks, site=A.where(x), detail={"format": fmt, "assigning_conversions": len(assigning), "leaks": leaks[:4]},
               key="R11.4:sscanf:%s" % fmt,
               what="sscanf(\"%s\") decides an optional part but its partially converted values are used anyway: %s" % (fmt, leaks[:2]))
    ctx.require(n4 >= 1, "R11.4: no deciding multi-conversion sscanf found in rtosc_scan_arg_val")


def _inside(root, node):
    nid = node.get("id")
    for x in A.walk(root):
        if x.get("id") == nid:
            return True
    return False


def _stands_on_ellipsis(u, at, var_id, depth):
    """the variable, at statement `at`, is known to point at the literal `...`: it is the result of strstr(_, "..."), or a
    condition enclosing `at` compares it with that literal (strncmp / strstr), or it is a plain copy of such a variable"""
    def is_dots(e):
        return (A.string_literal(A.strip_casts(e)) or A.string_literal(e)) == "..."
    if depth > 4:
        return False
    # an enclosing condition that mentions the variable together with the literal
    for a in u.ancestors(at):
        if a.get("kind") == "IfStmt":
            for c in A.calls_in(A.kids(a)[0]):
                if A.callee_name(c) in ("strncmp", "strstr", "memcmp", "strcmp") and any(is_dots(x) for x in A.kids(c)[1:]) and \
                        any(A.ref_id(x) == var_id for x in A.kids(c)[1:]):
                    return True
        if a.get("kind") in ("FunctionDecl", "CXXMethodDecl"):
            fn = a
            break
    else:
        return False
    # its defining expressions: initialiser and assignments textually before `at`
    d = u.by_id.get(var_id)
    if d is not None and d.get("kind") == "ParmVarDecl" and fn.get("storageClass") == "static":
        # the parameter of a file-local helper: every call hands over a cursor that stands on an ellipsis
        ids_ = [p_["id"] for p_ in u.params(fn)]
        if var_id not in ids_:
            return False
        k_ = ids_.index(var_id)
        sites = [c for q_, fl_ in u.functions.items() for g in fl_ if u.body(g) is not None and g is not fn for c in A.calls_in(u.body(g), fn.get("name"))]
        if not sites:
            return False
        for c in sites:
            a_ = A.strip_casts(A.kids(c)[1 + k_]) if len(A.kids(c)) > 1 + k_ else {}
            # the statement the call stands in
            st_ = c
            for anc in u.ancestors(c):
                if anc.get("kind") == "CompoundStmt":
                    break
                st_ = anc
            if a_.get("kind") != "DeclRefExpr" or not _stands_on_ellipsis(u, st_, A.ref_id(a_), depth + 1):
                return False
        return True
    defs = []
    if d is not None and d.get("kind") == "VarDecl" and A.kids(d):
        defs.append((d, A.kids(d)[-1]))
    pos_at = (A.loc(at)[1] or 0, A.loc(at)[2] if len(A.loc(at)) > 2 else 0)
    for y in A.walk(u.body(fn)):
        if y.get("kind") == "BinaryOperator" and y.get("opcode") == "=" and A.ref_id(A.kids(y)[0]) == var_id and y is not at and (A.loc(y)[1] or 0) <= pos_at[0]:
            defs.append((y, A.kids(y)[1]))
    # the nearest one before `at`
    defs = [x for x in defs if (A.loc(x[0])[1] or 0) <= pos_at[0]]
    if not defs:
        return False
    node, e = max(defs, key=lambda x: A.loc(x[0])[1] or 0)
    e = A.strip_casts(e)
    if e.get("kind") == "CallExpr" and A.callee_name(e) == "strstr" and any(is_dots(x) for x in A.kids(e)[1:]):
        return True
    if e.get("kind") == "DeclRefExpr":
        return _stands_on_ellipsis(u, node, A.ref_id(e), depth + 1)
    return False

def left_neighbour_checker(ctx, u, rule):
    # ---- R11.14: the checker's choice of the left neighbour tells arrays apart (sibling of R11.12)
    ctx.rule(rule, "LOOKBEHIND-KINDS (checker): where the checker looks for the value a range counts on from - the text of the previous argument - it sets an array apart (its first character '[' or its type 'a') and a quoted string (its first character or its type); an ellipsis inside either is not the end of a preceding range, and the scanner (R11.12) does not count on from an array")
    chk14 = u.function("rtosc_skip_next_printed_arg")
    # the checker itself, or the file-local helper it hands the range check (and the cursor) to
    bodies14 = [chk14]
    for _ in range(2):
        for f_ in list(bodies14):
            for c in A.calls_in(u.body(f_)):
                for g_ in u.functions.get(A.callee_name(c) or "", []):
                    if g_ not in bodies14 and u.body(g_) is not None and g_.get("storageClass") == "static":
                        bodies14.append(g_)
    llp_all = [(f_, p_) for f_ in bodies14 for p_ in u.params(f_) if "char" in (A.qtype(p_) or "") and "*" in (A.qtype(p_) or "") and any(
        y.get("kind") == "CallExpr" and A.callee_name(y) == "strstr" and A.ref_id(A.kids(y)[1]) == p_["id"] for y in A.walk(u.body(f_)))]
    ctx.require(len(llp_all) == 1, rule + ": the checker's cursor to the previous argument (searched for an ellipsis) was not found")
    chk14, llp = llp_all[0][0], [llp_all[0][1]]
    blocks14 = [x for x in A.walk(u.body(chk14)) if x.get("kind") == "IfStmt" and A.ref_id(A.kids(x)[0]) == llp[0]["id"]]
    ctx.require(len(blocks14) == 1, rule + ": the block guarded by the previous-argument cursor was not found (%d)" % len(blocks14))
    lits14 = set()
    for x in A.walk(A.kids(blocks14[0])[1]):
        if x.get("kind") == "BinaryOperator" and x.get("opcode") in ("==", "!="):
            for side in A.kids(x):
                v = A.int_literal(side)
                if v in (ord("["), ord("a"), ord('"'), ord("s"), ord("S")):
                    lits14.add(chr(v))
        if x.get("kind") == "CaseStmt" and A.int_literal(A.kids(x)[0]) in (ord("["), ord("a"), ord('"'), ord("s"), ord("S")):
            lits14.add(chr(A.int_literal(A.kids(x)[0])))
    ctx.ob(rule, "left neighbour of a range (checker): strings", bool(lits14 & {'"', "s", "S"}), site=A.where(blocks14[0]), detail={"markers_compared": sorted(lits14)},
           key=rule + ":left neighbour:strings",
           what="the checker searches the text of the previous argument for an ellipsis without setting quoted strings apart: the printed text `\"x... 7 \" 1 ... 6` (a string that contains three dots, then a range) is rejected")
    ctx.ob(rule, "left neighbour of a range (checker)", bool(lits14 & {"[", "a"}), site=A.where(blocks14[0]), detail={"array_markers_compared": sorted(lits14)},
           key=rule + ":left neighbour",
           what="the checker takes the text after the first ellipsis of the previous argument as the value a range counts on from, without setting arrays apart: `[1 ... 3] 5 ... 8` is rejected (step 5-3 = 2 does not reach 8) while the scanner reads 5 6 7 8")

