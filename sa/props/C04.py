"""C04 - Dispatch delivers a message to exactly the port it addresses (protocol clauses; DESIGN.md section 2, C04)."""
import re

from .. import astlib as A
from .. import fdeval as FD
from ..facts import AnalysisBroken
from ..rules import flow as FL
from ..rules import guard as G

LEVEL = "other"
EXPLANATION = ("Protocol clauses of Ports::dispatch decided on its -O0 IR and AST: (R04.1) every port callback invocation is "
               "dominated by the store of that very port into d.port, and after every callback (port or default handler) the "
               "entry-saved runtime object is restored into d.obj before the next iteration or return; (R04.2) in both location "
               "branches every path from a callback to the loop back-edge or a return passes the truncation of d.loc at old_end, "
               "and the appended path is NUL-terminated before the callback sees it; (R04.3) in the location branches each port "
               "callback is preceded by exactly one d.matches++ guarded by !port.ports, each default-handler call by an "
               "unconditional one; (R04.4) the three hand-written copies of the type-tag matcher are the same function up to "
               "renaming; (R04.5) every function that mutates Ports::ports is followed on all paths by refreshMagic(); (R04.6) "
               "the hash dispatch computes at run time is the formula the table was built with (same guard `p < length`, same "
               "accumulation, same initial value) and its range check precedes the table access. Whether hashed lookup and linear "
               "scan accept the same language for every table is not decided.")
TRUSTED = ["clang 14 AST/-O0 IR", "sa/irlib.py dominators", "sa/rules/flow.py instruction-level path search"]
ASSUMPTIONS = ["user callbacks do not themselves corrupt d.loc beyond old_end", "exceptional (unwind) edges leave the protocol and are not followed"]

UNIT = "ports.cpp"


def field_index(u, rec, name):
    recs = [r for r in u.records.get(rec, []) if any(c.get("kind") == "FieldDecl" for c in A.kids(r))]
    if not recs:
        raise AnalysisBroken("anchor vanished: struct %s" % rec)
    r = recs[0]
    fields = [c.get("name") for c in A.kids(r) if c.get("kind") == "FieldDecl"]
    virt = any(c.get("virtual") for c in A.kids(r) if c.get("kind") in ("CXXMethodDecl", "CXXDestructorDecl"))
    if name not in fields:
        raise AnalysisBroken("anchor vanished: field %s::%s" % (rec, name))
    return fields.index(name) + (1 if virt else 0)


def geps(fn, tyname):
    out = {}
    for i in fn.insts():
        if i.op == "getelementptr" and ('%"' + tyname + '"') in i.text.split(",")[0]:
            m = re.search(r'i32 0, i32 (\d+)\s*$', i.text.split(", !dbg")[0])
            if m:
                out[i.res] = int(m.group(1))
    return out


def norm_matcher(u, fn):
    """canonical text of a type-matcher clone"""
    names = {}
    k = 0
    for x in A.walk(fn):
        if x.get("kind") in ("ParmVarDecl", "VarDecl") and x.get("id") not in names:
            names[x["id"]] = "v%d" % k
            k += 1
    body = u.body(fn)
    txt = A.src(body, names)
    selfname = fn.get("name")
    txt = re.sub(r'\b%s\(' % re.escape(selfname), "SELF(", txt)
    txt = re.sub(r'this->', '', txt)
    return txt


PROBE_PATTERNS = None


def _probe_patterns():
    global PROBE_PATTERNS
    if PROBE_PATTERNS is None:
        import itertools
        out = [""]
        for n in range(1, 6):
            out += ["".join(t) for t in itertools.product(":if", repeat=n)]
        PROBE_PATTERNS = out
    return PROBE_PATTERNS


PROBE_ARGS = ["", "i", "f", "ii", "if", "fi", "ff", "iif"]
_PB, _AB, _MB = 4096, 8192, 12288


def matcher_table(unit, fn, takes_message):
    """{(pattern, type string): verdict} of one copy of the type-tag matcher, evaluated on the probe set.  Strings live in a
    flat memory (pattern / type string / opaque message); rtosc_argument_string(message) yields the type string; calls of
    functions of the unit (the copy itself when it retries, or a sibling it delegates to) are evaluated in turn."""
    table = {}
    for pat in _probe_patterns():
        for args0 in PROBE_ARGS:
          # the copies scan on past the type string's terminator when an alternative is longer than it: what lies there
          # (padding, then argument data) is tried both as zeros and as bytes that look like a type tag
          for junk in (0, ord("i")):
            args = args0

            def deref(addr, n, pat=pat, args=args, junk=junk):
                if _PB <= addr < _AB:
                    k = addr - _PB
                    if k > len(pat):
                        raise FD.Unknown("read past the end of the pattern", n)
                    return ord(pat[k]) if k < len(pat) else 0
                if _AB <= addr < _MB:
                    k = addr - _AB
                    if k > len(args) + 8:
                        raise FD.Unknown("read far past the end of the type string", n)
                    return ord(args[k]) if k < len(args) else (0 if k == len(args) else junk)
                raise FD.Unknown("read of the opaque message", n)
            depth = [0]

            def call(name, vals, n):
                if name == "rtosc_argument_string":
                    if vals != [_MB]:
                        raise FD.Unknown("rtosc_argument_string of something else than the message", n)
                    return _AB
                fns = [f for f in unit.functions.get(name, []) if unit.body(f) is not None]
                if not fns:
                    fns = [f for q, fl in unit.functions.items() if q.endswith("::" + str(name)) for f in fl if unit.body(f) is not None]
                if len(fns) != 1:
                    raise FD.Unknown("call to %s" % name, n)
                depth[0] += 1
                if depth[0] > 12:
                    raise FD.Unknown("retry recursion too deep", n)
                return ev.call_function(unit, fns[0], vals)

            def hook(n, evl):
                if n.get("kind") == "CXXMemberCallExpr":
                    callee = A.strip_casts(A.kids(n)[0])
                    return call(callee.get("name"), [evl.ev(a) for a in A.kids(n)[1:]], n)
                return NotImplemented
            ev = FD.Eval(deref=deref, call=call, node_hook=hook, max_steps=4000)
            try:
                r = ev.call_function(unit, fn, [_PB, _MB if takes_message else _AB])
            except FD.Unknown as e:
                # a copy that presupposes the ':' it stands on (asserts it, or steps over it unread) has no verdict for
                # a pattern without one; whether it is ever handed such a pattern is decided at its call sites
                if not pat.startswith(":") and ("read past the end of the pattern" in str(e) or "__assert_fail" in str(e)):
                    table[(pat, args, junk)] = None
                    continue
                raise
            table[(pat, args, junk)] = 1 if r else 0
    return table


def _colon_guarded_callers(unit, fn):
    """every call of fn from outside its own body hands over a pointer variable that stands on a ':' - the call sits in the
    then-branch of `if(*v == ':')`, or behind an earlier `if(*v != ':') return ...;` of an enclosing block with no store to
    v in between.  -> (True, sites) | (False, reason)"""
    name = fn.get("name")
    sites = []
    for q, fns in unit.functions.items():
        for g in fns:
            b = unit.body(g)
            if b is None or g is fn:
                continue
            for c in A.calls_in(b, name):
                a0 = A.strip_casts(A.kids(c)[1]) if len(A.kids(c)) > 1 else None
                if a0 is None or a0.get("kind") != "DeclRefExpr":
                    return False, "call at %s hands over %s" % (A.where(c), A.src(a0)[:40] if a0 else "nothing")
                v = a0.get("referencedDecl", {}).get("name")
                vid = a0.get("referencedDecl", {}).get("id")
                eq = re.compile(r"^\(*\*\s*%s\s*==\s*':'\)*$" % re.escape(v))
                ne = re.compile(r"^\(*\*\s*%s\s*!=\s*':'\)*$" % re.escape(v))
                ok = False
                child = c
                for anc in unit.ancestors(c):
                    ks = A.kids(anc)
                    if anc.get("kind") == "IfStmt" and len(ks) >= 2 and eq.match(A.src(ks[0]).strip()) and any(y is child for y in A.walk(ks[1])):
                        ok = True
                        break
                    if anc.get("kind") == "CompoundStmt":
                        idx = next((i for i, s_ in enumerate(ks) if any(y is c for y in A.walk(s_))), None)
                        guard = None
                        for i, s_ in enumerate(ks[:idx or 0]):
                            sk = A.kids(s_)
                            if s_.get("kind") == "IfStmt" and len(sk) == 2 and ne.match(A.src(sk[0]).strip()):
                                body = sk[1]
                                last = A.kids(body)[-1] if body.get("kind") == "CompoundStmt" and A.kids(body) else body
                                if last.get("kind") == "ReturnStmt":
                                    guard = i
                        if guard is not None:
                            stores = [y for s_ in ks[guard + 1:idx] for y in A.walk(s_)
                                      if (y.get("kind") in ("BinaryOperator", "CompoundAssignOperator") and y.get("opcode", "").endswith("=") and y.get("opcode") not in ("==", "!=", "<=", ">=") and A.ref_id(A.kids(y)[0]) == vid)
                                      or (y.get("kind") == "UnaryOperator" and y.get("opcode") in ("++", "--", "&") and A.ref_id(A.kids(y)[0]) == vid)]
                            if not stores:
                                ok = True
                                break
                    if anc.get("kind") in ("FunctionDecl", "CXXMethodDecl"):
                        break
                if not ok:
                    return False, "call at %s is not under a test that the pattern stands on ':'" % A.where(c)
                sites.append(A.where(c))
    if not sites:
        return False, "no call of %s from outside found" % name
    return True, sites


def matcher_clone_obligations(ctx, rule):
    """The copies of the type-tag matcher that exist decide alike: each is evaluated (finite-domain, on the AST) over every
    pattern of up to five characters from {':','i','f'} against eight type strings and the verdict tables must be equal -
    however a copy is written, including a copy that delegates to a sibling.  A copy that takes the type string as a
    parameter is only ever handed rtosc_argument_string(<message>)."""
    u = ctx.ast(UNIT)
    ud = ctx.ast("dispatch.c")
    c1 = ud.function("rtosc_match_args")
    try:
        t1 = matcher_table(ud, c1, True)
    except FD.Unknown as e:
        raise AnalysisBroken("%s: dispatch.c:rtosc_match_args not evaluable: %s" % (rule, e))
    if any(v is None for v in t1.values()):
        if any(v is None for k, v in t1.items() if k[0].startswith(":")):
            raise AnalysisBroken("%s: dispatch.c:rtosc_match_args not evaluable on a pattern that starts with ':'" % rule)
        okg, why = _colon_guarded_callers(ud, c1)
        if not okg:
            raise AnalysisBroken("%s: dispatch.c:rtosc_match_args presupposes the ':' it stands on, and %s" % (rule, why))
        t1 = {k: (v if k[0].startswith(":") else None) for k, v in t1.items()}
        ctx.note("%s: dispatch.c:rtosc_match_args presupposes the ':' it stands on; every outside call (%s) is made under a test of that ':' - the copies are compared on the patterns that start with one" % (rule, ", ".join(why)))
    others = [("ports.cpp:arg_matcher", u.function("arg_matcher", required=False), False),
              ("ports.cpp:Port_Matcher::rtosc_match_args", u.function("Port_Matcher::rtosc_match_args", required=False), True)]
    present = [(n, f, tm) for n, f, tm in others if f is not None]
    ctx.require(present, "no copy of the type-tag matcher left in ports.cpp")
    takes_string = []
    for name, fn, tm in present:
        try:
            t2 = matcher_table(u, fn, tm)
        except FD.Unknown as e:
            if tm and "opaque message" in str(e):
                # the copy reads its second parameter as the type string itself (it is handed the string its caller looked up):
                # evaluated that way, its outside call sites checked like arg_matcher's below
                try:
                    t2 = matcher_table(u, fn, False)
                    takes_string.append((name, fn))
                except FD.Unknown as e2:
                    raise AnalysisBroken("%s: %s not evaluable: %s" % (rule, name, e2))
            else:
                raise AnalysisBroken("%s: %s not evaluable: %s" % (rule, name, e))
        if any(v is None for v in t2.values()):
            raise AnalysisBroken("%s: %s has no verdict on a pattern without ':' (its callers hand over a port's whole argument specification)" % (rule, name))
        diff = [{"pattern": k[0], "type_string": k[1], "bytes_after_terminator": k[2], "dispatch.c": t1[k], name: t2[k]} for k in sorted(t1) if t1[k] is not None and t1[k] != t2[k]]
        ctx.ob(rule, "dispatch.c:rtosc_match_args == %s" % name, not diff, site=A.where(fn), detail={"probes": sum(1 for v_ in t1.values() if v_ is not None), "admitted": sum(v_ or 0 for v_ in t1.values()), "differences": diff[:6]},
               what="the type-tag matcher %s decides differently from dispatch.c's rtosc_match_args (e.g. %s): which type strings a port admits depends on the lookup strategy" % (name, diff[:2]))
    # call sites of the copies that take the type string itself
    am = u.function("arg_matcher", required=False)
    for am, amname in ([(am, "arg_matcher")] if am is not None else []) + [(f_, f_.get("name")) for _n, f_ in takes_string]:
        for q, fns in u.functions.items():
            for fn in fns:
                if fn is am:
                    continue
                for c in [c_ for c_ in A.walk(u.body(fn)) if c_.get("kind") in ("CallExpr", "CXXMemberCallExpr") and
                          (A.callee_name(c_) or (A.strip_casts(A.kids(c_)[0]).get("name") if A.kids(c_) else None)) == amname] if u.body(fn) is not None else []:
                    a = A.strip_casts(A.kids(c)[2])
                    ok = a.get("kind") == "CallExpr" and A.callee_name(a) == "rtosc_argument_string"
                    if not ok and a.get("kind") == "DeclRefExpr":
                        d = u.by_id.get(a["referencedDecl"]["id"])
                        init = A.strip_casts(A.kids(d)[-1]) if d is not None and A.kids(d) else None
                        ok = init is not None and init.get("kind") == "CallExpr" and A.callee_name(init) == "rtosc_argument_string" and \
                            not any(y.get("kind") in ("BinaryOperator", "UnaryOperator", "CompoundAssignOperator") and A.ref_id(A.kids(y)[0]) == d["id"] and y.get("opcode") in ("=", "++", "--", "+=")
                                    for y in A.walk(u.body(fn)))
                    ctx.ob(rule, "%s -> %s type string" % (q, amname), ok, site=A.where(c), detail={"argument": A.src(a)},
                           what="%s hands %s `%s` as the type string instead of rtosc_argument_string(message)" % (q, amname, A.src(a)))


# ---------------------------------------------------------------------------------------------------------------------
# R04.7: the verification step of the hashed lookup decides like the documented matching of a literal name

_NB, _MSGB = 20000, 30000
HM_NAMES = ["a", "ab", "abcd", "a/", "ab/", "b"]
HM_MSGS = ["a", "ab", "abc", "abcd", "abcde", "a/", "a/b", "ab/", "ab/c", "b", "ba", ""]


def hard_match_table(u, fn):
    """{(name, address): verdict of Port_Matcher::hard_match} with fixed[i] = name, no argument spec"""
    tab = {}
    for name in HM_NAMES:
        for msg in HM_MSGS:
            def deref(addr, n, name=name, msg=msg):
                if _NB <= addr <= _NB + len(name):
                    return ord(name[addr - _NB]) if addr - _NB < len(name) else 0
                if _MSGB <= addr <= _MSGB + len(msg) + 3:
                    return ord(msg[addr - _MSGB]) if addr - _MSGB < len(msg) else 0
                raise FD.Unknown("read outside the probe strings", n)

            def strn(a, b, n_, node):
                for k in range(n_):
                    x, y = deref(a + k, node), deref(b + k, node)
                    if x != y:
                        return -1 if x < y else 1
                    if x == 0:
                        return 0
                return 0

            def hook(n, ev, name=name):
                k = n.get("kind")
                if k == "CXXOperatorCallExpr" and "operator[]" in A.src(A.kids(n)[0]):
                    base = A.strip_casts(A.kids(n)[1])
                    if base.get("kind") == "MemberExpr" and base.get("name") == "fixed":
                        return "NAME"
                    if base.get("kind") == "MemberExpr" and base.get("name") == "arg_spec":
                        return 0
                    obj_ = ev.ev(A.kids(n)[1])
                    if obj_ == "NAME":                       # name[i] on the std::string
                        i_ = ev.ev(A.kids(n)[2])
                        if not 0 <= i_ <= len(name):
                            raise FD.Unknown("std::string index out of range", n)
                        return ord(name[i_]) if i_ < len(name) else 0
                if k == "CXXMemberCallExpr":
                    callee = A.strip_casts(A.kids(n)[0])
                    if callee.get("kind") == "MemberExpr" and A.kids(callee):
                        obj = ev.ev(A.kids(callee)[0])
                        if obj == "NAME":
                            m_ = callee.get("name")
                            if m_ in ("c_str", "data"):
                                return _NB
                            if m_ in ("length", "size"):
                                return len(name)
                            if m_ == "empty":
                                return 1 if not name else 0
                            if m_ == "back":
                                if not name:
                                    raise FD.Unknown("back() of an empty name", n)
                                return ord(name[-1])
                            if m_ == "front":
                                return ord(name[0]) if name else 0
                            raise FD.Unknown("std::string::%s" % m_, n)
                if k == "ArraySubscriptExpr":
                    b_ = ev.ev(A.kids(n)[0])
                    i_ = ev.ev(A.kids(n)[1])
                    if isinstance(b_, int):
                        return deref(b_ + i_, n)
                return NotImplemented

            def call(nm, vals, n):
                if nm == "strncmp" or nm == "memcmp":
                    return strn(vals[0], vals[1], vals[2], n)
                if nm == "strcmp":
                    return strn(vals[0], vals[1], 10 ** 4, n)
                if nm == "strlen":
                    k_ = 0
                    while deref(vals[0] + k_, n):
                        k_ += 1
                    return k_
                raise FD.Unknown("call to %s" % nm, n)
            ev = FD.Eval(deref=deref, call=call, node_hook=hook, max_steps=3000)
            r = ev.call_function(u, fn, [0, _MSGB])
            tab[(name, msg)] = 1 if r else 0
    return tab


def literal_name_matches(name, address):
    """the documented meaning of a literal port name: a subtree `name/` takes every address below it, any other name
    only the address that spells it"""
    return address.startswith(name) if name.endswith("/") else address == name


def run(ctx):
    u = ctx.ast(UNIT)
    m = ctx.ir(UNIT)
    P = ctx.program_of("ports.cpp")
    ctx.rule("R04.1", "CB-PROTOCOL: a store of the invoked port into d.port dominates every port callback; after every callback d.obj is restored from the entry-saved object before the next iteration / return")
    ctx.rule("R04.2", "LOC-RESTORE: in the location branches every path from a callback to a loop back-edge or return truncates d.loc at old_end; byte-wise appends to d.loc are NUL-terminated before the callback")
    ctx.rule("R04.3", "MATCH-COUNT: in the location branches d.matches is incremented exactly for leaf ports (guard !port.ports) before the callback, and unconditionally before each default-handler call")
    ctx.rule("R04.4", "ARGMATCH-CLONES: rtosc_match_args (dispatch.c), arg_matcher and Port_Matcher::rtosc_match_args (ports.cpp) are the same function up to renaming and the way the type string is obtained")
    ctx.rule("R04.5", "REFRESH: every constructor that fills Ports::ports calls refreshMagic() after the last mutation on every path")
    ctx.rule("R04.6", "HASH-AGREE: the run-time hash in Ports::dispatch equals the build-time formula of do_hash (initial value = length, guard p < length, += assoc[str[p]]), and the range check against remap.size() precedes remap[t]")
    f = [x for x in m.functions.values() if re.match(r'^rtosc::Ports::dispatch\([^()]*\)( const)?$', P.dm(x.name))]
    ctx.require(len(f) == 1, "Ports::dispatch not found in IR")
    f = f[0]
    I_obj, I_port, I_matches, I_loc = (field_index(u, "RtData", n) for n in ("obj", "port", "matches", "loc"))
    P_ports, P_cb = field_index(u, "Port", "ports"), field_index(u, "Port", "cb")
    rt = geps(f, "struct.rtosc::RtData")
    pt = geps(f, "struct.rtosc::Port")
    defs = f.defs()
    obj_slot = FL.slot_of_local(f, "obj")
    oldend_slot = FL.slot_of_local(f, "old_end")
    ctx.require(obj_slot and oldend_slot, "Ports::dispatch: locals obj / old_end not found")
    # callback invocations: calls of std::function::operator()
    CBRE = r'^std::function<void \(char const\*, rtosc::RtData&\)>::operator\(\)'
    cbs = [c for c in f.calls() if not c.indirect and re.match(CBRE, P.dm(c.callee))]
    # a local lambda ([&]) or helper of the unit that wraps one callback invocation - typically `count, call the default handler,
    # restore d.obj` - stands for that invocation at each of its call sites; what it does itself (the count in front of the call,
    # the restore behind it from the captured `obj`) is established on its own body
    helper_facts = {}
    for c in f.calls():
        if c.indirect or not c.callee or c.callee not in m.functions or c.callee == f.name:
            continue
        h = m.functions[c.callee]
        if not h.blocks:
            continue
        hcbs = [x for x in h.calls() if not x.indirect and re.match(CBRE, P.dm(x.callee))]
        if len(hcbs) != 1:
            continue
        # only a lambda of dispatch itself whose one invocation is the table's default handler is followed; any other helper
        # (one that wraps a port's callback, a function of the unit) is left alone - the count below then says "no verdict"
        if not re.search(r'::\$_\d+::operator\(\)|\{lambda', P.dm(c.callee)):
            continue
        hdefs0 = h.defs()
        tgt0 = hdefs0.get(hcbs[0].args[0])
        I_dh = field_index(u, "Ports", "default_handler")
        if not (tgt0 is not None and tgt0.op == "getelementptr" and '%"struct.rtosc::Ports"' in tgt0.text.split(",")[0] and re.search(r'i32 0, i32 %d\s*$' % I_dh, tgt0.text.split(", !dbg")[0])):
            continue
        if c.callee not in helper_facts:
            hcb = hcbs[0]
            hdefs = h.defs()
            hrt = geps(h, "struct.rtosc::RtData")
            incs_h = []
            rest_h = []
            for i in h.insts():
                if i.op != "store":
                    continue
                v, p_ = G.parse_store(i)
                if p_ in hrt and hrt[p_] == I_matches:
                    dv = hdefs.get(v)
                    if dv is not None and dv.op == "add" and re.search(r', 1\b', dv.text):
                        incs_h.append(i)
                elif p_ in hrt and hrt[p_] == I_obj:
                    # the value: load of (load of closure field k), field k bound in dispatch to the address of `obj`
                    dv = hdefs.get(v)
                    src = hdefs.get(G.parse_load(dv)) if dv is not None and dv.op == "load" else None
                    fld = hdefs.get(G.parse_load(src)) if src is not None and src.op == "load" else None
                    mk = re.search(r'getelementptr inbounds %(class\.anon[.\d]*), %\1\* %[-\w.]+, i32 0, i32 (\d+)', fld.text) if fld is not None and fld.op == "getelementptr" else None
                    if mk:
                        bound = False
                        for j in f.insts():
                            if j.op == "store":
                                jv, jp = G.parse_store(j)
                                jd = defs.get(jp)
                                if jv == obj_slot and jd is not None and jd.op == "getelementptr" and re.search(r'%%%s\* %%[-\w.]+, i32 0, i32 %s\s*$' % (re.escape(mk.group(1)), mk.group(2)), jd.text.split(", !dbg")[0]):
                                    bound = True
                        if bound:
                            rest_h.append(i)
            hrets = [i for i in h.insts() if i.op == "ret"]
            helper_facts[c.callee] = {
                "counts": any(mi.block is hcb.block and h.dominates(mi, hcb) for mi in incs_h) and len(incs_h) == 1,
                "any_count": bool(incs_h),
                "restores": bool(rest_h) and FL.escapes(h, hcb, rest_h, hrets) is None,
                "loops": bool(FL.back_edges(h)),
            }
        ctx.require(not helper_facts[c.callee]["loops"], "Ports::dispatch: the helper %s that invokes a callback contains a loop" % P.dm(c.callee))
        cbs.append(c)
    helper_calls = {id(c): helper_facts[c.callee] for c in cbs if c.callee in helper_facts}
    if helper_calls:
        ctx.note("Ports::dispatch: %d call(s) of a local helper that wraps one callback invocation stand for that invocation (%s)" % (len(helper_calls), ", ".join(sorted({P.dm(k_)[-40:] for k_ in helper_facts}))))
    ctx.require(len(cbs) >= 5, "Ports::dispatch: expected at least 5 callback invocations (3 port.cb, default_handler in every lookup branch), found %d" % len(cbs))

    def cb_kind(c):
        """('port', slot of the Port pointer) or ('default', None)"""
        if id(c) in helper_calls:
            return "default", None
        o = defs.get(c.args[0])
        if o is not None and o.op == "getelementptr" and c.args[0] in pt and pt[c.args[0]] == P_cb:
            base = defs.get(o.ops[0])
            if base is not None and base.op == "load":
                return "port", G.parse_load(base)
        return "default", None
    port_stores = []   # stores into d.port
    obj_restores = []
    match_incs = []
    for i in f.insts():
        if i.op == "store":
            v, p = G.parse_store(i)
            if p in rt and rt[p] == I_port:
                port_stores.append(i)
            elif p in rt and rt[p] == I_obj:
                dv = defs.get(v)
                if dv is not None and dv.op == "load" and G.parse_load(dv) == obj_slot:
                    obj_restores.append(i)
            elif p in rt and rt[p] == I_matches:
                dv = defs.get(v)
                if dv is not None and dv.op == "add" and "1" in dv.text.split(",")[-2:][0] + dv.text:
                    match_incs.append(i)
    oldend_defs = [i for i in f.insts() if i.op == "store" and G.parse_store(i)[1] == oldend_slot]
    ctx.require(len(oldend_defs) >= 1, "Ports::dispatch: definition of old_end not found")
    oe_loads = FL.loads_of(f, oldend_slot)
    # truncations: tmp = old_end (linear branch)  /  old_end[0] = 0 (hashed branch)
    truncs = []
    for i in f.insts():
        if i.op == "store":
            v, p = G.parse_store(i)
            if v in oe_loads and p != oldend_slot and defs.get(p) is not None and defs[p].op == "alloca":
                # pointer copied into a local that is then used to zero the tail
                slot = p
                zero = [z for z in f.insts() if z.op == "store" and G.parse_store(z)[0] == "0" and defs.get(G.parse_store(z)[1]) is not None and
                        defs[G.parse_store(z)[1]].op == "load" and G.parse_load(defs[G.parse_store(z)[1]]) == slot]
                nonzero = [z for z in f.insts() if z.op == "store" and G.parse_store(z)[0] != "0" and defs.get(G.parse_store(z)[1]) is not None and
                           defs[G.parse_store(z)[1]].op == "load" and G.parse_load(defs[G.parse_store(z)[1]]) == slot]
                if zero and not nonzero:
                    truncs.append(i)
            elif v == "0" and (p in oe_loads or (defs.get(p) is not None and defs[p].op == "getelementptr" and defs[p].ops and defs[p].ops[0] in oe_loads and re.search(r'i64 0\s*$', defs[p].text.split(", !dbg")[0]))):
                truncs.append(i)
    # memset(old_end, 0, n) / zero-length-preserving library cuts count as truncation too
    for c in f.calls():
        if c.callee and (c.callee.startswith("llvm.memset") or c.callee == "memset") and len(c.args) >= 2 and c.args[0] in oe_loads and c.args[1] == "0":
            truncs.append(c)
    rets = [i for i in f.insts() if i.op == "ret"]
    nloc = 0
    for k, c in enumerate(cbs):
        kind, pslot = cb_kind(c)
        name = "%s callback @%s" % (kind, c.line)
        in_loc = any(f.dominates(d, c) for d in oldend_defs)
        # ---- R04.1
        if kind == "port":
            ok = False
            for s in port_stores:
                v, _ = G.parse_store(s)
                dv = defs.get(v)
                if dv is not None and dv.op == "load" and G.parse_load(dv) == pslot and f.dominates(s, c):
                    ok = True
            ctx.ob("R04.1", name + ": d.port", ok, site=c.where(), what="the port callback at %s runs without d.port having been set to that port" % c.where())
        sinks = FL.loop_latches_for(f, c) + rets
        esc = None if (id(c) in helper_calls and helper_calls[id(c)]["restores"]) else FL.escapes(f, c, obj_restores, sinks)
        ctx.ob("R04.1", name + ": d.obj restored", esc is None, site=c.where(),
               what="after the callback at %s a path reaches %s without restoring d.obj" % (c.where(), esc.where() if esc is not None else ""))
        # ---- R04.2
        if in_loc and kind == "port":
            nloc += 1
            esc = FL.escapes(f, c, truncs, sinks)
            ctx.ob("R04.2", name + ": d.loc truncated", esc is None, site=c.where(),
                   what="after the callback at %s a path reaches %s without cutting d.loc back to old_end" % (c.where(), esc.where() if esc is not None else ""))
        # ---- R04.3
        if in_loc:
            incs = [mi for mi in match_incs if f.reaches(mi, c)]
            # nearest controlling branch of the increment tests port.ports
            if kind == "port":
                good = []
                for mi in incs:
                    guarded = False
                    for pl in mi.block.preds:
                        pb = f.bmap[pl]
                        t = pb.insts[-1]
                        if t.op == "br" and len(t.succs) == 2 and t.ops:
                            cond = defs.get(t.ops[0])
                            if cond is not None and cond.op == "icmp" and "null" in cond.text:
                                ld = defs.get(cond.ops[0]) if cond.ops else None
                                if ld is not None and ld.op == "load" and G.parse_load(ld) in pt and pt[G.parse_load(ld)] == P_ports:
                                    pred = cond.text.split()[1]
                                    null_succ = t.succs[0] if pred == "eq" else t.succs[1]
                                    guarded = (null_succ == mi.block.label)
                    if guarded and not f.dominates(mi, c):
                        good.append(mi)
                # increments belonging to this callback: those between the matching decision and the call in the same iteration
                mine = [mi for mi in incs if not any(f.reaches(mi, o) and f.reaches(o, c) for o in cbs if o is not c)]
                ok = len(mine) == 1 and mine[0] in good
                ctx.ob("R04.3", name, ok, site=c.where(), detail={"increments_reaching": [x.where() for x in mine], "guarded_by_not_port_ports": [x.where() for x in good]},
                       what="port callback at %s: d.matches++ guarded by !port.ports expected exactly once before it, found %s" % (c.where(), [x.where() for x in mine]))
            else:
                mine = [mi for mi in incs if f.dominates(mi, c) and mi.block is c.block or (f.dominates(mi, c) and not any(f.reaches(mi, o) and f.reaches(o, c) for o in cbs if o is not c))]
                mine = [mi for mi in mine if mi.block is c.block]
                if id(c) in helper_calls and helper_calls[id(c)]["any_count"]:
                    # the helper counts itself: exactly once in front of its call, and the caller does not count again
                    okh = helper_calls[id(c)]["counts"] and not mine
                    ctx.ob("R04.3", name, okh, site=c.where(), detail={"counted_inside_the_helper": helper_calls[id(c)]["counts"], "increments_at_the_call_site": [x.where() for x in mine]},
                           what="default handler at %s: expected one unconditional d.matches++ right before it (inside the helper that wraps it, and none at the call site)" % c.where())
                    continue
                ctx.ob("R04.3", name, len(mine) == 1, site=c.where(), detail={"increments": [x.where() for x in mine]},
                       what="default handler at %s: expected one unconditional d.matches++ right before it" % c.where())
    ctx.require(nloc == 2, "Ports::dispatch: expected 2 port callbacks in the location branches, found %d" % nloc)
    # NUL termination of byte-wise appends to d.loc
    appends, nuls = [], []
    pos_slots = set()
    for i in f.insts():
        if i.op == "store":
            v, p = G.parse_store(i)
            if v in oe_loads and p != oldend_slot and defs.get(p) is not None and defs[p].op == "alloca":
                pos_slots.add(p)
    for i in f.insts():
        if i.op == "store" and "i8 " in i.text.split(",")[0] and "i8*" in i.text:
            v, p = G.parse_store(i)
            dp = defs.get(p)
            if dp is not None and dp.op == "load" and G.parse_load(dp) in pos_slots and not any(i is t for t in truncs):
                # through a cursor initialised from old_end
                z = [t for t in truncs if G.parse_store(t)[1] == G.parse_load(dp)]
                if z:
                    continue   # this cursor is the zeroing `tmp`
                (nuls if v == "0" else appends).append(i)
    port_cbs_loc = [c for c in cbs if cb_kind(c)[0] == "port" and any(f.dominates(d, c) for d in oldend_defs)]
    for a in appends:
        esc = FL.escapes(f, a, nuls, port_cbs_loc)
        ctx.ob("R04.2", "append@%s NUL-terminated" % a.line, esc is None, site=a.where(),
               what="bytes appended to d.loc at %s can reach the callback at %s without a terminating NUL" % (a.where(), esc.where() if esc is not None else ""))
    ctx.require(len(appends) >= 1, "Ports::dispatch: no byte-wise append to d.loc found (%d)" % len(appends))   # how many loops append is the code's business

    # ---- R04.4
    matcher_clone_obligations(ctx, "R04.4")

    # ---- R04.5
    for pat in (r'^rtosc::Ports::Ports\(std::initializer_list', r'^rtosc::ClonePorts::ClonePorts\(', r'^rtosc::MergePorts::MergePorts\('):
        fs = [x for x in m.functions.values() if re.match(pat, P.dm(x.name)) and "C2" in x.name or (re.match(pat, P.dm(x.name)) and x.name.endswith("E") is False)]
        fs = [x for x in m.functions.values() if re.match(pat, P.dm(x.name))]
        ctx.require(fs, "constructor %s not found" % pat)
        for g in fs[:1]:
            refresh = [c for c in g.calls() if not c.indirect and re.match(r'^rtosc::Ports::refreshMagic\(', P.dm(c.callee))]
            muts = [c for c in g.calls() if not c.indirect and re.search(r'std::vector<rtosc::Port.*>::(push_back|emplace_back|vector\(|operator=|insert)', P.dm(c.callee))]
            if not muts:
                muts = [g.blocks[0].insts[0]]
            bad = [mu for mu in muts if FL.escapes(g, mu, refresh, [i for i in g.insts() if i.op == "ret"]) is not None]
            ctx.ob("R04.5", P.dm(g.name).split("(")[0], bool(refresh) and not bad, site="%s:%s" % (g.file, g.line), detail={"mutations": len(muts), "refreshMagic_calls": len(refresh)},
                   what="%s can return after changing the port table without refreshMagic()" % P.dm(g.name).split("(")[0])

    # ---- R04.9 (AST, evaluated): which ports MergePorts takes for duplicates
    ctx.rule("R04.9", "MERGE-KEEPS: MergePorts drops a port only if a port with the very same name - path and ':types' specification - is already in the merged table; the test it makes, evaluated on pairs of names, is exact equality (ports that share a path but admit different types are different ports)")
    fmg = [f_ for q_, fl_ in u.functions.items() if q_.endswith("MergePorts::MergePorts") for f_ in fl_ if u.body(f_) is not None]
    ctx.require(len(fmg) == 1, "R04.9: MergePorts constructor not found")
    conds9 = []
    for x in A.walk(u.body(fmg[0])):
        if x.get("kind") == "IfStmt":
            vars_ = {A.ref_id(A.kids(y)[0]) for y in A.walk(A.kids(x)[0]) if y.get("kind") == "MemberExpr" and y.get("name") == "name" and A.kids(y) and A.ref_id(A.kids(y)[0])}
            if len(vars_) == 2:
                conds9.append((x, sorted(vars_)))
    lookup9 = None
    if not conds9:
        # the test may be a lookup in the table built so far: `if(!(*this)[p.name]) ports.push_back(p);` - then the lookup
        # function itself (Ports::operator[](const char*)) is evaluated with the earlier port as the table's only entry
        for x in A.walk(u.body(fmg[0])):
            if x.get("kind") == "IfStmt":
                ops_ = [y for y in A.walk(A.kids(x)[0]) if y.get("kind") == "CXXOperatorCallExpr" and (A.strip_casts(A.kids(y)[0]).get("referencedDecl") or {}).get("name") == "operator[]" and
                        any(z.get("kind") == "MemberExpr" and z.get("name") == "name" for z in A.walk(A.kids(y)[2]))]
                if len(ops_) == 1:
                    opfs = [f_ for q_, fl_ in u.functions.items() if q_.endswith("Ports::operator[]") for f_ in fl_ if u.body(f_) is not None and
                            len(u.params(f_)) == 1 and "char" in (A.qtype(u.params(f_)[0]) or "")]
                    if len(opfs) == 1:
                        lookup9 = (x, ops_[0], opfs[0])
    if lookup9 is not None:
        ifx, opcall9, opf9 = lookup9
        pushes_in_then = any(y.get("kind") == "CXXMemberCallExpr" and A.strip_casts(A.kids(y)[0]).get("name") in ("push_back", "emplace_back") for y in A.walk(A.kids(ifx)[1]))
        va_, vb_ = "table entry", u.params(opf9)[0]["id"]
    else:
        ctx.require(len(conds9) == 1, "R04.9: the duplicate test of MergePorts (a condition on the names of two ports) was not found (%d)" % len(conds9))
        ifx, (va_, vb_) = conds9[0]
    pairs9 = [("level:i", "level:i", True), ("level:i", "level:f", False), ("level", "level:f", False), ("level:f", "level", False), ("a", "ab", False), ("ab", "a", False),
              ("x#4/", "x#4/", True), ("x#4/", "x#3/", False), ("p::i", "p::i", True), ("p::i", "p::f", False), ("", "", True)]
    bad9 = []
    for na, nb, same in pairs9:
        BA, BB = 4096, 8192

        def deref9(a_, n_, na=na, nb=nb):
            if BA <= a_ <= BA + len(na):
                return ord(na[a_ - BA]) if a_ - BA < len(na) else 0
            if BB <= a_ <= BB + len(nb):
                return ord(nb[a_ - BB]) if a_ - BB < len(nb) else 0
            raise FD.Unknown("read outside the names", n_)

        def txt9(v_, na=na, nb=nb):
            if isinstance(v_, str):
                return v_
            if BA <= v_ <= BA + len(na):
                return na[v_ - BA:]
            if BB <= v_ <= BB + len(nb):
                return nb[v_ - BB:]
            raise FD.Unknown("string operand %r" % (v_,))
        holder9 = {}

        def call9(nm, vals, n_):
            if nm == "strcmp":
                a_, b_ = txt9(vals[0]), txt9(vals[1])
                return (a_ > b_) - (a_ < b_)
            if nm in ("strncmp", "memcmp"):
                a_, b_ = txt9(vals[0])[:vals[2]], txt9(vals[1])[:vals[2]]
                return (a_ > b_) - (a_ < b_)
            if nm == "strlen":
                return len(txt9(vals[0]))
            if nm in ("strcspn", "strspn"):
                t_, set_ = txt9(vals[0]), txt9(vals[1])
                i_ = 0
                while i_ < len(t_) and ((t_[i_] in set_) == (nm == "strspn")):
                    i_ += 1
                return i_
            if nm == "strchr":
                t_ = txt9(vals[0])
                i_ = t_.find(chr(vals[1])) if vals[1] else len(t_)
                return vals[0] + i_ if i_ >= 0 else 0
            fns_ = [f_ for f_ in u.functions.get(nm, []) if u.body(f_) is not None]
            if len(fns_) == 1:
                return holder9["ev"].call_function(u, fns_[0], vals)
            raise FD.Unknown("call to %s" % nm, n_)

        def hook9(n_, ev_, va_=va_, vb_=vb_):
            if lookup9 is not None:
                if n_ is opcall9 or n_.get("id") == opcall9.get("id"):
                    return holder9["ev"].call_function(u, opf9, [BB])       # the incoming port's name is looked up
                if n_.get("kind") == "MemberExpr" and n_.get("name") == "name" and A.kids(n_):
                    return BA                                                 # ... in a table whose one entry is the earlier port
                if n_.get("kind") == "UnaryOperator" and n_.get("opcode") == "&":
                    return 0x7000                                             # the address of the entry found
            if n_.get("kind") == "MemberExpr" and n_.get("name") == "name" and A.kids(n_):
                rid = A.ref_id(A.kids(n_)[0])
                if rid == va_:
                    return BA
                if rid == vb_:
                    return BB
            if n_.get("kind") == "StringLiteral":
                return A.string_literal(n_)
            if n_.get("kind") == "ImplicitCastExpr" and n_.get("castKind") == "ArrayToPointerDecay" and A.string_literal(A.kids(n_)[0]) is not None:
                return A.string_literal(A.kids(n_)[0])
            return NotImplemented
        def stmt9(n_, ev_):
            # the table of the lookup: one entry
            if lookup9 is None or n_.get("kind") != "CXXForRangeStmt":
                return None
            try:
                ev_.run(A.kids(n_)[-1])
            except (FD._Break, FD._Continue):
                pass
            return True
        ev9 = FD.Eval(deref=deref9, call=call9, node_hook=hook9, stmt_hook=stmt9, max_steps=2000)
        holder9["ev"] = ev9
        try:
            got9 = bool(ev9.ev(A.kids(ifx)[0]))
            if lookup9 is not None and pushes_in_then:
                got9 = not got9                      # the condition guards the insertion: true = not a duplicate
        except FD.Unknown as e:
            raise AnalysisBroken("R04.9: the duplicate test of MergePorts is not evaluable on (%r, %r): %s" % (na, nb, e))
        if got9 != same:
            bad9.append({"names": [na, nb], "taken_for_duplicates": got9})
    ctx.ob("R04.9", "MergePorts: duplicate test", not bad9, site=A.where(ifx), detail={"pairs": len(pairs9), "mismatches": bad9[:4]},
           what="MergePorts takes %s for the same port: the later one is dropped from the merged table and its messages reach no callback" % [b_["names"] for b_ in bad9[:3]])

    # ---- R04.10 (AST): the default handler does not depend on the lookup strategy
    ctx.rule("R04.10", "DEFAULT-EVERYWHERE: every way Ports::dispatch looks a message up ends, when no port matched, in the table's default handler: each linear scan over the ports (a loop that calls rtosc_match) is followed by a test of default_handler, as the hashed lookup is - otherwise the callbacks a message reaches depend on whether a location buffer is supplied")
    fd10 = u.function("Ports::dispatch")
    hosts10 = [fd10]
    for c_ in A.calls_in(u.body(fd10)):
        nm_ = A.callee_name(c_)
        for q_, fl_ in u.functions.items():
            if nm_ and q_.split("::")[-1] == nm_:
                for h_ in fl_:
                    if u.body(h_) is not None and h_ not in hosts10 and (A.loc(h_)[0] or "").endswith("ports.cpp"):
                        hosts10.append(h_)
    scans10 = []
    for h_ in hosts10:
        for lp in A.walk(u.body(h_)):
            if lp.get("kind") in ("ForStmt", "CXXForRangeStmt", "WhileStmt") and any(A.callee_name(c_) == "rtosc_match" for c_ in A.calls_in(lp)):
                if not any(l2 is not lp and l2.get("kind") in ("ForStmt", "CXXForRangeStmt", "WhileStmt") and any(A.callee_name(c_) == "rtosc_match" for c_ in A.calls_in(l2)) for l2 in A.walk(lp)):
                    scans10.append((h_, lp))
    ctx.require(len(scans10) >= 1, "R04.10: no linear scan (a loop calling rtosc_match) found in Ports::dispatch")
    for h_, lp in scans10:
        par = u.parent.get(lp.get("id"))
        after = []
        if par is not None and par.get("kind") == "CompoundStmt":
            sibs = A.kids(par)
            after = sibs[[s_.get("id") for s_ in sibs].index(lp.get("id")) + 1:]
        uses = any(y.get("kind") == "MemberExpr" and y.get("name") == "default_handler" for s_ in after for y in A.walk(s_))
        if not uses:
            # ... or a call of a local lambda / a helper of the unit whose own body consults default_handler
            def _mentions_dh(root):
                return any(y.get("kind") == "MemberExpr" and y.get("name") == "default_handler" for y in A.walk(root))
            lam_ids = {d_["id"] for d_ in A.walk(u.body(h_)) if d_.get("kind") == "VarDecl" and any(z.get("kind") == "LambdaExpr" and _mentions_dh(z) for z in A.walk(d_))}
            helpers_dh = {g_.get("name") for g_ in hosts10 if g_ is not fd10 and _mentions_dh(u.body(g_))}
            uses = any((y.get("kind") == "DeclRefExpr" and (y.get("referencedDecl") or {}).get("id") in lam_ids) or
                       (y.get("kind") == "CallExpr" and A.callee_name(y) in helpers_dh) for s_ in after for y in A.walk(s_))
        ctx.ob("R04.10", "linear scan@%s" % A.loc(lp)[1], uses, site=A.where(lp), detail={"followed_by_default_handler": uses},
               key="R04.10:scan@%s" % ("with location" if any(y.get("kind") == "MemberExpr" and y.get("name") == "matches" for y in A.walk(lp)) else "without location"),
               what="the linear scan of Ports::dispatch at %s ends without consulting default_handler: a message no port matches reaches the default handler only through the hashed lookup (with a location buffer and a collision-free table)" % A.where(lp))

    # ---- R04.6 (AST)
    fd = u.function("Ports::dispatch")
    # run-time hash loop: range-for over impl->pos
    loops = [x for x in A.walk(u.body(fd)) if x.get("kind") == "CXXForRangeStmt" and "pos" in A.src(x)[:0] or x.get("kind") == "CXXForRangeStmt"]
    hash_loops = []
    for lp in loops:
        body = A.kids(lp)[-1]
        ifs = [y for y in A.walk(body) if y.get("kind") == "IfStmt"]
        accs = [y for y in A.walk(body) if y.get("kind") == "CompoundAssignOperator" and y.get("opcode") == "+="]
        if len(ifs) == 1 and len(accs) == 1 and "assoc" in A.src(accs[0]):
            hash_loops.append((lp, ifs[0], accs[0]))
    ctx.require(len(hash_loops) == 1, "Ports::dispatch: run-time hash loop not found")
    lp, ifs, acc = hash_loops[0]
    # build-time: do_hash(strs,pos,assoc) - the overload with three parameters
    dh = [fn for fn in u.functions.get("do_hash", []) if len(u.params(fn)) == 3]
    ctx.require(len(dh) == 1, "do_hash(strs,pos,assoc) not found")
    dh = dh[0]
    bifs = [y for y in A.walk(u.body(dh)) if y.get("kind") == "IfStmt"]
    baccs = [y for y in A.walk(u.body(dh)) if y.get("kind") == "CompoundAssignOperator" and y.get("opcode") == "+="]
    ctx.require(len(bifs) == 1 and len(baccs) == 1, "do_hash: guard / accumulation not found")

    def guard_table(ifstmt, loopvar_names):
        """truth table of the guard over p in 0..4 and length in 0..4"""
        cond = A.kids(ifstmt)[0]
        ids = {}
        for y in A.walk(cond):
            if y.get("kind") == "DeclRefExpr":
                ids[y["referencedDecl"]["name"]] = y["referencedDecl"]["id"]
        tab = {}
        for p_ in range(5):
            for ln in range(5):
                env = {}
                for nme, i_ in ids.items():
                    env[i_] = p_ if nme in loopvar_names else ln

                def hook(n, ev, ln=ln):
                    if n.get("kind") == "CXXMemberCallExpr" and A.strip_casts(A.kids(n)[0]).get("name") in ("size", "length"):
                        return ln
                    return NotImplemented
                try:
                    tab[(p_, ln)] = 1 if FD.Eval(env=env, node_hook=hook).ev(cond) else 0
                except FD.Unknown as e:
                    raise AnalysisBroken("R04.6: hash guard not evaluable: %s" % e)
        return tab
    g_run = guard_table(ifs, ("p",))
    g_build = guard_table(bifs[0], ("p",))
    diff = sorted(k for k in g_run if g_run[k] != g_build[k])
    ctx.ob("R04.6", "guard", not diff and all(g_run[(p_, ln)] == (1 if p_ < ln else 0) for p_, ln in g_run), site=A.where(ifs),
           detail={"run_time": A.src(A.kids(ifs)[0]), "build_time": A.src(A.kids(bifs[0])[0]), "differing (p,len)": diff[:6]},
           what="dispatch hashes character p when `%s`, the table was built with `%s` (differ at (p,len) %s)" % (A.src(A.kids(ifs)[0]), A.src(A.kids(bifs[0])[0]), diff[:4]))
    # accumulation: t += assoc[str[p]]
    def acc_shape(a):
        t = re.sub(r'\s+', '', A.src(A.kids(a)[1]))
        t = re.sub(r'this->impl->|impl->', '', t)
        t = re.sub(r'operator\[\]\((\w+),', r'\1[', t).replace(")", "]") if "operator[]" in t else t
        return t
    ctx.ob("R04.6", "accumulation", "assoc" in A.src(acc) and "assoc" in A.src(baccs[0]), site=A.where(acc), detail={"run_time": A.src(acc), "build_time": A.src(baccs[0])},
           what="run-time and build-time hash accumulate differently: `%s` vs `%s`" % (A.src(acc), A.src(baccs[0])))
    # initial value = length of the hashed string
    tdecl = u.by_id.get(A.ref_id(A.kids(acc)[0]))
    bdecl = u.by_id.get(A.ref_id(A.kids(baccs[0])[0]))
    ti = A.src(A.kids(tdecl)[-1]) if tdecl is not None and A.kids(tdecl) else None
    bi = A.src(A.kids(bdecl)[-1]) if bdecl is not None and A.kids(bdecl) else None
    ctx.ob("R04.6", "initial value", ti is not None and bi is not None and "len" in ti and "length" in bi, site=A.where(tdecl) if tdecl is not None else A.where(fd),
           detail={"run_time": ti, "build_time": bi}, what="hash initial values differ: run time `%s`, build time `%s`" % (ti, bi))
    # range check precedes remap[t]: the if / else-if chain that mentions remap.size() is evaluated over
    # t in 0..3, size 2, default_handler present/absent: whenever neither branch returns, t < size must hold
    chain = [y for y in A.walk(u.body(fd)) if y.get("kind") == "IfStmt" and "remap" in A.src(A.kids(y)[0]) and "size" in A.src(A.kids(y)[0])]
    ctx.require(len(chain) >= 1, "Ports::dispatch: range check against remap.size() not found")
    top = chain[0]
    conds = []
    cur = top
    while cur is not None and cur.get("kind") == "IfStmt":
        ks = A.kids(cur)
        returns = any(y.get("kind") == "ReturnStmt" for y in A.walk(ks[1]))
        conds.append((ks[0], returns))
        cur = ks[2] if len(ks) > 2 else None
    tid = A.ref_id(A.kids(acc)[0])
    bad = []
    for tv in range(4):
        for dh in (0, 1):
            def hook(n, ev, dh=dh):
                if n.get("kind") == "DeclRefExpr" and (n.get("referencedDecl") or {}).get("kind") == "VarDecl" and n["referencedDecl"]["id"] not in ev.env:
                    d_ = u.by_id.get(n["referencedDecl"]["id"])      # a const local (`remap_size`, `port_num`): its initialiser
                    if d_ is not None and A.kids(d_):
                        return ev.ev(A.kids(d_)[-1])
                if n.get("kind") == "CXXMemberCallExpr":
                    nm = A.strip_casts(A.kids(n)[0]).get("name")
                    if nm in ("size", "length"):
                        return 2
                    if nm == "operator bool":
                        return dh
                if n.get("kind") == "MemberExpr" and n.get("name") == "default_handler":
                    return dh
                return NotImplemented
            try:
                falls = all((not FD.Eval(env={tid: tv}, node_hook=hook).ev(c)) for c, r in conds if r)
            except FD.Unknown as e:
                raise AnalysisBroken("R04.6: range check not evaluable: %s" % e)
            if falls and not tv < 2:
                bad.append({"t": tv, "remap.size()": 2, "default_handler": bool(dh)})
    ctx.ob("R04.6", "remap[t] in range", not bad and all(r for _, r in conds), site=A.where(top), detail={"conditions": [A.src(c) for c, _ in conds], "reaches_table_access_with": bad},
           what="remap[t] can be read with %s" % bad[:2])

    # ---- R04.11: what the recursion callbacks cut off the address before they dispatch below
    ctx.rule("R04.11", "SNIP-ONE-LEVEL: every recursion callback (rRecur, rRecurp, rRecurs, rRecursp) moves its message cursor, before it dispatches in the child's table, just behind the first '/' of the address - one level, exactly one separator (`sub//val` continues with `/val`, which names no port) - or to the end when there is none; the callback's own cursor statements are evaluated on probe addresses")
    from ..rules import sugar as SG
    from ..facts import WITNESS_DIR
    import os as _os
    uw = ctx.ast("sugar_matrix.cpp")
    probes11 = ["sub/val", "sub//val", "sub/", "sub", "a/b/c", "/x", "slot2//v", "s/"]
    n11 = 0
    for L11 in SG.lambdas(uw, _os.path.join(WITNESS_DIR, "sugar_matrix.cpp")):
        if not L11.macro.startswith("rRecur") or not any(c_.get("kind") == "CXXMemberCallExpr" and A.strip_casts(A.kids(c_)[0]).get("name") == "dispatch" for c_ in A.walk(L11.body)):
            continue
        try:
            offs = SG.snip_offsets(uw, L11, probes11)
        except FD.Unknown as e:
            raise AnalysisBroken("R04.11: the cursor statements of %s are not evaluable: %s" % (L11.label, e))
        n11 += 1
        bad11 = [{"address": t_, "continues_with": t_[o_:] if 0 <= o_ <= len(t_) else "outside the address (%d)" % o_, "expected": t_[(t_.index("/") + 1) if "/" in t_ else len(t_):]}
                 for t_, o_ in offs.items() if o_ != ((t_.index("/") + 1) if "/" in t_ else len(t_))]
        ctx.ob("R04.11", L11.label, not bad11, site=A.where(L11.body), detail={"probes": len(probes11), "mismatches": bad11[:4]}, key="R04.11:%s" % L11.macro,
               what="%s dispatches below with the wrong rest of the address: %s" % (L11.label, bad11[:3]))
    ctx.require(n11 >= 4, "R04.11: only %d recursion callbacks with a dispatch below found in the witness" % n11)

    # ---- R04.7
    ctx.rule("R04.7", "HASH-VERIFY: the verification of the port the perfect hash selects (Port_Matcher::hard_match), evaluated over literal names x addresses, accepts exactly what the documented matching of a literal name accepts - a subtree `name/` every address below it, any other name only the address that spells it - so the hashed strategy invokes the ports the linear scan invokes")
    hm = u.function("Port_Matcher::hard_match")
    try:
        htab = hard_match_table(u, hm)
    except FD.Unknown as e:
        raise AnalysisBroken("R04.7: hard_match not evaluable: %s" % e)
    hbad = [{"port_name": k[0], "address": k[1], "hard_match": v, "documented": int(literal_name_matches(*k))} for k, v in sorted(htab.items()) if bool(v) != literal_name_matches(*k)]
    ctx.ob("R04.7", "hard_match", not hbad, site=A.where(hm), detail={"probes": len(htab), "mismatches": hbad[:6]},
           what="the hashed lookup's verification decides differently from the pattern language on %s" % hbad[:3])

    # ---- R04.8
    ctx.rule("R04.8", "HASH-COLLISION-CHECK: the remap table of the perfect hash is built (find_remap) only on the zero-duplicates edge of a count_dups test made after find_assoc; otherwise the table falls back to the linear scan - the additive hash cannot separate anagrams and the search for its weights is a bounded heuristic")
    gens = [x for x in m.functions.values() if re.match(r'^generate_minimal_hash\(std::vector<', P.dm(x.name))]
    ctx.require(len(gens) == 1, "R04.8: generate_minimal_hash(std::vector<std::string>, Port_Matcher&) not found in IR (%d)" % len(gens))
    g = gens[0]

    def _calls_named(pat):
        return [c for c in g.calls() if not c.indirect and c.callee and re.match(pat, P.dm(c.callee))]
    fa_ = _calls_named(r'^find_assoc\(')
    fr_ = _calls_named(r'^find_remap\(')
    cd_ = _calls_named(r'^(int )?count_dups<')
    ctx.require(len(fa_) == 1 and len(fr_) == 1, "R04.8: find_assoc / find_remap calls not found (%d, %d)" % (len(fa_), len(fr_)))
    ok8 = False
    how8 = None
    for cd in cd_:
        if not g.dominates(fa_[0], cd):
            continue
        # the result, possibly through a spill slot, compared with 0
        vals8 = {cd.res}
        for i in g.insts():
            if i.op == "store" and G.parse_store(i)[0] in vals8:
                slot8 = G.parse_store(i)[1]
                vals8 |= {j.res for j in g.insts() if j.op == "load" and G.parse_load(j) == slot8}
        for i in g.insts():
            if i.op != "icmp":
                continue
            mm = re.match(r'^icmp (\w+) i32 (\S+), (\S+?)(?:,|$)', i.text)
            if not mm or mm.group(1) not in ("eq", "ne", "sgt", "ugt", "slt", "sle"):
                continue
            a8, b8 = mm.group(2), mm.group(3)
            if not ((a8 in vals8 and b8 == "0") or (b8 in vals8 and a8 == "0")):
                continue
            for j in i.block.insts:
                if j.op == "br" and i.res in j.ops and len(j.succs) == 2:
                    pred8 = mm.group(1)
                    zero_edge = j.succs[0] if pred8 == "eq" else j.succs[1] if pred8 in ("ne", "sgt", "ugt") and a8 in vals8 else None
                    if zero_edge is not None and g.edge_dominates(j.block.label, zero_edge, fr_[0]):
                        ok8, how8 = True, i.where()
    ctx.ob("R04.8", "generate_minimal_hash", ok8, site=fr_[0].where(), detail={"collision_test": how8, "count_dups_calls_after_find_assoc": len([c for c in cd_ if g.dominates(fa_[0], c)])},
           what="generate_minimal_hash builds the remap table without having tested the final hash for duplicates: two names on one hash value make the earlier port unreachable through the hashed lookup")
