"""C07 - Validation of untrusted bytes (DESIGN.md section 2, C07)."""
import re

from .. import astlib as A
from ..facts import AnalysisBroken
from ..rules import codec as C
from ..rules import guard as G
from ..rules import taint as TA
from . import C01

LEVEL = "other"
EXPLANATION = ("Structural soundness conditions of the length / validity functions, for every byte buffer: (R07.1) the two ring "
               "length functions touch ring memory only through deref(); (R07.2) inside deref() each subscript is on the true "
               "branch of its own bound test; (R07.3) every non-zero length returned is the value that was tested <= available "
               "bytes; (R07.4) a length assembled from buffer bytes reaches position arithmetic only on an edge where it was "
               "compared against a bound (32-bit wrap-around otherwise defeats R07.3); (R07.5) rtosc_valid_message_p reads a byte "
               "of msg only on an edge where len was compared; (R07.6) what the validator adds up per tag is what arg_size / "
               "extract_arg later skip and read. Agreement with an independent decoder on values is not decided.")
TRUSTED = ["clang 14 AST/-O0 IR", "sa/irlib.py dominators", "taint propagation in sa/rules/taint.py (zext/shl/or/and + stack slots, flow-insensitive)"]
ASSUMPTIONS = ["R07.5 is a necessary condition only: it does not prove the lock-step relation between cursor and counter",
               "the accessors are protected only through the validator (they are unchecked by design)"]

RING_FUNCS = ["rtosc_message_ring_length", "bundle_ring_length"]


def _const_init(u, e):
    """Replace a reference to a const local by its initialiser (one level)."""
    e = A.strip_casts(e)
    if e.get("kind") == "DeclRefExpr":
        d = u.by_id.get(e["referencedDecl"]["id"])
        if d is not None and d.get("kind") == "VarDecl" and "const" in A.stype(d) and A.kids(d):
            return A.strip_casts(A.kids(d)[-1])
    return e


def _is_total_expr(u, e):
    """e is ring[0].len + ring[1].len (either order), possibly via a const local."""
    e = _const_init(u, e)
    if e.get("kind") != "BinaryOperator" or e.get("opcode") != "+":
        return False
    txt = sorted(re.sub(r'\s+', '', A.src(A.strip_casts(k))) for k in A.kids(e))
    return txt == ["ring[0].len", "ring[1].len"]


def run(ctx):
    u = ctx.ast("rtosc.c")
    m = ctx.ir("rtosc.c")
    ctx.rule("R07.1", "DEREF-ONLY: rtosc_message_ring_length and bundle_ring_length read ring memory only through deref()")
    ctx.rule("R07.2", "DEREF-BOUNDS: in deref() every ring[k].data[i] is on the true branch of `i < ring[k].len`")
    ctx.rule("R07.3", "FINAL-BOUND: every return of the ring length functions is 0, a call of the sibling, or `x <= ring[0].len+ring[1].len ? x : 0`")
    ctx.rule("R07.4", "LEN-TAINT: arithmetic on a value assembled from buffer bytes is dominated by an edge on which that value was compared against an upper bound")
    ctx.rule("R07.5", "VALID-READS: every byte read of msg in rtosc_valid_message_p is dominated by an edge of a comparison involving len on which len is the larger side")
    ctx.rule("R07.6", "VALIDATOR-READER: per-tag payload class of rtosc_message_ring_length == arg_size == extract_arg")
    ctx.rule("R07.7", "ACCEPTED => IN BOUNDS: rtosc_valid_message_p and, where it accepts, rtosc_narguments / rtosc_argument_string / rtosc_type / rtosc_argument / rtosc_itr_begin, "
                      "evaluated on malformed buffers of exactly n bytes (all 8-byte buffers `/...,xyz` over six byte values, every probe message cut at every offset, "
                      "with each zero byte made non-zero, with each blob length replaced by boundary values), read only inside the n bytes, and the payload each argument's pointer announces lies inside them")

    # ---- R07.1
    # byte accessors: deref() itself and helpers of the unit that read only through an accessor (e.g. a big-endian word
    # reader made of four deref() calls); weight = bytes read per call
    weight = {"deref": 1}
    changed = True
    while changed:
        changed = False
        for q_, fns_ in u.functions.items():
            if q_ in weight or q_ in RING_FUNCS:
                continue
            for f_ in fns_:
                b_ = u.body(f_)
                if b_ is None or any(x.get("kind") == "MemberExpr" and x.get("name") == "data" for x in A.walk(b_)):
                    continue
                w_ = sum(weight[A.callee_name(c)] for c in A.calls_in(b_) if A.callee_name(c) in weight)
                if w_ and not any(x.get("kind") in ("WhileStmt", "ForStmt", "DoStmt") for x in A.walk(b_)):
                    weight[q_] = w_
                    changed = True
    accessors = set(weight)
    for q in RING_FUNCS:
        fn = u.function(q)
        direct = [x for x in A.walk(u.body(fn)) if x.get("kind") == "MemberExpr" and x.get("name") == "data"]
        nder = sum(weight[A.callee_name(c)] for c in A.calls_in(u.body(fn)) if A.callee_name(c) in weight)
        ctx.require(nder >= 4, "%s: only %d deref() calls found" % (q, nder))
        ctx.ob("R07.1", q, not direct, site=A.where(direct[0]) if direct else A.where(fn), detail={"deref_calls": nder, "direct_data_accesses": len(direct), "accessors": sorted(accessors)},
               what="%s reads ring memory directly (`%s`) instead of through deref()" % (q, A.src(direct[0]) if direct else ""))

    # ---- R07.2
    fn = u.function("deref")
    subs = [x for x in A.walk(u.body(fn)) if x.get("kind") == "ArraySubscriptExpr" and
            A.strip_casts(A.kids(x)[0]).get("kind") == "MemberExpr" and A.strip_casts(A.kids(x)[0]).get("name") == "data"]
    ctx.require(len(subs) >= 2, "deref(): expected two data subscripts")
    for s in subs:
        base = A.strip_casts(A.kids(s)[0])              # ring[k].data
        ringk = re.sub(r'\s+', '', A.src(A.kids(base)[0]))   # ring[k]
        idx = re.sub(r'\s+', '', A.src(A.strip_casts(A.kids(s)[1])))
        guarded = False
        child = s
        for p in u.ancestors(s):
            if p.get("kind") in ("ConditionalOperator", "IfStmt"):
                ks = A.kids(p)
                if len(ks) >= 2 and _contains(ks[1], child):
                    c = A.strip_casts(ks[0])
                    if c.get("kind") == "BinaryOperator" and c.get("opcode") == "<":
                        l = re.sub(r'\s+', '', A.src(A.strip_casts(A.kids(c)[0])))
                        r = re.sub(r'\s+', '', A.src(A.strip_casts(A.kids(c)[1])))
                        if l.strip("()") == idx.strip("()") and r == ringk + ".len":
                            guarded = True
                            break
            child = p
        ctx.ob("R07.2", "deref:%s.data[%s]" % (ringk, idx), guarded, site=A.where(s),
               what="deref(): %s.data[%s] is not on the true branch of `%s < %s.len`" % (ringk, idx, idx, ringk))

    # ---- R07.3
    for q in RING_FUNCS:
        fn = u.function(q)
        rets = [x for x in A.walk(u.body(fn)) if x.get("kind") == "ReturnStmt"]
        for k, r in enumerate(rets):
            e = A.strip_casts(A.kids(r)[0])
            ok = False
            form = A.src(e)
            if A.int_literal(e) == 0:
                ok = True
            elif e.get("kind") == "CallExpr" and A.callee_name(e) in RING_FUNCS:
                ok = True
            elif e.get("kind") == "ConditionalOperator":
                c, t, f = [A.strip_casts(x) for x in A.kids(e)]
                if c.get("kind") == "BinaryOperator" and c.get("opcode") == "<=" and A.int_literal(f) == 0:
                    lhs = A.strip_casts(A.kids(c)[0])
                    if A.ref_id(lhs) is not None and A.ref_id(lhs) == A.ref_id(t) and _is_total_expr(u, A.kids(c)[1]):
                        ok = True
            ctx.ob("R07.3", "%s:return#%d" % (q, k), ok, site=A.where(r), detail={"returns": form},
                   what="%s returns `%s`, which is not bounded by the available bytes" % (q, form))
    ctx.require_count("R07.3", 4)

    # ---- R07.4
    for q in RING_FUNCS:
        f = m.functions.get(q)
        ctx.require(f is not None, "IR of %s not found" % q)
        res, slots = TA.unguarded_arith(f, accessors)
        ctx.require(slots, "%s: no value assembled from deref() found" % q)
        for k, (inst, slot, ok, g) in enumerate(res):
            ctx.ob("R07.4", "%s:arith#%d" % (q, k), ok, site=inst.where(), detail={"inst": inst.text[:120], "slot": slot, "guard": g.text[:120] if g is not None else None},
                   key="R07.4:%s:tainted-arith" % q,
                   what="%s does arithmetic on a length read from the buffer (%s) without an upper-bound test" % (q, inst.where()))
    ctx.require_count("R07.4", 2)

    # ---- R07.5
    f = m.functions.get("rtosc_valid_message_p")
    ctx.require(f is not None, "IR of rtosc_valid_message_p not found")
    mslot = G.param_slot(f, 0)
    lslot = G.param_slot(f, 1)
    vals, slots = G.derived(f, mslot)
    reads = [i for i in f.insts() if i.op == "load" and G.parse_load(i) in vals]
    ctx.require(len(reads) >= 3, "rtosc_valid_message_p: only %d byte reads of msg found" % len(reads))
    edges = _len_edges(f, lslot)
    for k, r in enumerate(reads):
        pd = f.defs().get(G.parse_load(r))
        at_start = pd is not None and pd.op == "load" and G.parse_load(pd) == mslot   # *msg itself, offset 0
        # a read through the advancing cursor needs a strict comparison of a counter with len; only the
        # read of msg[0] may rely on `len != 0`
        use = [e for e in edges if at_start or not e[3]]
        ok = any(f.edge_dominates(s, d, r) for s, d, _, _ in use)
        ctx.ob("R07.5", "rtosc_valid_message_p:read#%d" % k, ok, site=r.where(), detail={"load": r.text[:100]},
               key="R07.5:rtosc_valid_message_p:unguarded-read",
               what="rtosc_valid_message_p reads a byte of msg at %s before len has been compared" % r.where())

    # ---- R07.6
    # (a) by shape, where validator and readers are a tag switch in a loop ...
    try:
        _scan_form_obligations(ctx, u)
        tabs = C01.tables(ctx, u)
        ring = tabs["rtosc_message_ring_length"]
        for other in ("arg_size", "extract_arg"):
            ot = tabs[other]
            for tag in sorted(C01.SPEC):
                a = ring[0].get(tag, ring[1])
                b = ot[0].get(tag, ot[1])
                ctx.ob("R07.6", "ring_length vs %s ['%s']" % (other, tag), a == b, site=ring[2], detail={"validator": a, other: b},
                       what="tag '%s': the validator accounts for %s, %s consumes %s" % (tag, a, other, b))
    except AnalysisBroken as e_shape:
        ctx.notes.append("R07.6 by shape not possible (%s): decided by evaluation only" % e_shape)
    # (b) ... and by evaluation, however they are written: on probe messages (whole, split over two ring segments at
    # several places, followed by other bytes, cut short) the validator returns the length the specification gives, the
    # readers find every argument at its specified offset, and on a string argument whose first byte is NUL (hostile)
    # validator and readers still agree where the next argument lies
    from ..rules import oscref as OR
    from .. import fdeval as FD
    groups = {}
    for adr, ty, va in OR.PROBES:
        groups.setdefault(adr if adr in ("/p", "/s", "/b", "/t", "/x", "/y") else "addresses", []).append((adr, ty, va))
    names = {"/p": "fixed-width tags", "/s": "strings", "/b": "blobs", "/t": "tags without payload", "/x": "arrays and all tags", "/y": "several arguments", "addresses": "address lengths"}
    fring = u.function("rtosc_message_ring_length")
    for g, probes in sorted(groups.items()):
        bad = []
        for adr, ty, va in probes:
            data, _slots = OR.layout(adr, ty, va)
            try:
                lens = {"whole": OR.ring_length(u, data), "split after 1": OR.ring_length(u, data, split=1),
                        "split 3 before the end": OR.ring_length(u, data, split=len(data) - 3),
                        "followed by other bytes": OR.ring_length(u, data + b"/AB"), "cut short by 4": OR.ring_length(u, data, cap=len(data) - 4)}
                rb = OR.reader_checks(u, adr, ty, va)
            except FD.Unknown as e:
                raise AnalysisBroken("R07.6: validator / readers not evaluable on (%r, %r): %s" % (adr, ty, e))
            want = {k_: (len(data) if k_ != "cut short by 4" else 0) for k_ in lens}
            if lens != want or rb:
                bad.append({"address": adr, "types": ty, "validator": {k_: v_ for k_, v_ in lens.items() if v_ != want[k_]}, "specified_length": len(data), "readers": rb[:2]})
        ctx.ob("R07.6", "probe messages: %s" % names[g], not bad, site=A.where(fring), detail={"messages": len(probes), "mismatches": bad[:3]},
               key="R07.6:evaluated:%s" % names[g],
               what="validator and readers, evaluated on probe messages (%s), do not agree with the specified layout: %s" % (names[g], bad[:2]))
    # hostile strings: first byte NUL, then non-zero bytes up to the next NUL
    badh = []
    for body in (b"\0abc" + b"de\0\0", b"\0ab\0", b"\0\0\0\0", b"\0abcdefg" + b"\0\0\0\0"):
        data = OR.enc_str("/s") + OR.enc_str(",si") + body + bytes([1, 2, 3, 4])
        try:
            v = OR.ring_length(u, data + b"\0\0\0\0\0\0\0\0")
            r = OR._reader_eval(u, "rtosc_argument", [OR.MSG, 1], OR._Bytes(data + b"\0" * 8), stop_at="extract_arg")
        except FD.Unknown as e:
            raise AnalysisBroken("R07.6: validator / readers not evaluable on a hostile string: %s" % e)
        off = r[1][0] - OR.MSG if isinstance(r, tuple) and r[0] == "stopped" and isinstance(r[1][0], int) else None
        if off is None or (v != 0 and v != off + 4):
            badh.append({"string_bytes": body.hex(), "validator_length": v, "readers_place_the_next_argument_at": off})
    ctx.ob("R07.6", "string whose first byte is NUL", not badh, site=A.where(fring), detail={"mismatches": badh},
           key="R07.6:evaluated:hostile string",
           what="validator and readers end a string argument whose first byte is NUL at different places: %s - a message the validator accepts is then decoded at other offsets" % badh[:2])

    # ---- R07.7
    import itertools
    fam = {"all 8-byte buffers `/\\0\\0\\0,xyz`": [b"/\0\0\0," + bytes(t_) for t_ in itertools.product((0, 1, ord("i"), ord("s"), ord("b"), 0xff), repeat=3)],
           "probe messages cut at every offset": [], "probe messages with one zero byte made non-zero": [], "probe messages with a blob length replaced": [], "the probe messages themselves": []}
    for adr, ty, va in OR.PROBES:
        data, slots = OR.layout(adr, ty, va)
        fam["the probe messages themselves"].append(data)
        fam["probe messages cut at every offset"] += [data[:k_] for k_ in range(1, len(data))]
        fam["probe messages with one zero byte made non-zero"] += [data[:i_] + b"\1" + data[i_ + 1:] for i_, b_ in enumerate(data) if b_ == 0]
        for t_, off in slots:
            if t_ == "b" and off is not None:
                ln = int.from_bytes(data[off:off + 4], "big")
                for v_ in (ln + 1, ln + 4, ln + 5, 0x7fffffff, 0x80000000, 0xfffffffc, 0xffffffff):
                    fam["probe messages with a blob length replaced"].append(data[:off] + (v_ & 0xffffffff).to_bytes(4, "big") + data[off + 4:])
    if ctx.tier == "thorough":
        fam["all 12-byte buffers `/\\0\\0\\0,xyz....`"] = [b"/\0\0\0," + bytes(t_) + bytes(v_) for t_ in itertools.product((0, ord("i"), ord("s"), ord("b")), repeat=3)
                                                        for v_ in itertools.product((0, 1, 0xff), repeat=4)]
    fval = u.function("rtosc_valid_message_p")
    for name, bufs in fam.items():
        bufs = list(dict.fromkeys(bufs))
        badb, nacc = [], 0
        for d_ in bufs:
            try:
                r_ = OR.accepted_in_bounds(u, d_)
            except FD.Unknown as e:
                raise AnalysisBroken("R07.7: validator / accessors not evaluable on %s: %s" % (d_.hex(), e))
            if r_ is None:
                continue
            nacc += 1
            if r_:
                badb.append({"buffer": d_.hex(), "length": len(d_), "leaves_the_buffer": r_[:3]})
        ctx.ob("R07.7", name, not badb, site=A.where(fval), detail={"buffers": len(bufs), "accepted": nacc, "out_of_bounds": len(badb), "examples": badb[:4]},
               key="R07.7:%s" % name.split("`")[0].strip(),
               what="on %d of %d accepted buffers (%s) the validity predicate or an accessor reads outside the buffer: %s" % (len(badb), nacc, name, badb[:2]))


def _contains(root, node):
    nid = node.get("id")
    for x in A.walk(root):
        if x.get("id") == nid:
            return True
    return False


_RE_ICMP = re.compile(r'^icmp (\w+) (\S+) (\S+), (\S+?)(?:,|$)')


def _len_edges(fn, lslot):
    """edges on which len is known to be strictly greater than the other operand."""
    defs = fn.defs()
    out = []
    for i in fn.insts():
        if i.op != "icmp":
            continue
        mm = _RE_ICMP.match(i.text)
        if not mm:
            continue
        pred, ty, a, b = mm.groups()

        def is_len(v, depth=0):
            d = defs.get(v)
            if d is None:
                return False
            if d.op == "load":
                return G.parse_load(d) == lslot
            if d.op in ("zext", "sext", "trunc") and depth < 3:
                return is_len(d.ops[0], depth + 1)
            return False
        la, lb = is_len(a), is_len(b)
        if la == lb:
            continue
        br = None
        for j in i.block.insts:
            if j.op == "br" and i.res in j.ops and len(j.succs) == 2:
                br = j
        if br is None:
            continue
        p = pred
        if la:    # pred(len, X) -> swap to pred'(X, len)
            p = {"ult": "ugt", "ule": "uge", "ugt": "ult", "uge": "ule", "eq": "eq", "ne": "ne"}.get(pred)
        other = b if la else a
        # now p(X, len): len strictly greater on: ult true / uge false ; eq 0: false edge ; ne 0: true edge
        const = not other.startswith("%")
        if p == "ult":
            out.append((br.block.label, br.succs[0], i, const))
        elif p == "uge":
            out.append((br.block.label, br.succs[1], i, const))
        elif p == "eq" and other == "0":
            out.append((br.block.label, br.succs[1], i, True))
        elif p == "ne" and other == "0":
            out.append((br.block.label, br.succs[0], i, True))
    return out


def _scan_form_obligations(ctx, u):
    # the validator scans a string the way the unchecked readers do (skip the first byte, then look for the NUL):
    # on untrusted bytes the two forms end a string with a NUL first byte at different places
    from ..rules import codec_tables as T
    rtab, _, rsw, _, _ = T.loop_switch_summaries(u, "rtosc_message_ring_length")
    atab, _, _, asw, _ = T.arg_size_table(u)
    for tag in ("s", "S"):
        a = rtab[tag].scan_forms if tag in rtab else None
        b = atab[tag].scan_forms if tag in atab else None
        ctx.ob("R07.6", "string scan form ['%s']" % tag, a is not None and a == b and a, site=A.where(rsw), detail={"validator": a, "arg_size": b},
               what="tag '%s': the validator scans strings %s, arg_size %s - they end a string whose first byte is NUL at different offsets" % (tag, a, b))
