"""C06 - ThreadLink: structural obligations of the single-producer / single-consumer protocol
(DESIGN.md section 2, C06).  IR of thread-link.cpp + AST for field layout."""
import re

from .. import astlib as A
from ..facts import AnalysisBroken
from ..rules import guard as G

LEVEL = "other"
EXPLANATION = ("Protocol obligations that every interleaving relies on, decided on the -O0 IR of thread-link.cpp: (R06.1) the three "
               "ring indices are std::atomic and every access is an atomic load/store with acquire/release or stronger ordering "
               "(no plain access, no relaxed order); (R06.2) in ring_write no copy into the ring buffer is reachable after the "
               "store that publishes `write`, in ring_read no copy out of the ring buffer is reachable after the store that "
               "releases `read` - the publish-before-copy / release-before-copy reorderings no single-threaded test can see; "
               "(R06.3) `write` is stored only by functions reached solely from the producer API, `read`/`read_lookahead` only "
               "from the consumer API; (R06.4) every ring_write call is dominated by ring_write_size(ring) >= len on the same "
               "len; (R06.5) on every path into ring_write len is bounded by MaxMsg (builder capacity or explicit comparison). "
               "Linearizability under all interleavings and the index arithmetic are not decided.")
TRUSTED = ["clang 14 -O0 IR (std::atomic member accesses appear as calls to std::__atomic_base<long> members)", "sa/irlib.py dominators / reachability"]
ASSUMPTIONS = ["one producer thread and one consumer thread (documented usage)", "seq_cst / acquire-release atomics give the required visibility order"]

UNIT = "thread-link.cpp"
RING_T = "struct.rtosc::internal_ringbuffer_t"
MO = {0: "relaxed", 1: "consume", 2: "acquire", 3: "release", 4: "acq_rel", 5: "seq_cst"}
PRODUCER = (r'^rtosc::ThreadLink::(write|writeArray|raw_write)\(', r'^rtosc::ThreadLink::ThreadLink\(')
CONSUMER = (r'^rtosc::ThreadLink::(read|read_lookahead)\(', r'^rtosc::ThreadLink::ThreadLink\(')


def field_layout(u):
    recs = [r for r in u.records.get("internal_ringbuffer_t", []) if r.get("kind") == "CXXRecordDecl" and any(c.get("kind") == "FieldDecl" for c in A.kids(r))]
    if not recs:
        raise AnalysisBroken("anchor vanished: struct internal_ringbuffer_t")
    fields = [c for c in A.kids(recs[0]) if c.get("kind") == "FieldDecl"]
    return [(f.get("name"), A.stype(f), f) for f in fields]


def field_geps(fn):
    """{res: field index} for GEPs into the ring struct"""
    out = {}
    for i in fn.insts():
        if i.op == "getelementptr" and RING_T in i.text:
            m = re.search(r'i32 0, i32 (\d+)\s*(?:,|$)', i.text.split(", !dbg")[0])
            if m:
                out[i.res] = int(m.group(1))
    return out


def accesses(P, fn):
    """list of (field idx, kind, order, inst) for every use of a ring-struct field address in fn.
    kind: 'atomic-load' | 'atomic-store' | 'atomic-rmw' | 'plain-load' | 'plain-store' | 'escape'"""
    geps = field_geps(fn)
    alias = dict(geps)
    changed = True
    while changed:
        changed = False
        for i in fn.insts():
            if i.op in ("bitcast", "getelementptr") and i.res not in alias and i.ops and i.ops[0] in alias:
                # GEP 0,0 into the atomic wrapper / bitcast to __atomic_base
                alias[i.res] = alias[i.ops[0]]
                changed = True
    # always_inline members (load(order)/store(v,order)) are expanded in place at -O0: the address goes through a
    # spilled `this` slot, and the order is selected by a switch over all valid orders
    slots = {}
    changed = True
    while changed:
        changed = False
        for i in fn.insts():
            if i.op == "store":
                v, p = G.parse_store(i)
                d = fn.defs().get(p)
                if v in alias and d is not None and d.op == "alloca" and p not in slots:
                    slots[p] = alias[v]
                    changed = True
            elif i.op == "load":
                p = G.parse_load(i)
                if p in slots and i.res not in alias:
                    alias[i.res] = slots[p]
                    changed = True
            elif i.op in ("bitcast", "getelementptr") and i.res not in alias and i.ops and i.ops[0] in alias:
                alias[i.res] = alias[i.ops[0]]
                changed = True
    out = []
    for i in fn.insts():
        if i.op == "load":
            p = G.parse_load(i)
            if p in alias:
                at = " atomic " in (" " + i.text + " ")
                if at and i.dbg is not None and not (i.file or "").endswith("thread-link.cpp"):
                    out.append((alias[p], "atomic-load", "explicit", i))
                else:
                    out.append((alias[p], "atomic-load" if at else "plain-load", _ord_of_text(i.text), i))
        elif i.op == "store":
            v, p = G.parse_store(i)
            if p in alias:
                at = "store atomic" in i.text
                if at and not (i.file or "").endswith("thread-link.cpp"):
                    out.append((alias[p], "atomic-store", "explicit", i))
                else:
                    out.append((alias[p], "atomic-store" if at else "plain-store", _ord_of_text(i.text), i))
            elif v in alias and p not in slots:
                out.append((alias[v], "escape", None, i))
        elif i.op in ("call", "invoke") and not i.indirect:
            hit = [a for a in i.args if a in alias]
            if not hit:
                continue
            dm = P.dm(i.callee)
            f = alias[hit[0]]
            m = re.match(r'^std::(?:__atomic_base|atomic)<[^>]*>::(.*)$', dm)
            if not m:
                out.append((f, "escape", None, i))
                continue
            meth = m.group(1)
            if meth.startswith("operator long") or re.match(r'^operator \w+', meth) and "=" not in meth.split("(")[0]:
                out.append((f, "atomic-load", "seq_cst", i))
            elif meth.startswith("operator=("):
                out.append((f, "atomic-store", "seq_cst", i))
            elif meth.startswith("load("):
                out.append((f, "atomic-load", _mo_arg(i, 1), i))
            elif meth.startswith("store("):
                out.append((f, "atomic-store", _mo_arg(i, 2), i))
            else:
                out.append((f, "atomic-rmw", None, i))
        elif i.op in ("atomicrmw", "cmpxchg"):
            if any(o in alias for o in i.ops):
                out.append((alias[[o for o in i.ops if o in alias][0]], "atomic-rmw", None, i))
    return out


def _ord_of_text(t):
    for o in ("seq_cst", "acq_rel", "acquire", "release", "monotonic", "unordered"):
        if re.search(r'\b' + o + r'\b', t):
            return "relaxed" if o in ("monotonic", "unordered") else o
    return None


def _mo_arg(inst, idx):
    if idx < len(inst.args) and re.match(r'^\d+$', inst.args[idx]):
        return MO.get(int(inst.args[idx]), "?")
    return "dynamic"


def run(ctx):
    u = ctx.ast(UNIT)
    m = ctx.ir(UNIT)
    P = ctx.program_of("thread-link.cpp")
    ctx.rule("R06.1", "ATOMIC: write/read/read_lookahead are std::atomic; every access is an atomic load (acquire or seq_cst) or atomic store (release or seq_cst)")
    ctx.rule("R06.2", "PUBLISH-ORDER: no copy into (out of) the ring buffer is reachable after the store to `write` (`read`) in ring_write (ring_read)")
    ctx.rule("R06.3", "INDEX-OWNERSHIP: `write` is stored only in functions reached solely from the producer API (+constructor); `read`/`read_lookahead` only from the consumer API (+constructor)")
    ctx.rule("R06.4", "SPACE-GUARD: every call of ring_write is dominated by the true edge of ring_write_size(ring) >= len on the same len")
    ctx.rule("R06.6", "SPACE-ARITH: ring_write_size / ring_read_size, evaluated for every ring size 2..9 (powers of two and not) and every pair of indices, return (read - write - 1) mod size and (write - read) mod size: one slot stays free, full and empty are told apart")
    ctx.rule("R06.5", "MAXMSG-GUARD: on every path into ring_write, len is the result of a builder whose capacity argument is MaxMsg or was compared <= MaxMsg")

    layout = field_layout(u)
    names = [n for n, _, _ in layout]
    idx = {n: i for i, n in enumerate(names)}
    for need in ("buffer", "write", "read", "read_lookahead", "size"):
        ctx.require(need in idx, "field %s of internal_ringbuffer_t not found" % need)
    shared = ("write", "read", "read_lookahead")
    for n in shared:
        t = layout[idx[n]][1]
        ctx.ob("R06.1", "field %s is std::atomic" % n, "atomic" in t, site=A.where(layout[idx[n]][2]), detail={"type": t},
               what="ring index `%s` has non-atomic type %s" % (n, t))
    fns = [f for f in m.functions.values() if f.file and f.file.endswith("thread-link.cpp")]
    acc_by_fn = {}
    for f in fns:
        acc = accesses(P, f)
        if acc:
            acc_by_fn[f.name] = (f, acc)
    k = 0
    for fname, (f, acc) in sorted(acc_by_fn.items()):
        for fi, kind, order, inst in acc:
            fld = names[fi] if fi < len(names) else str(fi)
            if fld not in shared:
                continue
            if order == "explicit":
                continue    # member called with an explicit std::memory_order: decided on the AST below
            if kind == "atomic-load":
                ok = order in ("seq_cst", "acquire", "acq_rel")
            elif kind == "atomic-store":
                ok = order in ("seq_cst", "release", "acq_rel")
            elif kind == "atomic-rmw":
                ok = True
            else:
                ok = False
            ctx.ob("R06.1", "%s:%s %s#%d" % (P.dm(fname).split("(")[0], kind, fld, k), ok, site=inst.where(), detail={"order": order, "inst": inst.text[:140]},
                   key="R06.1:%s:%s:%s:%s" % (P.dm(fname).split("(")[0], kind, fld, order),
                   what="%s accesses ring index `%s` with a %s (order %s)" % (P.dm(fname).split("(")[0], fld, kind, order))
            k += 1
    # explicit memory orders (AST): load -> acquire/seq_cst, store -> release/seq_cst
    for x in (y for d in u.decls for y in A.walk(d)):
        if x.get("kind") != "CXXMemberCallExpr":
            continue
        callee = A.strip_casts(A.kids(x)[0])
        if callee.get("kind") != "MemberExpr" or callee.get("name") not in ("load", "store", "exchange", "fetch_add", "fetch_sub", "compare_exchange_weak", "compare_exchange_strong"):
            continue
        base = A.strip_casts(A.kids(callee)[0]) if A.kids(callee) else {}
        if base.get("kind") != "MemberExpr" or base.get("name") not in shared:
            continue
        if not (A.loc(x)[0] or "").endswith("thread-link.cpp"):
            continue
        orders = sorted({y["referencedDecl"]["name"] for a in A.kids(x)[1:] for y in A.walk(a)
                         if y.get("kind") == "DeclRefExpr" and (y.get("referencedDecl") or {}).get("name", "").startswith("memory_order_")})
        allowed = {"load": {"memory_order_acquire", "memory_order_seq_cst"}, "store": {"memory_order_release", "memory_order_seq_cst"}}.get(callee.get("name"), {"memory_order_seq_cst", "memory_order_acq_rel"})
        dynamic = not orders and len(A.kids(x)) > (2 if callee.get("name") == "store" else 1)
        okx = (not dynamic) and all(o in allowed for o in orders)
        ctx.ob("R06.1", "explicit-order %s.%s@%s" % (base.get("name"), callee.get("name"), A.loc(x)[1]), okx, site=A.where(x), detail={"orders": orders},
               key="R06.1:explicit:%s.%s:%s" % (base.get("name"), callee.get("name"), ",".join(orders)),
               what="ring index `%s` is accessed with %s(%s)" % (base.get("name"), callee.get("name"), ", ".join(orders) or "run-time order"))
    # the floor: the access recogniser must have seen every shared index being loaded and being stored somewhere
    # (how often is the code's business - reading an index once into a local removes accesses legitimately)
    seen_acc = {"%s %s" % (kd, fl) for kd in ("atomic-load", "atomic-store") for fl in shared
                if any(o.rule == "R06.1" and (":%s %s#" % (kd, fl)) in o.instance for o in ctx.obs)}
    for fld in sorted(shared):
        for kind in ("atomic-load", "atomic-store"):
            if kind == "atomic-load" and fld == "read_lookahead":
                continue       # only ever read through `lookahead ? &read_lookahead : &read`, which the recogniser attributes to neither
            ctx.require("%s %s" % (kind, fld) in seen_acc or any(o.rule == "R06.1" and o.instance.startswith("explicit-order %s." % fld) for o in ctx.obs),
                        "R06.1: no %s of ring index `%s` recognised - anchor moved or idiom not recognised" % (kind, fld))

    def fn_named(pat):
        for f in fns:
            if re.search(pat, P.dm(f.name)) and "::$_" not in P.dm(f.name) and "{lambda" not in P.dm(f.name):
                return f
        raise AnalysisBroken("anchor vanished: function %s in thread-link.cpp" % pat)

    # ---- R06.2
    for fname, pubfield, direction in (("ring_write", "write", "into"), ("ring_read", "read", "out of")):
        f = fn_named(r'^rtosc::%s\(' % fname)
        acc = accesses(P, f)
        pubs = [i for fi, kind, o, i in acc if names[fi] == pubfield and kind == "atomic-store"]
        # memcpy whose dest (ring_write) / src (ring_read) derives from the loaded `buffer` field
        def copies_of(g, depth=0):
            bufvals = set()
            geps = field_geps(g)
            for i in g.insts():
                if i.op == "load" and G.parse_load(i) in geps and names[geps[G.parse_load(i)]] == "buffer":
                    bufvals.add(i.res)
            ch = True
            while ch:
                ch = False
                for i in g.insts():
                    if i.op in ("getelementptr", "bitcast") and i.res not in bufvals and i.ops and i.ops[0] in bufvals:
                        bufvals.add(i.res)
                        ch = True
            out = []
            for i in g.calls():
                if i.callee and (i.callee.startswith("llvm.memcpy") or i.callee in ("memcpy", "memmove") or i.callee.startswith("llvm.memmove")):
                    argi = 0 if fname == "ring_write" else 1
                    if len(i.args) > argi and i.args[argi] in bufvals:
                        out.append(i)
                elif i.callee and not i.indirect and depth < 2 and i.callee in m.functions and m.functions[i.callee] is not g and m.functions[i.callee].blocks:
                    # a helper of the unit that does the copying: the call stands for its copies, provided it publishes nothing itself
                    h = m.functions[i.callee]
                    if copies_of(h, depth + 1):
                        hp = [x for fi, kind, o, x in accesses(P, h) if names[fi] in shared and kind in ("atomic-store", "atomic-rmw", "plain-store", "escape")]
                        ctx.require(not hp, "%s: the helper %s copies %s the ring buffer and stores an index itself" % (fname, P.dm(i.callee), direction))
                        out.append(i)
            # byte-wise copies: stores/loads through the buffer
            for i in g.insts():
                if fname == "ring_write" and i.op == "store" and G.parse_store(i)[1] in bufvals:
                    out.append(i)
                if fname == "ring_read" and i.op == "load" and G.parse_load(i) in bufvals:
                    out.append(i)
            return out
        copies = copies_of(f)
        if not pubs:
            # with a non-atomic / escaped index (already reported by R06.1) the publishing store cannot be identified
            r061_failed = any(o.rule == "R06.1" and not o.ok for o in ctx.obs)
            ctx.require(r061_failed, "%s: store to `%s` not found" % (fname, pubfield))
            ctx.ob("R06.2", "%s:publish-identifiable" % fname, False, site="%s:%s" % (f.file, f.line),
                   what="%s: no atomic store to `%s` found, the publish point cannot be ordered after the copy" % (fname, pubfield))
            continue
        ctx.require(copies, "%s: no copy %s the ring buffer found" % (fname, direction))
        for pi, pb in enumerate(pubs):
            late = [c for c in copies if f.reaches(pb, c)]
            ctx.ob("R06.2", "%s:publish#%d" % (fname, pi), not late, site=pb.where(),
                   detail={"copies": [c.where() for c in copies], "copies_reachable_after_publish": [c.where() for c in late]},
                   what="%s: the copy %s the ring buffer at %s can execute after `%s` was published at %s" % (fname, direction, late[0].where() if late else "", pubfield, pb.where()))
        # and every copy is followed by a publish on every path to the return (the index is published at all)
        # a lookahead read advances read_lookahead instead of read: either index counts as "advanced"
        adv = pubs + ([i for fi, kind, o, i in acc if names[fi] == "read_lookahead" and kind == "atomic-store"] if fname == "ring_read" else [])
        for ci, c in enumerate(copies):
            ok = _all_paths_hit(f, c, adv)
            ctx.ob("R06.2", "%s:copy#%d-then-publish" % (fname, ci), ok, site=c.where(),
                   what="%s: after the copy at %s some path returns without advancing an index" % (fname, c.where()))

    # ---- R06.3
    callers = {}
    for f in fns:
        for c in f.calls():
            if not c.indirect and c.callee:
                t = P.resolve(m, c.callee)
                if t is not None and t.file and t.file.endswith("thread-link.cpp"):
                    callers.setdefault(t.name, set()).add(f.name)

    def roots_reaching(fname):
        seen, work, roots = set(), [fname], set()
        while work:
            x = work.pop()
            if x in seen:
                continue
            seen.add(x)
            cs = callers.get(x, set())
            fobj = m.functions[x]
            if not fobj.internal:
                roots.add(x)
            work.extend(cs)
        return roots
    for fname, (f, acc) in sorted(acc_by_fn.items()):
        for fld, allowed in (("write", PRODUCER), ("read", CONSUMER), ("read_lookahead", CONSUMER)):
            st = [i for fi, kind, o, i in acc if names[fi] == fld and kind in ("atomic-store", "plain-store", "atomic-rmw")]
            if not st:
                continue
            roots = roots_reaching(fname)
            bad = [P.dm(r) for r in roots if not any(re.search(p, P.dm(r)) for p in allowed)]
            ctx.ob("R06.3", "%s stores %s" % (P.dm(fname).split("(")[0], fld), not bad, site=st[0].where(), detail={"reached_from": sorted(P.dm(r) for r in roots)},
                   what="`%s` is stored in %s, which is reachable from %s" % (fld, P.dm(fname).split("(")[0], bad))
    ctx.require_count("R06.3", 5)

    # ---- R06.7 (AST): one observation of the other thread's index per derived quantity
    ctx.rule("R06.7", "SNAPSHOT: in a ring function, values derived from two different loads of the index the OTHER thread advances never meet in one arithmetic expression - lengths and offsets are computed from one observation (labels flow through locals and out of unit helpers; comparisons are exempt)")
    from ..rules import snapshot as SN
    res7 = SN.analyse(u, shared)
    for q7, f7, foreign7, nl7, mixes7 in res7:
        ctx.ob("R06.7", q7, not mixes7, site=A.where(f7), detail={"foreign_indices": foreign7, "observations": nl7, "mixed": mixes7[:4]},
               what="%s combines two observations of `%s` (%s) in `%s`: the other thread may have advanced the index in between" % (
                   q7, mixes7[0]["index"] if mixes7 else "", ", ".join(mixes7[0]["observations"]) if mixes7 else "", mixes7[0]["expression"] if mixes7 else ""))
    ctx.require(len(res7) >= 3, "R06.7: only %d ring functions observing a foreign index found" % len(res7))

    # ---- R06.6 (AST, finite-domain evaluation)
    from .. import fdeval as FD
    for q, expect in (("ring_write_size", lambda r_, w_, n_: (r_ - w_ - 1) % n_), ("ring_read_size", lambda r_, w_, n_: (w_ - r_) % n_)):
        fnq = u.function(q)
        ps = u.params(fnq)
        bad = []
        ncase = 0
        try:
            for n_ in range(2, 10):
                for r_ in range(n_):
                    for w_ in range(n_):
                        def hook(x, ev, r_=r_, w_=w_, n_=n_):
                            k = x.get("kind")
                            if k == "MemberExpr" and x.get("name") in ("write", "read", "read_lookahead", "size"):
                                return {"write": w_, "read": r_, "read_lookahead": r_, "size": n_}[x.get("name")]
                            if k == "CXXMemberCallExpr":     # std::atomic<long>::operator long()
                                cal = A.strip_casts(A.kids(x)[0])
                                if cal.get("kind") == "MemberExpr" and A.kids(cal):
                                    return ev.ev(A.kids(cal)[0])
                            return NotImplemented
                        env = {ps[0]["id"]: 4096}
                        if len(ps) > 1:
                            env[ps[1]["id"]] = 0
                        def call(name, vals, n):        # helpers of the unit (e.g. an index accessor) are evaluated in turn
                            fns_ = [f_ for f_ in u.functions.get(name, []) if u.body(f_) is not None]
                            if len(fns_) != 1:
                                fns_ = [f_ for q_, fl in u.functions.items() if q_.endswith("::" + str(name)) for f_ in fl if u.body(f_) is not None]
                            if len(fns_) == 1:
                                return ev.call_function(u, fns_[0], vals)
                            raise FD.Unknown("call to %s" % name, n)
                        ev = FD.Eval(env=env, node_hook=hook, call=call)
                        try:
                            ev.run(u.body(fnq))
                            got = None
                        except FD._Return as rr:
                            got = rr.v
                        ncase += 1
                        if got != expect(r_, w_, n_):
                            bad.append({"size": n_, "read": r_, "write": w_, "returns": got, "expected": expect(r_, w_, n_)})
        except FD.Unknown as e:
            raise AnalysisBroken("R06.6: %s not evaluable: %s" % (q, e))
        ctx.ob("R06.6", q, not bad, site=A.where(fnq), detail={"cases": ncase, "mismatches": bad[:5]},
               what="%s is wrong for %s" % (q, bad[:2]))

    # ---- R06.4 / R06.5
    rw = fn_named(r'^rtosc::ring_write\(')
    rws = fn_named(r'^rtosc::ring_write_size\(')
    n_calls = 0
    for f in fns:
        for c in f.calls():
            if c.indirect or c.callee != rw.name:
                continue
            n_calls += 1
            caller = P.dm(f.name).split("(")[0]
            lenv = c.args[2] if len(c.args) > 2 else None
            ld = f.defs().get(lenv)
            lslot = G.parse_load(ld) if ld is not None and ld.op == "load" else None
            # R06.4
            ok4 = False
            for i in f.insts():
                if i.op != "icmp":
                    continue
                mm = re.match(r'^icmp (\w+) (\S+) (\S+), (\S+?)(?:,|$)', i.text)
                if not mm:
                    continue
                pred, ty, a, b = mm.groups()
                da, db = f.defs().get(a), f.defs().get(b)

                def is_size(d):
                    return d is not None and d.op in ("call", "invoke") and d.callee == rws.name

                def is_len(d):
                    return d is not None and d.op == "load" and lslot is not None and G.parse_load(d) == lslot
                edge = None
                if is_size(da) and is_len(db) and pred in ("uge", "ugt"):
                    edge = 0
                elif is_size(da) and is_len(db) and pred in ("ult", "ule"):
                    edge = 1 if pred == "ult" else None
                elif is_len(da) and is_size(db) and pred in ("ule", "ult"):
                    edge = 0
                elif is_len(da) and is_size(db) and pred == "ugt":
                    edge = 1
                if edge is None:
                    continue
                for j in i.block.insts:
                    if j.op == "br" and i.res in j.ops and len(j.succs) == 2:
                        if f.edge_dominates(j.block.label, j.succs[edge], c):
                            ok4 = True
            ctx.ob("R06.4", "%s->ring_write" % caller, ok4, site=c.where(),
                   what="%s calls ring_write without a dominating ring_write_size(ring) >= len test on the same len" % caller)
            # R06.5
            ok5, how = _maxmsg_bounded(P, f, c, lslot, fns)
            ctx.ob("R06.5", "%s->ring_write" % caller, ok5, site=c.where(), detail={"bounded_by": how},
                   key="R06.5:%s:len-not-bounded-by-MaxMsg" % caller,
                   what="%s hands ring_write a length that is neither built with capacity MaxMsg nor compared <= MaxMsg" % caller)
    # a wrapper that forwards its own length parameter stands for its call sites
    wrappers = {f.name for f in fns for c in f.calls() if not c.indirect and c.callee == rw.name}
    n_sites = n_calls + sum(1 for g in fns for c2 in g.calls() if not c2.indirect and c2.callee in wrappers and c2.callee != rw.name) - \
        sum(1 for w in wrappers if any(not c2.indirect and c2.callee == w for g in fns for c2 in g.calls()))
    ctx.require(n_sites >= 3, "only %d call sites of ring_write (directly or through a forwarding wrapper) found" % n_sites)


def _all_paths_hit(f, start, targets):
    """every path from instruction `start` to a ret passes one of `targets`"""
    tb = {}
    for t in targets:
        tb.setdefault(t.block.label, []).append(t)
    if start.block.label in tb and any(t.idx > start.idx for t in tb[start.block.label]):
        return True
    seen = set()
    work = list(start.block.succs)
    if not work:
        return False
    while work:
        l = work.pop()
        if l in seen:
            continue
        seen.add(l)
        if l in tb:
            continue
        b = f.bmap[l]
        if b.insts and b.insts[-1].op == "ret":
            return False
        work.extend(b.succs)
    return True


def _maxmsg_fields(P, f):
    """SSA values that are loads of this->MaxMsg in a ThreadLink method."""
    vals = set()
    for i in f.insts():
        if i.op == "getelementptr" and "class.rtosc::ThreadLink" in i.text:
            mm = re.search(r'i32 0, i32 (\d+)\s*(?:,|$)', i.text.split(", !dbg")[0])
            if mm and int(mm.group(1)) == 0:
                vals.add(i.res)
    out = set()
    for i in f.insts():
        if i.op == "load" and G.parse_load(i) in vals:
            out.add(i.res)
    return out


def _maxmsg_bounded(P, f, call, lslot, fns=(), depth=0):
    if lslot is None:
        return False, None
    # (c) forwarding wrapper: the length is f's own parameter, never reassigned -> the obligation is every caller's
    if depth < 3:
        for idx in range(len(f.params)):
            try:
                ps = G.param_slot(f, idx)
            except AnalysisBroken:
                continue
            if ps != lslot:
                continue
            if len([s for s in f.insts() if s.op == "store" and G.parse_store(s)[1] == lslot]) != 1:
                break
            sites = [(g, c2) for g in fns for c2 in g.calls() if not c2.indirect and c2.callee == f.name]
            if not sites:
                break
            hows = []
            for g, c2 in sites:
                v = c2.args[idx] if idx < len(c2.args) else None
                d2 = g.defs().get(v)
                s2 = G.parse_load(d2) if d2 is not None and d2.op == "load" else None
                ok, how = _maxmsg_bounded(P, g, c2, s2, fns, depth + 1)
                if not ok:
                    return False, {"forwarded_by": P.dm(f.name).split("(")[0], "unbounded_caller": P.dm(g.name).split("(")[0], "at": c2.where()}
                hows.append("%s: %s" % (P.dm(g.name).split("(")[0], how))
            return True, "forwarded parameter; every caller bounds it: " + "; ".join(hows)
    mx = _maxmsg_fields(P, f)
    # (a) len slot is stored from the result of a builder whose capacity argument is MaxMsg
    stores = [s for s in f.insts() if s.op == "store" and G.parse_store(s)[1] == lslot]
    if len(stores) == 1:
        v = G.parse_store(stores[0])[0]
        d = f.defs().get(v)
        if d is not None and d.op in ("call", "invoke") and d.callee in ("rtosc_vmessage", "rtosc_amessage", "rtosc_message", "rtosc_avmessage"):
            if len(d.args) > 1 and d.args[1] in mx:
                return True, "%s(write_buffer, MaxMsg, ...)" % d.callee
    # (b) a dominating comparison len <= MaxMsg
    for i in f.insts():
        if i.op != "icmp":
            continue
        mm = re.match(r'^icmp (\w+) (\S+) (\S+), (\S+?)(?:,|$)', i.text)
        if not mm:
            continue
        pred, ty, a, b = mm.groups()
        da, db = f.defs().get(a), f.defs().get(b)
        a_len = da is not None and da.op == "load" and G.parse_load(da) == lslot
        b_len = db is not None and db.op == "load" and G.parse_load(db) == lslot
        edge = None
        if a_len and b in mx and pred in ("ule", "ult"):
            edge = 0
        elif a_len and b in mx and pred == "ugt":
            edge = 1
        elif b_len and a in mx and pred in ("uge", "ugt"):
            edge = 0
        elif b_len and a in mx and pred == "ult":
            edge = 1
        if edge is None:
            continue
        for j in i.block.insts:
            if j.op == "br" and i.res in j.ops and len(j.succs) == 2:
                if f.edge_dominates(j.block.label, j.succs[edge], call):
                    return True, "len <= MaxMsg at %s" % i.where()
    return False, None
