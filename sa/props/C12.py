"""C12 - Savefiles (narrow structural claim; DESIGN.md section 2, C12)."""
import re
from .. import astlib as A
from ..facts import AnalysisBroken
from .. import fdeval as FD
from ..rules import metakeys as MK
from ..rules import oscformat as OF
from ..rules import sugar as S
import os
from ..facts import WITNESS_DIR

LEVEL = "other"
EXPLANATION = ("Structural conditions of the save/load pipeline: (R12.1) every metadata key the savefile path looks up (parameter, "
               "alias, default, default depends, default <n>, blob type, enabled by, map <n>) is producible by a macro of "
               "port-sugar.h - keys are read off the macro expansions in the witness units, prefixes of computed keys included - and "
               "the `map ` prefix enum_key scans for has the length of the offset it then skips; (R12.2) rtosc_v2args advances "
               "only on value-carrying tags, so every caller passes the count of value-carrying tags of the same string or guards "
               "a count of 1 by has_reserved() on the same tag - the capture of a toggle port's reply depends on it; (R12.3) every "
               "reply/broadcast of the macro-generated callbacks that the capture consumes is type-correct (OSC-format rule). "
               "That save->load reproduces the state, minimality and rejection of malformed files are not decided.")
TRUSTED = ["clang 14 AST", "witness/meta_matrix.cpp and witness/sugar_matrix.cpp expansions", "va_arg table extracted from rtosc_v2args"]
ASSUMPTIONS = ["keys computed at run time (default <n> from the depended value, map <n> from the integer) are checked through their literal prefix only"]

CONSUMERS = [("savefile.cpp", None), ("default-value.cpp", None), ("ports-runtime.cpp", None),
             ("ports.cpp", ("map_arg_vals", "canonicalize_arg_vals", "port_is_enabled", "enum_key", "enum_key_from_msg", "walk_ports", "walk_ports_recurse", "walk_ports_recurse0"))]


def run(ctx):
    ctx.rule("R12.1", "KEYS: every metadata key (or literal key prefix) looked up on the savefile path is emitted by a macro of port-sugar.h")
    ctx.rule("R12.2", "VA-CONSUME: every call of rtosc_v2args passes nreserved(<same string>) as count, or a count of 1 under has_reserved(*<same string>)")
    ctx.rule("R12.4", "PAIRING: a length/index written into an argument array derives from the position of the iterator that walks that same array (runtime values vs. defaults: the two lists have different slot layouts once one is range-compressed)")
    ctx.rule("R12.5", "PER-MESSAGE: the dependency scan of the loader keeps no mutable state across the messages of a file")
    ctx.rule("R12.6", "HEADER: load_from_file rejects (negative return) when a header line does not scan, and compares the application name with exact string equality; the two header lines it scans are the ones save_to_file writes")
    ctx.rule("R12.3", "CAPTURE-FORMAT: every literal-format reply/broadcast in the macro-generated callbacks passes the C types rtosc_v2args / rtosc_v2argvals will read")
    meta_u = ctx.ast("meta_matrix.cpp")
    sugar_u = ctx.ast("sugar_matrix.cpp")
    exact, pats, prod = MK.all_emitted(meta_u, sugar_u)
    ndyn = 0
    seen = set()
    for un, only in CONSUMERS:
        u = ctx.ast(un)
        for q, fns in sorted(u.functions.items()):
            for fn in fns:
                if not (A.loc(fn)[0] or "").endswith(un):
                    continue
                if only is not None and q.split("::")[-1] not in only:
                    continue
                for key, node, kind in MK.lookups(u, u.body(fn)):
                    if node.get("id") in seen:
                        continue
                    seen.add(node.get("id"))
                    if key is None:
                        ndyn += 1
                        continue
                    if isinstance(key, MK.Prefix):
                        ok = (key in exact) or any(p.startswith(key) and p != key for p in pats) or (key.rstrip() + " <n>") in pats
                        how = "prefix"
                    else:
                        ok = key in exact or MK.key_pattern(key) in pats
                        how = "exact"
                    ctx.ob("R12.1", "%s:%s \"%s\"" % (un, q, key), ok, site=A.where(node),
                           detail={"key": key, "match": how, "emitted_by": sorted(prod.get(key, []))[:4]},
                           key="R12.1:%s:%s:%s" % (un, q, key),
                           what="%s looks up metadata key \"%s\" which no macro of port-sugar.h emits" % (q, key))
    ctx.require_count("R12.1", 8)
    ctx.extra["dynamic_key_lookups"] = ndyn
    # enum_key / canonicalize: strstr(title, "map ") and atoi(title + len)
    up = ctx.ast("ports.cpp")
    fn = up.function("enum_key")
    for c in A.calls_in(up.body(fn), "strstr"):
        lit = A.string_literal(A.kids(c)[2])
        offs = sorted({A.int_literal(A.kids(y)[1]) for x in A.calls_in(up.body(fn), "atoi") for y in A.walk(x)
                       if y.get("kind") == "BinaryOperator" and y.get("opcode") == "+" and A.int_literal(A.kids(y)[1]) is not None})
        ok = lit is not None and (lit + "<n>") in pats and offs == [len(lit)]
        ctx.ob("R12.1", "ports.cpp:enum_key option prefix \"%s\"" % lit, ok, site=A.where(c), detail={"prefix": lit, "skipped_offset": offs, "emitted_patterns": sorted(p for p in pats if "<n>" in p)},
               what="enum_key scans option keys for \"%s\" and skips %s characters; rOpt emits %s" % (lit, offs, sorted(p for p in pats if p.startswith("map"))))
        break

    # ---- R12.2
    ur = ctx.ast("rtosc.c")
    n = 0
    for q, fns in ur.functions.items():
        for fn in fns:
            for c in A.calls_in(ur.body(fn), "rtosc_v2args"):
                n += 1
                a = A.kids(c)[1:]
                cnt, s = a[1], a[2]
                sid = A.ref_id(s)
                ok = False
                how = None
                cd = ur.by_id.get(A.ref_id(cnt)) if A.ref_id(cnt) else None
                if cd is not None and A.kids(cd):
                    init = A.strip_casts(A.kids(cd)[-1])
                    if init.get("kind") == "CallExpr" and A.callee_name(init) == "nreserved" and A.ref_id(A.kids(init)[1]) == sid:
                        ok, how = True, "count = nreserved(%s)" % A.src(s)
                if not ok and A.int_literal(cnt) == 1:
                    child = c
                    for p in ur.ancestors(c):
                        if p.get("kind") == "IfStmt" and S_contains(A.kids(p)[1], child):
                            cond = A.strip_casts(A.kids(p)[0])
                            if cond.get("kind") == "CallExpr" and A.callee_name(cond) == "has_reserved":
                                arg = A.strip_casts(A.kids(cond)[1])
                                if arg.get("kind") == "UnaryOperator" and arg.get("opcode") == "*" and A.ref_id(A.kids(arg)[0]) == sid:
                                    ok, how = True, "count 1 under has_reserved(*%s)" % A.src(s)
                            break
                        child = p
                ctx.ob("R12.2", "%s->rtosc_v2args" % q, ok, site=A.where(c), detail={"count": A.src(cnt), "string": A.src(s), "justified_by": how},
                       key="R12.2:%s" % q,
                       what="%s calls rtosc_v2args(…, %s, %s, …): the count is not the number of value-carrying tags of that string" % (q, A.src(cnt), A.src(s)))
    ctx.require(n >= 2, "R12.2: only %d calls of rtosc_v2args found" % n)

    # ---- R12.4
    us = ctx.ast("savefile.cpp")
    fn = us.function("first_equal_index")
    itr_array = {}
    for c in A.calls_in(us.body(fn), "rtosc_arg_val_itr_init"):
        a = A.kids(c)[1:]
        it = A.strip_casts(a[0])
        if it.get("kind") == "UnaryOperator" and it.get("opcode") == "&":
            itr_array[A.ref_id(A.kids(it)[0])] = A.ref_id(a[1])
    ctx.require(len(itr_array) == 2, "first_equal_index: iterator initialisations not found")
    sets = list(A.calls_in(us.body(fn), "rtosc_arg_arr_len_set")) + list(A.calls_in(us.body(fn), "rtosc_av_arr_len_set"))     # (on the value's union / on the value itself)
    ctx.require(len(sets) == 1, "first_equal_index: expected one rtosc_arg_arr_len_set")
    a = A.kids(sets[0])[1:]
    def _param_origin(e, depth=0):
        """the parameters an expression is computed from, local pointer copies (`T* const hdr = rhs;`, never reassigned) followed"""
        out = set()
        for y in A.walk(e):
            if y.get("kind") != "DeclRefExpr":
                continue
            rd = y.get("referencedDecl") or {}
            if rd.get("kind") == "ParmVarDecl":
                out.add(rd["id"])
            elif rd.get("kind") == "VarDecl" and depth < 4:
                d = us.by_id.get(rd.get("id"))
                if d is None or not A.kids(d):
                    raise AnalysisBroken("R12.4: the array header handed to rtosc_arg_arr_len_set goes through the local `%s` without initialiser" % rd.get("name"))
                restored = [z for z in A.walk(us.body(fn)) if (z.get("kind") in ("BinaryOperator", "CompoundAssignOperator") and z.get("opcode", "").endswith("=") and
                                                                 z.get("opcode") not in ("==", "!=", "<=", ">=") and A.ref_id(A.kids(z)[0]) == rd["id"]) or
                            (z.get("kind") == "UnaryOperator" and z.get("opcode") in ("++", "--") and A.ref_id(A.kids(z)[0]) == rd["id"])]
                if restored:
                    raise AnalysisBroken("R12.4: the array header handed to rtosc_arg_arr_len_set goes through the local `%s`, which is assigned again" % rd.get("name"))
                out |= _param_origin(A.kids(d)[-1], depth + 1)
        return out
    arr_ids = _param_origin(a[0])
    ctx.require(arr_ids, "R12.4: the array whose header rtosc_arg_arr_len_set writes was not traced to a parameter")
    vid = A.ref_id(a[1])
    sources = set()
    for y in A.walk(us.body(fn)):
        if y.get("kind") == "BinaryOperator" and y.get("opcode") == "=" and A.ref_id(A.kids(y)[0]) == vid:
            for z in A.walk(A.kids(y)[1]):
                if z.get("kind") == "MemberExpr" and z.get("name") == "i":
                    sources.add(A.ref_id(A.kids(z)[0]))
    src_arrays = {itr_array.get(s_) for s_ in sources}
    names = {i_: us.by_id[i_].get("name") for i_ in list(arr_ids) + [x for x in src_arrays if x]}
    ctx.ob("R12.4", "first_equal_index: trimmed length", bool(sources) and src_arrays == arr_ids, site=A.where(sets[0]),
           detail={"array_written": sorted(names.get(i_) for i_ in arr_ids), "length_derived_from_iterator_over": sorted(str(names.get(i_)) for i_ in src_arrays)},
           what="first_equal_index trims array `%s` to a length taken from the iterator over `%s`" % (sorted(names.get(i_) for i_ in arr_ids), sorted(str(names.get(i_)) for i_ in src_arrays)))

    # ---- R12.14: the loader's own message constructor follows rtosc_amessage's element discipline
    ctx.rule("R12.14", "LOADER-ARG-SLOTS: the loop of dispatch_printed_messages that rebuilds a message from the scanned values fills the rtosc_arg_t array it hands to rtosc_amessage with one element per value-carrying tag - "
             "the discipline rtosc_amessage's own argument index follows (no element for T, F, N, I) - checked on every tag sequence of length 1..3: a line such as `/a true \"x\"` must be rebuilt and rejected, not crash the loader")
    from ..rules import argslots as AS
    cons14 = AS.consumer_table(ctx.ast("rtosc.c"))
    prods14 = [p_ for p_ in AS.producers(us) if p_[0] == "dispatch_printed_messages"]
    ctx.require(len(prods14) == 1, "R12.14: the loop of dispatch_printed_messages that fills type string and values was not found (%d)" % len(prods14))
    q14, fnp14, call14, tid14, vid14, lp14 = prods14[0]
    ptab14, _names14 = AS.producer_table(us, fnp14, tid14, vid14, lp14)
    bad14 = AS.mismatches(cons14, ptab14)
    ctx.ob("R12.14", "dispatch_printed_messages", not bad14, site=A.where(lp14),
           detail={"rtosc_amessage_consumes_an_element_for": "".join(t for t in AS.TAGS if cons14[t]), "sequences": sum(15 ** n for n in (1, 2, 3)), "mismatches": bad14[:4]},
           key="R12.14:dispatch_printed_messages",
           what="dispatch_printed_messages stores argument values in other array elements than rtosc_amessage reads them from: %s" % bad14[:2])

    # ---- R12.15: nothing survives from one call of the save / load pipeline to the next
    ctx.rule("R12.15", "NO-CALL-STATE: the functions of the save and load pipeline (get_default_value, get_changed_values, save_to_file, load_from_file, dispatch_printed_messages and the helpers of their units) keep no mutable "
             "variable of static or thread storage duration: an answer remembered from an earlier call (a cache of the depended port's value) is compared against a state that has changed since")
    n15 = 0
    bad15 = []
    for un15 in ("default-value.cpp", "savefile.cpp", "ports-runtime.cpp"):
        uu15 = ctx.ast(un15)
        for q15, fl15 in sorted(uu15.functions.items()):
            for f15 in fl15:
                if uu15.body(f15) is None or not (A.loc(f15)[0] or "").endswith(un15):
                    continue
                n15 += 1
                for d15 in A.walk(uu15.body(f15)):
                    if d15.get("kind") == "VarDecl" and (d15.get("storageClass") == "static" or d15.get("tls")):
                        t15 = A.qtype(d15) or ""
                        if re.match(r"^\s*(static\s+)?const\b", t15) or t15.startswith("const ") or " const" in t15.split("*")[-1] or d15.get("constexpr"):
                            continue
                        if t15.replace("static ", "").strip() in ("bool", "_Bool", "std::once_flag", "std::atomic<bool>", "std::atomic_bool"):
                            continue             # a once-only flag (a warning printed once) carries no value of the state
                        # what is remembered has to be recognised again: the variable (or a sibling declared with it) is read in a
                        # condition; a scratch buffer that every call fills afresh is not
                        conds15 = [A.kids(y)[0] for y in A.walk(uu15.body(f15)) if y.get("kind") in ("IfStmt", "WhileStmt", "ConditionalOperator") and A.kids(y)] + \
                                  [k_ for y in A.walk(uu15.body(f15)) if y.get("kind") == "ForStmt" for k_ in y.get("inner", [])[2:3] if isinstance(k_, dict)]
                        if not any(z.get("kind") == "DeclRefExpr" and (z.get("referencedDecl") or {}).get("id") == d15["id"] for c_ in conds15 for z in A.walk(c_)):
                            continue
                        bad15.append((q15, d15))
    ctx.require(n15 >= 8, "R12.15: only %d functions of the save / load pipeline found" % n15)
    ctx.ob("R12.15", "save / load pipeline: variables that outlive a call", not bad15, site=A.where(bad15[0][1]) if bad15 else A.where(us.function("save_to_file")),
           detail={"functions": n15, "mutable_static_or_thread_locals": ["%s: %s %s" % (q_, A.qtype(d_), d_.get("name")) for q_, d_ in bad15][:4]},
           key="R12.15:%s" % (bad15[0][0] if bad15 else ""),
           what="%s keeps `%s %s` across calls: what it remembers of an earlier call (the answer of a depended port, a default) is used although the state it was read from may have changed - a second save of the same object after a preset change compares against the old preset's defaults" % (
               bad15[0][0] if bad15 else "", A.qtype(bad15[0][1]) if bad15 else "", bad15[0][1].get("name") if bad15 else ""))

    from . import C13
    C13.per_message_state(ctx, us, "R12.5")
    # ---- R12.6
    import re as _re
    fl = us.function("load_from_file")
    appp = [p_ for p_ in us.params(fl) if p_.get("name") == "appname"]
    ctx.require(len(appp) == 1, "load_from_file: parameter appname not found")
    cmpc = [c for c in A.calls_in(us.body(fl)) if A.callee_name(c) in ("strcmp", "strncmp", "strstr", "strcasecmp", "memcmp") and
            any(A.ref_id(a) == appp[0]["id"] for a in A.kids(c)[1:])]
    ok = len(cmpc) == 1 and A.callee_name(cmpc[0]) == "strcmp"
    rejects = False
    if ok:
        for a in us.ancestors(cmpc[0]):
            if a.get("kind") == "IfStmt":
                # the comparison (non-zero = different) is a disjunct of the rejecting condition
                rejects = any(y.get("kind") == "ReturnStmt" for y in A.walk(A.kids(a)[1]))
                break
    ctx.ob("R12.6", "application name compared exactly", ok and rejects, site=A.where(cmpc[0]) if cmpc else A.where(fl), detail={"comparison": [A.src(c) for c in cmpc], "rejecting_branch": rejects},
           what="load_from_file checks the application name with %s: a file of another application can be accepted" % [A.src(c) for c in cmpc])
    # every header sscanf is followed by a rejection on n <= 0
    scans = [c for c in A.calls_in(us.body(fl), "sscanf")]
    ctx.require(len(scans) == 2, "load_from_file: expected two header sscanf calls")
    top = A.kids(us.body(fl))
    for k_, c in enumerate(scans):
        idx = next(i_ for i_, s_ in enumerate(top) if any(y.get("id") == c.get("id") for y in A.walk(s_)))
        nxt = top[idx + 1] if idx + 1 < len(top) else None
        okr = nxt is not None and nxt.get("kind") == "IfStmt" and "<=" in A.src(A.kids(nxt)[0]) and any(y.get("kind") == "ReturnStmt" and A.src(A.kids(y)[0]).lstrip("(").startswith("-") for y in A.walk(A.kids(nxt)[1]))
        ctx.ob("R12.6", "header line %d rejected when it does not scan" % (k_ + 1), okr, site=A.where(c), what="load_from_file does not return a negative value when header line %d fails to scan" % (k_ + 1))
    # writer and reader agree on the fixed words of the header
    fsv = us.function("save_to_file")
    rl = "".join(A.string_literal(A.kids(c)[2]) or "" for c in scans)
    words_r = [w for w in _re.findall(r'[A-Za-z]{2,}', _re.sub(r'%%|%\d*[a-z]+', ' ', rl))]

    def _lit_words(f_):
        return _re.findall(r'[A-Za-z]{2,}', "".join(A.string_literal(y) or "" for y in A.walk(us.body(f_)) if y.get("kind") == "StringLiteral"))
    words_w = _lit_words(fsv)
    if not set(words_w) & set(words_r):
        # the header may be composed in a helper of the unit: the one called from save_to_file whose literals share a word with the scanned lines
        helpers6 = []
        for c_ in A.calls_in(us.body(fsv)):
            for h_ in [f_ for q_, fl_ in us.functions.items() if q_.split("::")[-1] == (A.callee_name(c_) or "") for f_ in fl_ if us.body(f_) is not None]:
                if h_ not in helpers6 and set(_lit_words(h_)) & set(words_r):
                    helpers6.append(h_)
        if len(helpers6) != 1:
            raise AnalysisBroken("R12.6: where save_to_file composes the header lines was not found (%d candidate helpers)" % len(helpers6))
        words_w = _lit_words(helpers6[0])
    ctx.ob("R12.6", "header words", words_w == words_r and "savefile" in words_w, site=A.where(fsv), detail={"written": words_w, "scanned": words_r},
           what="save_to_file writes the header words %s, load_from_file scans %s" % (words_w, words_r))
    # ---- R12.3
    vtab = OF.va_table(ur)
    lams = S.lambdas(sugar_u, os.path.join(WITNESS_DIR, "sugar_matrix.cpp"))
    for L in lams:
        k = 0
        for call, name, fmt, actuals in OF.variadic_calls(sugar_u, L.body):
            if name not in ("reply", "broadcast"):
                continue
            res = OF.check_call(sugar_u, vtab, call, name, fmt, actuals)
            if res is None:
                continue
            for ok, tol, det in res:
                if A.string_literal(A.kids(call)[1]) == "/undo_change":
                    continue     # not captured by the savefile path (C14 R14a/R14d)
                ctx.ob("R12.3", "%s:%s#%d \"%s\"" % (L.label, name, k, det["format"]), ok, site=A.where(call), detail=det,
                       key="R12.3:%s:%s:%s" % (L.macro, name, det["format"]),
                       what="%s: %s(...,\"%s\",...): %s" % (L.label, name, det["format"], "; ".join(det["problems"])))
                k += 1
    ctx.require_count("R12.3", 50)


    # ---- R12.7
    ctx.rule("R12.7", "ELEMENT-INDEX: when the loader re-expands a saved array into one message per element, the index it writes behind the port name counts the messages sent so far (a counter started at 0 and stepped by one per round of the element loop) - not the iterator's slot position, which runs ahead as soon as the saved array contains a compressed run")
    usv = ctx.ast("savefile.cpp")
    dpm = usv.function("dispatch_printed_messages")
    idx_calls = []
    for c in A.calls_in(usv.body(dpm)):
        if A.callee_name(c) in ("snprintf", "sprintf"):
            lits = [A.string_literal(a) for a in A.kids(c)[1:]]
            if "%d" in lits or "%u" in lits or "%zu" in lits:
                idx_calls.append(c)
    ctx.require(len(idx_calls) >= 1, "R12.7: the element index is no longer written with snprintf(\"%d\") in dispatch_printed_messages")
    for c in idx_calls:
        val = A.kids(c)[-1]
        vid = A.ref_id(val)
        vd = usv.by_id.get(vid) if vid else None
        loop = None
        for p_ in usv.ancestors(c):
            if p_.get("kind") in ("ForStmt", "WhileStmt", "DoStmt"):
                loop = p_
                break
        how = None
        ok7 = False
        if vd is not None and vd.get("kind") == "VarDecl" and loop is not None:
            init = A.kids(vd)[-1] if A.kids(vd) else None
            init0 = init is not None and A.int_literal(init) == 0
            steps, others = [], []
            seen_ids = set()
            for y in A.walk(usv.body(dpm)):
                if y.get("id") in seen_ids:
                    continue             # the body of a lambda is listed twice in the dump (closure method and expression)
                seen_ids.add(y.get("id"))
                if y.get("kind") == "UnaryOperator" and y.get("opcode") in ("++", "--") and A.ref_id(A.kids(y)[0]) == vid:
                    (steps if y.get("opcode") == "++" and S_contains(loop, y) else others).append(y)
                elif y.get("kind") == "CompoundAssignOperator" and A.ref_id(A.kids(y)[0]) == vid:
                    (steps if y.get("opcode") == "+=" and A.int_literal(A.kids(y)[1]) == 1 and S_contains(loop, y) else others).append(y)
                elif y.get("kind") == "BinaryOperator" and y.get("opcode") == "=" and A.ref_id(A.kids(y)[0]) == vid:
                    others.append(y)
            # the step belongs to this loop itself, not to a loop nested in it
            own = [y for y in steps if not any(S_contains(l2, y) for l2 in A.walk(loop) if l2 is not loop and l2.get("kind") in ("ForStmt", "WhileStmt", "DoStmt"))]
            declared_outside = not S_contains(A.kids(loop)[-1], vd) if loop.get("kind") != "ForStmt" else not S_contains(loop.get("inner", [None] * 5)[4], vd)
            ok7 = init0 and len(own) == 1 and len(steps) == 1 and not others and declared_outside
            how = {"variable": vd.get("name"), "starts_at_0": bool(init0), "steps_per_round": len(own), "other_writes": len(others), "initialiser": A.src(init) if init is not None else None}
        else:
            how = {"expression": A.src(val)}
        ctx.ob("R12.7", "array element index", ok7, site=A.where(c), detail=how,
               key="R12.7:dispatch_printed_messages:element index",
               what="dispatch_printed_messages numbers the elements of a re-expanded array with `%s` (%s), which is not a count of the messages sent: after a compressed run the following elements are sent to wrong indices" % (A.src(val), how))
    # ---- R12.8 (= R13.6)
    from . import C13 as _C13
    _C13.self_edge_obligation(ctx, usv, "R12.8")

    # ---- R12.10: the two header lines, by evaluation
    ctx.rule("R12.10", "HEADER (evaluated): load_from_file, interpreted with a model of sscanf on probe files, goes on to dispatch the messages only after both header lines scanned completely with the exact application name and version numbers up to 255, and returns a negative value otherwise - whatever an earlier scan left in its variables")
    from ..rules import scanfmodel as SM10
    fl10 = us.function("load_from_file")
    H1 = "% RT OSC v0.3.1 savefile\n"
    body10 = "/volume 100\n/pan -5\n"
    files10 = [("complete header", H1 + "% demoapp v1.2.3\n" + body10, True),
               ("second line without version", H1 + "% demoapp\n" + body10, False),
               ("second line with a truncated version", H1 + "% demoapp v1.2\n" + body10, False),
               ("second line without the v", H1 + "% demoapp 1.2.3\n" + body10, False),
               ("another application", H1 + "% other v1.2.3\n" + body10, False),
               ("application name is a prefix of the file's", H1 + "% demoappx v1.2.3\n" + body10, False),
               ("file's application name is a prefix", H1 + "% demo v1.2.3\n" + body10, False),
               ("application version above 255", H1 + "% demoapp v1.2.300\n" + body10, False),
               ("first line with a truncated version", "% RT OSC v0.3 savefile\n% demoapp v1.2.3\n" + body10, False),
               ("first line without the v", "% RT OSC 0.3.1 savefile\n% demoapp v1.2.3\n" + body10, False),
               ("library version above 255", "% RT OSC v0.3.256 savefile\n% demoapp v1.2.3\n" + body10, False),
               ("empty file", "", False)]
    bad10 = []

    class _Reached(Exception):
        pass
    for name10, text10, accept10 in files10:
        TB, AB = 1 << 16, 1 << 20
        bufs10 = {}
        holder10 = {}

        def deref10(a_, n_, text10=text10):
            if TB <= a_ <= TB + len(text10):
                return ord(text10[a_ - TB]) if a_ - TB < len(text10) else 0
            if AB <= a_ <= AB + 7:
                return ord("demoapp"[a_ - AB]) if a_ - AB < 7 else 0
            raise FD.Unknown("read at %#x" % a_, n_)

        def sval10(v_, text10=text10):
            if isinstance(v_, tuple) and v_[0] == "buf":
                return bufs10.get(v_[1], "")
            if isinstance(v_, str):
                return v_
            if TB <= v_ <= TB + len(text10):
                return text10[v_ - TB:]
            if AB <= v_ <= AB + 7:
                return "demoapp"[v_ - AB:]
            raise FD.Unknown("string operand %r" % (v_,))

        def hook10(n_, ev_):
            k_ = n_.get("kind")
            if k_ == "StringLiteral":
                return A.string_literal(n_)
            if k_ == "ImplicitCastExpr" and n_.get("castKind") == "ArrayToPointerDecay":
                inner = A.strip_casts(A.kids(n_)[0])
                if A.string_literal(inner) is not None:
                    return A.string_literal(inner)
                if inner.get("kind") == "DeclRefExpr":
                    return ("buf", inner["referencedDecl"]["id"])
            if k_ == "UnaryOperator" and n_.get("opcode") == "&" and A.strip_casts(A.kids(n_)[0]).get("kind") == "DeclRefExpr":
                return ("addr", A.ref_id(A.kids(n_)[0]))
            if k_ == "CallExpr" and A.callee_name(n_) == "dispatch_printed_messages":
                raise _Reached()
            if k_ in ("CXXMemberCallExpr",) or (k_ == "CallExpr" and A.callee_name(n_) == "rtosc_current_version"):
                return 0
            if k_ == "DeclRefExpr" and (n_.get("referencedDecl") or {}).get("id") not in ev_.env:
                d_ = us.by_id.get((n_.get("referencedDecl") or {}).get("id"))
                if d_ is not None and d_.get("kind") == "VarDecl" and A.kids(d_) and "const" in (A.qtype(d_) or "") and us.parent.get(d_.get("id"), {}).get("kind") != "DeclStmt":
                    return ev_.ev(A.kids(d_)[-1])        # a named constant of the unit
            return NotImplemented

        def call10(nm, vals, n_):
            if nm == "sscanf":
                at = vals[0]
                fmt = vals[1]
                if not isinstance(fmt, str) or not isinstance(at, int):
                    raise FD.Unknown("sscanf with a computed format or source", n_)
                got, _ = SM10.scan(sval10(at), fmt)
                cnt = 0
                for (c_, v_), o_ in zip(got, vals[2:]):
                    if isinstance(o_, tuple) and o_[0] == "addr":
                        holder10["ev"].env[o_[1]] = v_
                    elif isinstance(o_, tuple) and o_[0] == "buf":
                        bufs10[o_[1]] = v_ if isinstance(v_, str) else str(v_)
                    else:
                        raise FD.Unknown("sscanf output argument %r" % (o_,), n_)
                    if c_ != "n":
                        cnt += 1
                return cnt
            if nm in ("strcmp",):
                a_, b_ = sval10(vals[0]), sval10(vals[1])
                return (a_ > b_) - (a_ < b_)
            if nm in ("strncmp",):
                a_, b_ = sval10(vals[0])[:vals[2]], sval10(vals[1])[:vals[2]]
                return (a_ > b_) - (a_ < b_)
            if nm == "strlen":
                return len(sval10(vals[0]))
            fns_ = [f_ for f_ in us.functions.get(nm, []) if us.body(f_) is not None]
            if len(fns_) == 1:
                return holder10["ev"].call_function(us, fns_[0], vals)
            raise FD.Unknown("call to %s" % nm, n_)
        env10 = {}
        for p_ in us.params(fl10):
            t_ = (A.qtype(p_) or "").replace(" ", "")
            if p_.get("name") == "appname" or (t_ == "constchar*" and p_ is not us.params(fl10)[0]):
                env10[p_["id"]] = AB
            elif t_ == "constchar*":
                env10[p_["id"]] = TB
            else:
                env10[p_["id"]] = 0          # no dispatcher, ports / runtime / version are not looked at by the header code
        ev10 = FD.Eval(env=env10, deref=deref10, node_hook=hook10, call=call10, max_steps=3000)
        holder10["ev"] = ev10
        try:
            try:
                ev10.run(us.body(fl10))
                res10 = "falls off its end"
            except FD._Return as r_:
                res10 = r_.v
            except _Reached:
                res10 = "dispatches"
        except FD.Unknown as e:
            raise AnalysisBroken("R12.10: load_from_file not evaluable on `%s`: %s" % (name10, e))
        ok10 = (res10 == "dispatches") if accept10 else (isinstance(res10, int) and res10 < 0)
        if not ok10:
            bad10.append({"file": name10, "outcome": res10, "expected": "dispatches the messages" if accept10 else "negative return"})
    ctx.ob("R12.10", "header lines", not bad10, site=A.where(fl10), detail={"files": len(files10), "mismatches": bad10[:5]},
           what="load_from_file on probe files: %s" % bad10[:3])

    # ---- R12.11: option symbols of a default are turned into their numbers - all of them
    ctx.rule("R12.11", "CANONICALISE: canonicalize_arg_vals, evaluated on 13 small value lists (scalar and array defaults, known and unknown symbols, a signature shorter than the list, a number where the port takes a char), "
                       "converts every option symbol whose signature position takes an integer (each element of an array default against the same signature) and a number whose position takes a char, and returns the number it could not convert; "
                       "a default left half-converted never equals the run-time value and the port is saved although untouched")
    from ..rules import canon as CN
    up11 = ctx.ast("ports.cpp")
    try:
        bad11, n11 = CN.check(up11)
    except FD.Unknown as e:
        raise AnalysisBroken("R12.11: canonicalize_arg_vals not evaluable: %s" % e)
    ctx.ob("R12.11", "canonicalize_arg_vals", not bad11, site=A.where(up11.function("canonicalize_arg_vals")), detail={"probes": n11, "mismatches": bad11[:3]},
           what="canonicalize_arg_vals, evaluated: %s" % [{k_: b_[k_] for k_ in ("probe", "afterwards", "returns", "expected", "expected_return")} for b_ in bad11[:2]])

    # ---- R12.13: every value of a char parameter has a spelling in a savefile
    ctx.rule("R12.13", "CHAR-SPELLING: the case of rtosc_print_arg_val that prints a char, evaluated for every value 0..127 with a model of its formatted write, produces a text without a NUL byte inside "
                       "(a savefile is a C string: a raw NUL ends the line and the file cannot be loaded)")
    from ..rules import codec as C13c
    upf = ctx.ast("pretty-format.c")
    fpr = upf.function("rtosc_print_arg_val")
    case_c = None
    for sw_ in C13c.find_switches(upf.body(fpr)):
        tab_ = C13c.case_table(sw_)
        if ord("c") in tab_ and ord("i") in tab_ and ord("s") in tab_:
            case_c = tab_[ord("c")]
    ctx.require(case_c is not None, "R12.13: the printer's case for chars was not found")
    bad13 = []
    for v13 in range(128):
        texts = []

        def hook13(n_, ev_, v13=v13, texts=texts):
            k_ = n_.get("kind")
            if k_ == "MemberExpr" and n_.get("name") in ("i", "c") and A.kids(n_):
                return v13
            if k_ == "StringLiteral":
                return A.string_literal(n_)
            if k_ == "ImplicitCastExpr" and n_.get("castKind") == "ArrayToPointerDecay" and A.kids(n_) and A.string_literal(A.kids(n_)[0]) is not None:
                return A.string_literal(A.kids(n_)[0])
            if k_ == "CallExpr" and A.callee_name(n_) in ("asnprintf", "snprintf"):
                a_ = A.kids(n_)[1:]
                fmt = ev_.ev(a_[2])
                vals_ = [ev_.ev(x_) for x_ in a_[3:]]
                if not isinstance(fmt, str):
                    raise FD.Unknown("format %r" % (fmt,), n_)
                out_, i_ = [], 0
                while i_ < len(fmt):
                    if fmt[i_] == "%" and i_ + 1 < len(fmt):
                        c_ = fmt[i_ + 1]
                        if c_ == "%":
                            out_.append("%")
                        elif c_ == "s":
                            x_ = vals_.pop(0)
                            if not isinstance(x_, str):
                                raise FD.Unknown("%%s of %r" % (x_,), n_)
                            out_.append(x_)
                        elif c_ == "c":
                            out_.append(chr(vals_.pop(0) & 0xff))
                        elif c_ in "di":
                            out_.append(str(vals_.pop(0)))
                        else:
                            raise FD.Unknown("conversion %%%s" % c_, n_)
                        i_ += 2
                    else:
                        out_.append(fmt[i_])
                        i_ += 1
                texts.append("".join(out_))
                return len(texts[-1])
            if k_ == "CallExpr":
                nm_ = A.callee_name(n_)
                fs_ = [f_ for f_ in upf.functions.get(nm_ or "", []) if upf.body(f_) is not None]
                if len(fs_) == 1:
                    return ev_.call_function(upf, fs_[0], [ev_.ev(x_) for x_ in A.kids(n_)[1:]])
                raise FD.Unknown("call to %s" % nm_, n_)
            if k_ == "DeclRefExpr" and (n_.get("referencedDecl") or {}).get("id") not in ev_.env and (n_.get("referencedDecl") or {}).get("kind") in ("ParmVarDecl", "VarDecl") \
                    and FD.ctype(A.qtype(n_))[0] in ("int", "ptr"):
                return 4096          # buffer, its size: any value
            return NotImplemented
        ev13 = FD.Eval(node_hook=hook13, max_steps=3000)
        try:
            for st_ in case_c:
                try:
                    ev13.run(st_)
                except FD._Break:
                    break
        except FD.Unknown as e:
            raise AnalysisBroken("R12.13: the printer's char case is not evaluable for the value %d: %s" % (v13, e))
        txt13 = "".join(texts)
        if not txt13 or "\0" in txt13:
            bad13.append({"value": v13, "printed": txt13.encode("latin-1", "replace").hex()})
    ctx.ob("R12.13", "chars 0..127", not bad13, site=A.where(case_c[0]) if case_c else A.where(fpr), detail={"values": 128, "unprintable": bad13[:4]},
           key="R12.13:%s" % ",".join(str(b_["value"]) for b_ in bad13[:8]),
           what="the printer writes the char value(s) %s with a raw NUL byte (hex %s): the savefile line of a char parameter with that value ends there and the file is rejected on loading" % (
               [b_["value"] for b_ in bad13[:8]], [b_["printed"] for b_ in bad13[:3]]))

    # ---- R12.12: which default get_default_value answers with
    ctx.rule("R12.12", "DEFAULT-LOOKUP: get_default_value, interpreted on a model application (byte memory for its buffers and C string calls, the run-time query printing the selector's value behind the path it is handed, "
                       "the recursion into the depended port's default evaluated in place), returns the value of `default <selector value>` where the port declares one - for the selector values 0, -1, 12, -2147483648 - "
                       "the plain `default` for a value without preset, the selector's own default when there is no run-time object, and the plain default (or nothing) of a port without dependency")
    from ..rules import defaultval as DV
    udv12 = ctx.ast("default-value.cpp")
    try:
        bad12, n12 = DV.check(udv12)
    except FD.Unknown as e:
        raise AnalysisBroken("R12.12: get_default_value not evaluable: %s" % e)
    ctx.ob("R12.12", "get_default_value", not bad12, site=A.where(udv12.function("get_default_value")), detail={"cases": n12, "mismatches": bad12[:3]},
           what="get_default_value, evaluated: %s" % [{k_: b_[k_] for k_ in ("port", "selector_value", "returns", "expected")} for b_ in bad12[:3]])

    # ---- R12.9: the preset-specific default key
    ctx.rule("R12.9", "KEY-CAPACITY: the buffer in which get_default_value composes the preset-specific key `default <value of the depended port>` holds the annotation, a blank and any printed 32-bit integer (11 characters) with its terminator - a shorter buffer looks a two-digit preset up under the key of another preset")
    import re as _re9
    udv = ctx.ast("default-value.cpp")
    gdv = udv.function("get_default_value")
    ann = None
    for x in A.walk(udv.body(gdv)):
        if x.get("kind") == "VarDecl" and A.kids(x):
            lit = A.string_literal(A.kids(x)[-1])
            if lit is None and A.kids(x)[-1].get("kind") == "InitListExpr" and len(A.kids(A.kids(x)[-1])) == 1:
                lit = A.string_literal(A.kids(A.kids(x)[-1])[0])
            if lit == "default":
                ann = x
    if ann is None:
        # (the composition of the key is decided by R12.12, which runs it with an 11-character value and watches the bounds of every local array)
        ctx.note("R12.9: the `default` annotation literal was not found in get_default_value; the key's buffer is decided by the evaluation R12.12")
        return

    def _capacity(e, depth=0):
        """capacity in bytes of the object an expression of the lookup key lives in (None: not a bounded array)"""
        e = A.strip_casts(e)
        if e.get("kind") == "CXXMemberCallExpr" and A.strip_casts(A.kids(e)[0]).get("name") in ("c_str", "data"):
            return float("inf"), "std::string"
        if e.get("kind") == "DeclRefExpr" and depth < 4:
            d = udv.by_id.get((e.get("referencedDecl") or {}).get("id"))
            if d is None:
                return None, None
            t = A.qtype(d) or ""
            m = _re9.search(r"\[(\d+)\]\s*$", t)
            if m:
                return int(m.group(1)), "%s %s" % (t, d.get("name"))
            if "basic_string" in t or t.endswith("std::string"):
                return float("inf"), "std::string"
            if A.kids(d) and "*" in t:
                return _capacity(A.kids(d)[-1], depth + 1)
        return None, None
    keys9 = []
    for x in A.walk(udv.body(gdv)):
        if x.get("kind") == "CXXOperatorCallExpr" and A.kids(x) and "operator[]" in A.src(A.kids(x)[0]) and "MetaContainer" in (A.qtype(A.kids(x)[1]) or ""):
            arg = A.strip_casts(A.kids(x)[2])
            if A.string_literal(arg) is not None:
                continue
            aid = A.ref_id(arg)
            if aid == ann["id"]:
                continue                   # the plain `default` lookup
            d_ = udv.by_id.get(aid) if aid else None
            if d_ is not None and A.kids(d_) and A.string_literal(A.kids(d_)[-1]) is not None:
                continue                   # a named literal key (`default depends`)
            keys9.append((x, arg))
    if not keys9:
        ctx.note("R12.9: the lookup of the composed `default <value>` key was not found by shape; decided by the evaluation R12.12")
        return
    need9 = len("default") + 1 + 11 + 1
    for x, arg in keys9:
        cap, what9 = _capacity(arg)
        if cap is None:
            ctx.note("R12.9: the buffer behind the composed key `%s` was not recognised; decided by the evaluation R12.12" % A.src(arg))
            continue
        ctx.ob("R12.9", "key `%s`" % A.src(arg), cap >= need9, site=A.where(x), detail={"buffer": what9, "capacity": cap if cap != float("inf") else "unbounded", "needed": need9},
               key="R12.9:%s" % A.src(arg),
               what="get_default_value composes the key `default <value>` in %s (%s bytes); \"default \" plus a printed 32-bit integer needs %d" % (what9, cap, need9))

def S_contains(root, node):
    nid = node.get("id")
    for x in A.walk(root):
        if x.get("id") == nid:
            return True
    return False
