"""C13 - Loading a savefile does not depend on the order of its lines (narrow: dependency keys)."""
import re
from .. import astlib as A
from .. import fdeval as FD
from ..facts import AnalysisBroken
from ..rules import metakeys as MK

LEVEL = "other"
EXPLANATION = ("Only the clause that is a code shape is decided: the set of metadata keys the dependency scanner scan_deps() iterates "
               "over equals the set of keys the three dependency macros (rEnabledBy, rDepends, rDefaultDepends) emit - read off their "
               "expansions in a witness unit - and scan_deps uses each of them as the lookup key. A dependency kind that the macros "
               "can declare but the sorter does not read is applied in file order; only one of the three kinds is exercised by a test. "
               "Relative-path resolution, transitive edges and the topological sort are not decided.")
TRUSTED = ["clang 14 AST", "witness/meta_matrix.cpp expansions of the dependency macros"]
ASSUMPTIONS = ["the dependency-declaring macros are rEnabledBy, rDepends and rDefaultDepends (the property's anchors)"]
DEP_MACROS = ("rEnabledBy", "rDepends", "rDefaultDepends")


def per_message_state(ctx, u, rule):
    """Dependency discovery for one message must not depend on the other messages: every argument that scan_deps can
    modify (non-const reference / pointer parameter) is, at the call in the per-message loop, a variable declared
    inside that loop."""
    fn = u.function("scan_deps")
    ps = u.params(fn)
    mut = [(i, p) for i, p in enumerate(ps) if ("&" in A.stype(p) or "*" in A.stype(p)) and not A.stype(p).lstrip().startswith("const ")]
    caller = u.function("dispatch_printed_messages")
    calls = [c for c in A.calls_in(u.body(caller), "scan_deps")]
    ctx.require(len(calls) >= 1, "dispatch_printed_messages no longer calls scan_deps")
    shared = []
    for c in calls:
        loop = None
        for a in u.ancestors(c):
            if a.get("kind") in ("CXXForRangeStmt", "ForStmt", "WhileStmt", "DoStmt"):
                loop = a
                break
        for i, p in mut:
            arg = A.kids(c)[1 + i]
            vid = A.ref_id(arg)
            inside = False
            if loop is not None and vid is not None:
                inside = any(y.get("kind") == "VarDecl" and y.get("id") == vid for y in A.walk(loop))
            if not inside:
                shared.append("%s (%s)" % (p.get("name"), A.stype(p)))
    def immutable(qt):
        t = re.sub(r'(\[[^\]]*\])+\s*$', '', (qt or "").strip()).strip()
        if "*" in t:
            return t.endswith("const")
        return "const" in t.split()
    statics = [y.get("name") for y in A.walk(u.body(fn)) if y.get("kind") == "VarDecl" and y.get("storageClass") == "static"
               and not immutable(A.stype(y)) and not y.get("constexpr")]
    ctx.ob(rule, "scan_deps keeps no state across messages", not shared and not statics, site=A.where(fn),
           detail={"mutable_parameters": [p.get("name") for _, p in mut], "shared_across_messages": shared, "static_locals": statics},
           what="scan_deps is handed mutable state that outlives one message (%s): the edges found for a message depend on which messages were scanned before it" % (shared + statics))


def run(ctx):
    u = ctx.ast("savefile.cpp")
    em = MK.emitted_by_macro(ctx.ast("meta_matrix.cpp"))
    ctx.rule("R13.1", "DEPKEYS: the key set scan_deps iterates over == the keys emitted by rEnabledBy / rDepends / rDefaultDepends, and each is used as the metadata lookup key")
    ctx.rule("R13.3", "PER-MESSAGE: scan_deps receives no mutable state that is shared between the messages of one file (the dependency edges of a line must not depend on the other lines)")
    ctx.rule("R13.4", "KAHN-BALANCED: the in-degree of the topological sort is incremented once per entry of every message's dependee list and decremented once per entry of the released message's list - both by a range-for over the whole `dependees` vector")
    ctx.rule("R13.5", "FIRST-SEPARATOR: an entry of a dependency list is cut at the first separator after its start (std::string::find / find_first_of / strchr with the separator), never at the last one")
    ctx.rule("R13.2", "DEPVALUE: the separator scan_deps splits dependency values at is the one rDepends emits between paths")
    per_message_state(ctx, u, "R13.3")
    fd = u.function("dispatch_printed_messages")
    sides = {"++": [], "--": []}
    # the sort may live in dispatch_printed_messages itself or in a helper of this unit that it calls
    hosts = [fd]
    for c in A.calls_in(u.body(fd)):
        n = A.callee_name(c)
        if n and n != "scan_deps" and n in u.functions:
            hosts += [h for h in u.functions[n] if u.body(h) is not None and h not in hosts]
    for host in hosts:
        for x in A.walk(u.body(host)):
            if x.get("kind") == "UnaryOperator" and x.get("opcode") in ("++", "--"):
                t = A.strip_casts(A.kids(x)[0])
                # the in-degree counter: an element of an integer vector (operator[] on std::vector<size_t>)
                if not (t.get("kind") == "CXXOperatorCallExpr" and A.kids(t) and "operator[]" in A.src(A.kids(t)[0])
                        and re.search(r'vector<\s*(std::)?(size_t|unsigned long|unsigned|int)', A.stype(A.kids(t)[1]) or "")):
                    continue
                loop = None
                for a in u.ancestors(x):
                    if a.get("kind") in ("CXXForRangeStmt", "ForStmt", "WhileStmt", "DoStmt"):
                        loop = a
                        break
                full = False
                shape = None
                if loop is not None and loop.get("kind") == "CXXForRangeStmt":
                    # the range initialiser mentions the member `dependees`
                    rng = [y for y in A.kids(loop) if y.get("kind") == "DeclStmt"]
                    full = any(z.get("kind") == "MemberExpr" and z.get("name") == "dependees" for d_ in rng[:1] for z in A.walk(d_))
                    # what is ranged over: the list itself, or something built from it (a set, a copy made unique, ...)
                    for d_ in rng[:1]:
                        for v_ in A.kids(d_):
                            if v_.get("kind") == "VarDecl" and A.kids(v_):
                                e_ = A.strip_casts(A.kids(v_)[-1])
                                while e_.get("kind") in ("MaterializeTemporaryExpr", "CXXBindTemporaryExpr", "ExprWithCleanups", "CXXFunctionalCastExpr") and A.kids(e_):
                                    e_ = A.strip_casts(A.kids(e_)[-1])
                                if e_.get("kind") == "DeclRefExpr":
                                    dv_ = u.by_id.get((e_.get("referencedDecl") or {}).get("id"))
                                    if dv_ is not None and "&" in (A.qtype(dv_) or "") and A.kids(dv_):
                                        e_ = A.strip_casts(A.kids(dv_)[-1])
                                if e_.get("kind") == "MemberExpr":
                                    shape = "the list `%s`" % e_.get("name")
                                else:
                                    shape = "%s of type %s" % (e_.get("kind"), re.sub(r'\s+', ' ', A.stype(e_) or "")[:60])
                sides[x.get("opcode")].append((x, loop.get("kind") if loop is not None else None, full, shape))
    ctx.require(sides["++"] and sides["--"], "dispatch_printed_messages: in-degree increment / decrement not found")
    for op, lst in sides.items():
        for x, lk, full, shape in lst:
            ctx.ob("R13.4", "in-degree %s" % op, full, site=A.where(x), detail={"enclosing_loop": lk, "range_for_over_dependees": full},
                   what="the in-degree is %s inside a %s that is not a range-for over the whole `dependees` list: increments and decrements no longer pair up entry by entry" % ("incremented" if op == "++" else "decremented", lk))
    shapes_inc = sorted({sh for _, _, _, sh in sides["++"] if sh})
    shapes_dec = sorted({sh for _, _, _, sh in sides["--"] if sh})
    ctx.ob("R13.4", "increments and decrements range over the same collection", shapes_inc == shapes_dec and len(shapes_inc) == 1, site=A.where(sides["++"][0][0]),
           detail={"incremented_over": shapes_inc, "decremented_over": shapes_dec},
           key="R13.4:same collection",
           what="the in-degree is incremented once per element of %s but decremented once per element of %s: a port that names the same prerequisite twice is counted differently on the two sides and is released early (or never)" % (shapes_inc, shapes_dec))
    fn = u.function("scan_deps")
    # the array of key literals that a range-for iterates over
    arrays = []
    for x in A.walk(u.body(fn)):
        if x.get("kind") == "VarDecl" and "char" in A.stype(x) and "[" in A.stype(x) and A.kids(x):
            il = A.strip_casts(A.kids(x)[-1])
            if il.get("kind") == "InitListExpr":
                lits = [A.string_literal(k) for k in A.kids(il)]
                if lits and all(l is not None for l in lits):
                    arrays.append((x, lits))
    if not arrays:
        # the table may stand outside the function (a file-level constant): the array a range-for of scan_deps iterates over
        for rf in A.walk(u.body(fn)):
            if rf.get("kind") != "CXXForRangeStmt":
                continue
            for y in A.walk(rf):
                if y.get("kind") == "DeclRefExpr" and (y.get("referencedDecl") or {}).get("kind") == "VarDecl":
                    d_ = u.by_id.get(y["referencedDecl"]["id"])
                    if d_ is not None and "char" in A.stype(d_) and "[" in A.stype(d_) and A.kids(d_) and A.strip_casts(A.kids(d_)[-1]).get("kind") == "InitListExpr":
                        lits = [A.string_literal(k) for k in A.kids(A.strip_casts(A.kids(d_)[-1]))]
                        if lits and all(l is not None for l in lits) and not any(a_[0] is d_ for a_ in arrays):
                            arrays.append((d_, lits))
    ctx.require(len(arrays) == 1, "scan_deps: expected one array of key literals, found %d" % len(arrays))
    arr, lits = arrays[0]
    # the lookup key is the loop variable of a range-for over that array
    lk = MK.lookups(u, u.body(fn))
    ctx.require(len(lk) >= 1, "scan_deps: no metadata lookup")
    loopvars = set()
    for x in A.walk(u.body(fn)):
        if x.get("kind") == "CXXForRangeStmt":
            refs = {y["referencedDecl"]["id"] for y in A.walk(x) if y.get("kind") == "DeclRefExpr" and y.get("referencedDecl")}
            if arr["id"] in refs:
                for y in A.kids(x):
                    if y.get("kind") == "DeclStmt":
                        for d in A.kids(y):
                            if d.get("kind") == "VarDecl" and "char" in A.stype(d) and not d.get("name", "").startswith("__"):
                                loopvars.add(d["id"])
    used = any(k is None and A.ref_id(A.kids(x)[-1]) in loopvars for k, x, _ in lk)
    emitted = {}
    for mac in DEP_MACROS:
        ctx.require(mac in em and em[mac], "witness expansion of %s missing" % mac)
        for k, v in em[mac]:
            emitted[k] = mac
    for k in sorted(set(lits) | set(emitted)):
        ok = k in lits and k in emitted and used
        ctx.ob("R13.1", "key \"%s\"" % k, ok, site=A.where(arr), detail={"scanned_by_scan_deps": k in lits, "emitted_by": emitted.get(k), "used_as_lookup_key": used},
               what="dependency key \"%s\": scanned by scan_deps=%s, emitted by %s" % (k, k in lits, emitted.get(k)))
    ctx.require_count("R13.1", 3)
    # R13.5
    cuts = []
    # scan_deps itself and the helpers of the unit it calls (the path arithmetic may live in a static function)
    hosts13 = [u.body(fn)]
    for c_ in A.calls_in(u.body(fn)):
        n_ = A.callee_name(c_)
        if n_ and n_ != "scan_deps":
            for h_ in u.functions.get(n_, []):
                if u.body(h_) is not None:
                    hosts13.append(u.body(h_))
    for x in (y_ for hb_ in hosts13 for y_ in A.walk(hb_)):
        if x.get("kind") == "CXXMemberCallExpr":
            cal = A.strip_casts(A.kids(x)[0])
            if cal.get("kind") == "MemberExpr" and cal.get("name") in ("find", "rfind", "find_first_of", "find_last_of", "find_first_not_of", "find_last_not_of"):
                a = A.kids(x)[1:]
                if a and A.int_literal(a[0]) == ord(",") and not any(A.where(x) == A.where(o) and cal.get("name") == n_ for n_, o in cuts):
                    cuts.append((cal.get("name"), x))
    ctx.require(cuts, "scan_deps: no search for the list separator found")
    for nm, x in cuts:
        ctx.ob("R13.5", "cut with %s(',')@%s" % (nm, A.loc(x)[1]), nm in ("find", "find_first_of"), site=A.where(x),
               what="scan_deps cuts a dependency entry with %s(','): for a list of three or more paths every entry but the last resolves to a bogus path" % nm)
    # separator
    seps = sorted({chr(A.int_literal(A.kids(c)[2])) for c in A.calls_in(u.body(fn), "strchr") if A.int_literal(A.kids(c)[2]) is not None})
    val = dict(em["rDepends"]).get("depends") or ""
    ctx.ob("R13.2", "separator", seps == [","] and val.count(",") >= 2 and all(ch not in val for ch in ";| "), site=A.where(fn),
           detail={"split_at": seps, "rDepends(a, b) emits": val},
           what="scan_deps splits dependency lists at %s but rDepends(a, b) emits \"%s\"" % (seps, val))

    self_edge_obligation(ctx, u, "R13.6")
    rewalk_obligation(ctx, u, "R13.7")
    scan_evaluation(ctx, u, "R13.8")
    # ---- R13.10: the port scan_deps finds for a sub-tree is the one that carries the metadata
    ctx.rule("R13.10", "SUBTREE-FIRST: scan_deps looks a level up with Ports::apropos, which answers with the first port of the table whose name begins with the path; of the two ports rRecur / rRecurp emit for one member - "
             "the sub-tree port `name/`, which carries rEnabledBy / rDepends, and the pointer port `name:` - the sub-tree port stands first in the table, else the dependency declared on a sub-tree is never found")
    from ..rules import sugar as SG10
    from ..facts import WITNESS_DIR as WD10
    import os as os10
    uw10 = ctx.ast("sugar_matrix.cpp")
    by_line10 = {}
    for L10 in SG10.lambdas(uw10, os10.path.join(WD10, "sugar_matrix.cpp")):
        if L10.macro in ("rRecur", "rRecurp") and L10.portname:
            by_line10.setdefault((L10.line, L10.macro, L10.field), []).append((L10.ordinal, L10.portname))
    ctx.require(len(by_line10) >= 1, "R13.10: the rRecur expansion was not found in the witness (%d)" % len(by_line10))
    for (ln10, mac10, fld10), ports10 in sorted(by_line10.items()):
        ports10.sort()
        names10 = [n_ for _o, n_ in ports10]
        sub10 = [i_ for i_, n_ in enumerate(names10) if n_.split(":")[0].endswith("/")]
        if len(names10) == 1 and sub10 == [0]:
            continue                      # this macro emits the sub-tree port alone
        ctx.require(len(sub10) == 1, "R13.10: %s(%s) does not emit one sub-tree port (%s)" % (mac10, fld10, names10))
        ctx.ob("R13.10", "%s(%s)" % (mac10, fld10), sub10[0] == 0, site="%s:%s" % (os10.path.join(WD10, "sugar_matrix.cpp"), ln10), detail={"ports_in_table_order": names10},
               key="R13.10:%s" % mac10,
               what="%s emits its ports in the order %s: Ports::apropos finds `%s` first, which carries no metadata - a dependency declared on the sub-tree (rEnabledBy, rDepends) is never found and its lines are dispatched in file order" % (mac10, names10, names10[0]))

    # ---- R13.11: the lookup scan_deps reads a level's metadata with
    ctx.rule("R13.11", "APROPOS-EXACT: Ports::apropos, with which scan_deps looks up the port of a level, evaluated as a whole function on ten small port tables, answers for a path that names a port exactly (up to the port's '/' or ':types') "
             "with that port wherever it stands in the table - also behind a sibling whose name merely begins like it (`filter_on` declared in front of `filter/`) - and with nothing for a name the table does not hold")
    from ..rules import aproposeval as AE
    up11 = ctx.ast("ports.cpp")
    try:
        bad11, n11 = AE.check(up11)
    except FD.Unknown as e:
        raise AnalysisBroken("R13.11: Ports::apropos is not evaluable: %s" % e)
    ctx.ob("R13.11", "Ports::apropos on port tables", not bad11, site=A.where([f_ for q_, fl_ in up11.functions.items() if q_.endswith("Ports::apropos") for f_ in fl_][0]),
           detail={"tables": n11, "mismatches": bad11[:4]}, key="R13.11:apropos",
           what="Ports::apropos answers with another port than the one the path names: %s - the dependency declared on that port is read from (or missed on) the wrong port, and its lines are dispatched in file order" % [(b_["table"], b_["path"], b_["answers_with"]) for b_ in bad11[:3]])

    # ---- R13.9: the topological sort itself, interpreted on small graphs
    ctx.rule("R13.9", "KAHN-EVALUATED: the topological sort of dispatch_printed_messages (in-degree table, queue of ready messages, release loop), interpreted on nine dependency graphs - among them a message reached over two edges "
             "that follow each other in the vector, a dependee listed twice, a diamond - puts every message exactly once into the order and in front of everything that waits for it")
    from ..rules import kahn as KH
    try:
        bad9, n9 = KH.check(u)
    except FD.Unknown as e:
        raise AnalysisBroken("R13.9: the topological sort is not evaluable: %s" % e)
    ctx.ob("R13.9", "topological sort, evaluated", not bad9, site=A.where(u.function("dispatch_printed_messages")), detail={"graphs": n9, "mismatches": bad9[:4]},
           key="R13.9:sort", what="the topological sort of the saved lines is wrong on %s" % ["%s: order %s, too early %s" % (b_["graph"], b_["order"], b_["dispatched_before_what_they_wait_for"]) for b_ in bad9[:3]])


def _inside13(root, node):
    nid = node.get("id")
    for x_ in A.walk(root):
        if x_.get("id") == nid:
            return True
    return False


def self_edge_obligation(ctx, u, rule):
    ctx.rule(rule, "NO-SELF-EDGE: scan_deps records a dependency edge only under a test that the port depended on is not the message's own port (an enabling port may lie inside the sub-tree it enables; a node with an edge to itself is never released by the topological sort)")
    fsd = u.function("scan_deps")
    orig_id = u.params(fsd)[0]["id"]
    pushes = [x for x in A.walk(u.body(fsd)) if x.get("kind") == "CXXMemberCallExpr" and A.strip_casts(A.kids(x)[0]).get("name") == "push_back" and
              any(y.get("kind") == "MemberExpr" and y.get("name") == "dependees" for y in A.walk(A.kids(x)[0]))]
    ctx.require(len(pushes) >= 1, rule + ": scan_deps no longer pushes into `dependees`")
    for k6, px in enumerate(pushes):
        guarded = False
        child = px
        for p_ in u.ancestors(px):
            if p_.get("kind") == "IfStmt":
                ks_ = A.kids(p_)
                cond_ = ks_[0]
                on_true = _inside13(ks_[1], child)
                for y in A.walk(cond_):
                    op = None
                    if y.get("kind") == "BinaryOperator" and y.get("opcode") in ("!=", "=="):
                        op, sides = y.get("opcode"), A.kids(y)
                    elif y.get("kind") == "CXXOperatorCallExpr" and len(A.kids(y)) == 3 and re.search(r'operator(!=|==)', A.src(A.kids(y)[0])):
                        op, sides = ("!=" if "!=" in A.src(A.kids(y)[0]) else "=="), A.kids(y)[1:]
                    if op is None:
                        continue
                    refs_ = [{z["referencedDecl"]["id"] for z in A.walk(sd) if z.get("kind") == "DeclRefExpr" and z.get("referencedDecl")} for sd in sides]
                    mentions_orig = [orig_id in r_ for r_ in refs_]
                    if mentions_orig.count(True) == 1 and ((op == "!=" and on_true) or (op == "==" and not on_true)):
                        other = refs_[mentions_orig.index(False)]
                        if other and orig_id not in other:
                            guarded = True
            if p_.get("kind") in ("FunctionDecl",):
                break
            child = p_
        ctx.ob(rule, "scan_deps: edge #%d" % k6, guarded, site=A.where(px),
               key=rule + ":scan_deps:self-edge",
               what="scan_deps records a dependency edge without excluding the message's own port: a port enabled by a toggle inside its own sub-tree makes that toggle wait for itself, and the line (with everything depending on it) is never dispatched")




def rewalk_obligation(ctx, u, rule):
    ctx.rule(rule, "NO-REWALK: scan_deps walks from a port up through its parents and calls itself for a dependency that has no line in the file; since such a dependency may lie below the level being examined (a sub-tree enabled by a port inside it), the recursive call is told the current level (or is made only under a test of it) - otherwise the walk comes back to this level and recurses without end")
    fsd = u.function("scan_deps")
    # the level cursor: the by-value string parameter that the parent walk shortens
    cur = None
    for p_ in u.params(fsd):
        if "string" in (A.qtype(p_) or "") and "&" not in (A.qtype(p_) or ""):
            if any(y.get("kind") == "CXXMemberCallExpr" and A.strip_casts(A.kids(y)[0]).get("name") in ("resize", "erase", "pop_back", "substr") and A.ref_id(A.kids(A.strip_casts(A.kids(y)[0]))[0]) == p_["id"] for y in A.walk(u.body(fsd))):
                cur = p_
    if cur is None:
        raise AnalysisBroken("%s: the level cursor of scan_deps (a by-value path that the parent walk shortens) was not found" % rule)
    calls = [c for c in A.calls_in(u.body(fsd), "scan_deps")]
    if not calls:
        raise AnalysisBroken("%s: scan_deps no longer calls itself" % rule)
    for c in calls:
        args = A.kids(c)[1:]
        told = any(any(y.get("kind") == "DeclRefExpr" and (y.get("referencedDecl") or {}).get("id") == cur["id"] for y in A.walk(a_)) for a_ in args)
        # a local flag computed from the cursor and handed on also counts
        if not told:
            for a_ in args:
                for y in A.walk(a_):
                    if y.get("kind") == "DeclRefExpr" and (y.get("referencedDecl") or {}).get("kind") == "VarDecl":
                        d_ = u.by_id.get(y["referencedDecl"]["id"])
                        if d_ is not None and "bool" in (A.qtype(d_) or "") and any(z.get("kind") == "DeclRefExpr" and (z.get("referencedDecl") or {}).get("id") == cur["id"] for z in A.walk(d_)):
                            told = True
        guarded = False
        for anc in u.ancestors(c):
            if anc.get("kind") == "IfStmt" and any(y.get("kind") == "DeclRefExpr" and (y.get("referencedDecl") or {}).get("id") == cur["id"] for y in A.walk(A.kids(anc)[0])) and not any(
                    y.get("kind") == "CXXMemberCallExpr" and A.strip_casts(A.kids(y)[0]).get("name") in ("size", "empty", "find_last_of") for y in [A.strip_casts(A.kids(anc)[0])]):
                guarded = True
        ctx.ob(rule, "recursive call@%s" % A.loc(c)[1], told or guarded, site=A.where(c), detail={"level_cursor": cur.get("name"), "handed_to_the_call": told, "call_guarded_by_a_test_of_it": guarded},
               key="%s:recursive call" % rule,
               what="scan_deps calls itself for an absent dependency without reference to the level it is examining (`%s`): for a sub-tree enabled by a port inside it (`sub/` enabled by `sub/enabled`, the enabling port at its default and therefore not in the file) the walk returns to the sub-tree and recurses until the stack is exhausted" % cur.get("name"))


def scan_evaluation(ctx, u, rule):
    ctx.rule(rule, "SCAN-EVALUATED: scan_deps, interpreted on 12 small port trees (std::string, the message map and the port tree modelled; its path helper and its own recursion evaluated in place), "
                   "comes to an end and records for every message exactly the edges the metadata of its port and of its parent directories spell: lists of one to three entries as rDepends writes them "
                   "(with the trailing comma), a default taken through a port without a line, a sub-tree enabled by a port inside it (present and absent), by a sibling, two directory levels, "
                   "a directory and a port inside it that both carry a list")
    from ..rules import depscan as DS
    from .. import fdeval as FD
    try:
        bad, n = DS.check(u)
    except FD.Unknown as e:
        raise AnalysisBroken("%s: scan_deps not evaluable: %s" % (rule, e))
    by_tree = {}
    for b in bad:
        by_tree.setdefault(b["tree"], []).append(b)
    for name, ports, messages in DS.PROBES:
        bb = by_tree.get(name, [])
        ctx.ob(rule, "tree: %s" % name, not bb, site=A.where(u.function("scan_deps")), detail={"ports": {p_: m_ for p_, m_ in ports.items() if m_}, "file": messages, "mismatches": bb[:3]},
               key="%s:%s" % (rule, name),
               what="scan_deps, evaluated on the tree `%s`: %s" % (name, [{k_: v_ for k_, v_ in b_.items() if k_ in ("message", "outcome", "waits_for", "expected")} for b_ in bb[:2]]))
