"""C02 - Fixed-buffer discipline (DESIGN.md section 2, C02)."""
import re

from .. import astlib as A
from ..facts import AnalysisBroken
from ..rules import capacity as Cap
from ..rules import codec_tables as T
from ..rules import guard as G
from . import C01

LEVEL = "other"
EXPLANATION = ("Every clause of the statement is decided structurally: (R02.1) in the -O0 IR of each (buffer,len) writer every "
               "store/memcpy/memset/callee write through the destination is dominated by the fits-edge of an exact comparison "
               "of the pre-computed total with len; (R02.2) the does-not-fit edge only zero-fills len bytes and returns 0, the "
               "NULL-buffer edge dominates no write; (R02.3) the size pre-computation mirrors the writer: header and per-tag "
               "cursor summaries are equal, so every index of the writer is < total <= len; (R02.4) the wrappers forward "
               "(buffer,len) unchanged; (R02.5) at every call site in the library len does not exceed the resolved capacity of "
               "the buffer argument.")
TRUSTED = ["clang 14 AST/-O0 IR", "sa/irlib.py dominators and slot/GEP derivation", "sa/rules/codec.py idiom recognisers",
           "sa/rules/capacity.py buffer shapes (array, VLA, new[] in all constructors, forwarded parameter pair)"]
ASSUMPTIONS = ["assert() is not a guard (the build defines NDEBUG)",
               "callers outside the library honour the (buffer,len) contract"]

WRITERS = [
    # unit, demangled-name regex, buffer param, capacity param, sizer the total must come from, NULL query supported
    ("rtosc.c", r'^rtosc_amessage$', 0, 1, "vsosc_null", True),
    ("rtosc.c", r'^rtosc_bundle$', 0, 1, None, False),
    ("subtree-serialize.cpp", r'^append_bundle\(', 0, 2, None, False),
]


def find_ir(ctx, unit, pat):
    m = ctx.ir(unit)
    P = ctx.program_of(unit)
    for f in m.functions.values():
        if re.search(pat, P.dm(f.name)) and "::$_" not in P.dm(f.name) and "{lambda" not in P.dm(f.name):
            return f
    raise AnalysisBroken("anchor vanished: no function matching %s in %s" % (pat, unit))


def writer_obligations(ctx, rule_dom, rule_fail, unit, pat, bi, li, sizer, null_ok):
    fn = find_ir(ctx, unit, pat)
    P = ctx.program_of(unit)
    name = P.dm(fn.name).split("(")[0]
    bslot = G.param_slot(fn, bi)
    lslot = G.param_slot(fn, li)
    vals, slots = G.derived(fn, bslot)
    writes = G.writes_through(fn, vals)
    if not writes:
        raise AnalysisBroken("%s: no write through the destination buffer found" % name)
    guards = G.capacity_guards(fn, lslot)
    site_fn = "%s:%s" % (fn.file, fn.line)
    # the guards are grouped by comparison (one comparison may be branched on several times through a flag);
    # choose the comparison whose fits-edges dominate the most writes
    groups = {}
    for g_ in guards:
        groups.setdefault(g_["icmp"].res, []).append(g_)

    def dom_fits(grp, w):
        return any(fn.edge_dominates(g_["br"].block.label, g_["fits"], w) for g_ in grp)

    def dom_nofit(grp, w):
        return any(fn.edge_dominates(g_["br"].block.label, g_["nofit"], w) for g_ in grp)
    best = None
    for grp_ in groups.values():
        n = sum(1 for _, w in writes if dom_fits(grp_, w))
        if best is None or n > best[0]:
            best = (n, grp_)
    group = best[1] if best else []
    g = group[0] if group else None
    nodom = []
    for kind, w in writes:
        if g is not None and dom_fits(group, w):
            ok = True
        elif g is not None and G.is_failpath_memset(fn, w, vals, lslot) and dom_nofit(group, w):
            ok = True
        elif g is None and G.is_failpath_memset(fn, w, vals, lslot):
            ok = True
        elif G.whole_capacity_memset(fn, w, bslot, lslot):
            ok = True      # memset(buffer,0,len) on the untouched parameters is within capacity wherever it stands
        elif g is not None and G.bounded_memset(fn, w, bslot, lslot, group):
            ok = True      # memset(buffer,0, fits ? total : len): each input of the length is within capacity where it arrives from
        else:
            ok = False
        ctx.ob(rule_dom, "%s:%s@%s" % (name, kind, _ordinal(ctx, rule_dom, name, kind)), ok, site=w.where(),
               detail={"write": w.text[:160], "guard": g["icmp"].text[:120] if g else None},
               key="%s:%s:%s" % (rule_dom, name, "unguarded-write"),
               what="%s writes through its destination (%s at %s) without being dominated by a `total <= len` test" % (name, kind, w.where()))
    if g is None:
        ctx.ob(rule_fail, name + ":capacity-comparison", False, site=site_fn, key="%s:%s:no-capacity-comparison" % (rule_fail, name),
               what="%s takes a capacity but never compares anything with it" % name)
        return
    ctx.ob(rule_fail, name + ":guard-exact", g["exact"], site=g["icmp"].where(), detail={"icmp": g["icmp"].text[:120]},
           what="%s: the capacity comparison is not `total <= len` (off by one at needed == len)" % name)
    if sizer:
        oc = G.value_origin_call(fn, g["total"])
        ctx.ob(rule_fail, name + ":total-from-" + sizer, oc is not None and oc.callee == sizer, site=g["icmp"].where(),
               detail={"origin": oc.text[:120] if oc else None},
               what="%s compares len with a value that is not the result of %s" % (name, sizer))
    # fail closed: the not-fit successor holds memset(buffer,0,len) and returns 0 (when the function has such an edge body)
    nofit_block = fn.bmap[g["nofit"]]
    has_memset = any(G.is_failpath_memset(fn, i, vals, lslot) for g_ in group for i in fn.bmap[g_["nofit"]].insts) or \
        any(G.whole_capacity_memset(fn, w, bslot, lslot) and any(fn.dominates(w, g_["br"]) for g_ in group) for _, w in writes) or \
        any(any(k_ == "capacity" and dom_nofit(group, fn.bmap[pl_].insts[-1]) for k_, pl_ in (G.bounded_memset(fn, w, bslot, lslot, group) or [])) for _, w in writes)
    ret0 = any(G.returns_constant_on(fn, g_["nofit"], "0") for g_ in group)
    other_writes = [w for k, w in writes if dom_nofit(group, w) and not G.is_failpath_memset(fn, w, vals, lslot)]
    if unit == "subtree-serialize.cpp":
        # append_bundle: "if insufficient space is available, zero is returned and the buffer is untouched"
        ctx.ob(rule_fail, name + ":fail-closed", ret0 and not other_writes and not has_memset or (ret0 and not other_writes), site=nofit_block.insts[0].where(),
               detail={"returns_0": ret0, "writes_on_fail_path": len(other_writes)},
               what="%s: the does-not-fit path does not `return 0` untouched" % name)
    else:
        ctx.ob(rule_fail, name + ":fail-closed", has_memset and ret0 and not other_writes, site=nofit_block.insts[0].where(),
               detail={"memset_buffer_0_len": has_memset, "returns_0": ret0, "other_writes_on_fail_path": len(other_writes)},
               what="%s: the does-not-fit path is not `memset(buffer,0,len); return 0`" % name)
    if null_ok:
        # a null test on the buffer whose null-edge reaches no write
        nulls = []
        for i in fn.insts():
            if i.op == "icmp" and "null" in i.text and any(o in vals for o in i.ops):
                nulls.append(i)
        okn = False
        for i in nulls:
            for j in i.block.insts:
                if j.op == "br" and i.res in j.ops and len(j.succs) == 2:
                    pred = i.text.split()[1]
                    null_succ = j.succs[0] if pred == "eq" else j.succs[1]
                    nonnull_succ = j.succs[1] if pred == "eq" else j.succs[0]
                    if all(fn.edge_dominates(j.block.label, nonnull_succ, w) for _, w in writes):
                        # and the null edge returns the computed total
                        okn = True
        ctx.ob(rule_fail, name + ":null-query", okn, site=site_fn,
               what="%s: a write through buffer is reachable when buffer is NULL" % name)


def _ordinal(ctx, rule, name, kind):
    return sum(1 for o in ctx.obs if o.rule == rule and o.instance.startswith("%s:%s@" % (name, kind)))


def mirror_obligations(ctx, u, rule):
    try:
        _mirror_by_shape(ctx, u, rule)
    except AnalysisBroken:
        # sizer or writer are not `header; tag switch in a loop`: the two are compared by evaluation on probe messages
        from ..rules import oscref as OR
        from .. import fdeval as FD
        groups = {}
        for adr, ty, va in OR.PROBES:
            groups.setdefault(adr if adr in ("/p", "/s", "/b", "/t", "/x", "/y") else "addresses", []).append((adr, ty, va))
        names = {"/p": "fixed-width tags", "/s": "strings", "/b": "blobs", "/t": "tags without payload", "/x": "arrays and all tags", "/y": "several arguments", "addresses": "address lengths"}
        for g, probes in sorted(groups.items()):
            for half in (0, 1):
                part = probes[half::2]
                bad = []
                for adr, ty, va in part:
                    try:
                        rw, _ = OR.run_builder(u, "rtosc_amessage", adr, ty, va)
                        rs, _ = OR.run_builder(u, "vsosc_null", adr, ty, va)
                    except FD.Unknown as e:
                        raise AnalysisBroken("%s: sizer / writer neither of the known shape nor evaluable on (%r, %r): %s" % (rule, adr, ty, e))
                    if rw != rs:
                        bad.append({"address": adr, "types": ty, "sizer": rs, "writer": rw})
                ctx.ob(rule, "sizer = writer: %s #%d" % (names[g], half), not bad, site=A.where(u.function("rtosc_amessage")), detail={"messages": len(part), "mismatches": bad[:4]},
                       key="%s:evaluated:%s" % (rule, names[g]),
                       what="vsosc_null and rtosc_amessage disagree on the size of %s" % bad[:3])


def _mirror_by_shape(ctx, u, rule):
    hs, _ = T.header_summary(u, "vsosc_null")
    hw, fnw = T.header_summary(u, "rtosc_amessage")
    ctx.ob(rule, "header", hs.key() == hw.key(), site=A.where(fnw), detail={"sizer": list(hs.items), "writer": list(hw.items)},
           what="address/type-string header: vsosc_null adds %s, rtosc_amessage writes %s" % (hs.items, hw.items))
    ts, ds, sws, _, _ = T.loop_switch_summaries(u, "vsosc_null")
    tw, dw, sww, _, _ = T.loop_switch_summaries(u, "rtosc_amessage")
    for tag in sorted(set(ts) | set(tw) | set(C01.SPEC)):
        a = ts.get(tag, ds)
        b = tw.get(tag, dw)
        ia, ib = (a.items if a else []), (b.items if b else [])
        ca, cb = (a.counters if a else {}), (b.counters if b else {})
        ctx.ob(rule, "tag '%s'" % tag, list(ia) == list(ib) and ca == cb, site=A.where(sww),
               detail={"sizer": {"advance": list(ia), "counters": ca}, "writer": {"advance": list(ib), "counters": cb}},
               what="tag '%s': vsosc_null advances %s %s, rtosc_amessage advances %s %s" % (tag, ia, ca, ib, cb))


def run(ctx):
    u = ctx.ast("rtosc.c")
    ctx.rule("R02.1", "GUARD-DOM: every write through the destination buffer is dominated by the fits-edge of the capacity "
                      "comparison (or is the fail-path memset(buffer,0,len))")
    ctx.rule("R02.2", "FAILCLOSED: the capacity comparison is exactly total <= len, total is the sizer's result, the does-not-fit "
                      "edge only zero-fills and returns 0, and the NULL-buffer edge reaches no write")
    ctx.rule("R02.3", "MIRROR: vsosc_null and rtosc_amessage move their cursors identically for the header and for every tag")
    ctx.rule("R02.4", "FORWARD: rtosc_message/rtosc_vmessage/rtosc_avmessage pass (buffer,len) through unchanged")
    ctx.rule("R02.5", "CAPACITY: at every library call site of a (buffer,len) builder, len <= resolved capacity of buffer")
    for unit, pat, bi, li, sizer, null_ok in WRITERS:
        writer_obligations(ctx, "R02.1", "R02.2", unit, pat, bi, li, sizer, null_ok)
    ctx.require_count("R02.1", 8)     # each writer contributes at least one (a writer without any write is an analysis break); how many more is the code's business (helpers merge them)
    mirror_obligations(ctx, u, "R02.3")
    ctx.require_count("R02.3", 8)
    from . import C08
    C08.bundle_measure_obligation(ctx, u, "R02.3")
    # R02.4 = the forwarding obligations of C01 under this rule id
    before = len(ctx.obs)
    ctx.rules["R01.6"] = ctx.rules["R02.4"]
    C01.forward_obligations(ctx, u)
    for o in ctx.obs[before:]:
        o.rule = "R02.4"
        o.key = o.key.replace("R01.6", "R02.4")
    del ctx.rules["R01.6"]
    ctx.require_count("R02.4", 7)
    # R02.5
    seen = set()
    for un in ctx.facts.unit_names(witness=False):
        uu = ctx.ast(un)
        for fn, call, name in Cap.builder_calls(uu):
            w = A.where(call)
            if w in seen:
                continue
            seen.add(w)
            ok, d = Cap.check_site(uu, fn, call, name)
            if ok is None:
                raise AnalysisBroken("R02.5: cannot resolve the capacity of `%s` (len `%s`) at %s" % (d["buffer"], d["len"], w))
            ctx.ob("R02.5", "%s->%s@%s" % (fn.get("_qname"), name, _ordinal2(ctx, fn.get("_qname"), name)), ok, site=w, detail=d,
                   what="%s passes len %s for `%s` whose capacity is %s" % (fn.get("_qname"), d["len"], d["buffer"], d["capacity"]))
    ctx.require_count("R02.5", 38)


def _ordinal2(ctx, q, name):
    return sum(1 for o in ctx.obs if o.rule == "R02.5" and o.instance.startswith("%s->%s@" % (q, name)))
