"""C15 - Undo history rewinds and replays recorded changes exactly (narrow: roles of the event's arguments, bookkeeping)."""
import itertools

from .. import astlib as A
from .. import fdeval as FD
from ..facts import AnalysisBroken

LEVEL = "other"
EXPLANATION = ("Decided are the clauses that are code shapes or bookkeeping over small integers, not histories: (R15.1) writer/reader "
               "agreement on the undo event `/undo_change s<t><t> path old new` that the parameter macros emit (C14 R14d): rewind "
               "builds its message from argument 0 (address) and argument 1 (old value), replay from argument 0 and argument 2 (new "
               "value), both with the one type tag that follows the first two in the event's type string; a merged event takes the "
               "old value of the stored event and the new value of the incoming one. (R15.2) seekHistory, evaluated over all "
               "positions, sizes and distances of a small history, rewinds newest first / replays oldest first exactly the events "
               "between the current position and the destination clamped to [0, size], and leaves the position there. (R15.3) "
               "recordEvent, evaluated likewise, drops the undone tail before recording, appends unless the event merged, and keeps "
               "at most max_history_size events by dropping the oldest; the constructor sets that size to 20. (R15.4) mergeEvent "
               "looks at stored events newest first, stops at the first one older than two seconds and merges only into an event "
               "with the same address (strcmp == 0). Which values the messages finally carry over whole histories is not decided.")
TRUSTED = ["clang 14 AST", "sa/fdeval.py"]
ASSUMPTIONS = ["std::deque behaves as documented (size, resize, push_back, pop_front, operator[])",
               "the undo event format is the one decided by C14 R14d"]

UNIT = "undo-history.cpp"


def _arg_index(call):
    """rtosc_argument(<msg expr>, K) -> (source text of msg expr, K)"""
    a = A.kids(call)[1:]
    return A.src(A.strip_casts(a[0])).replace(" ", ""), A.int_literal(a[1])


def run(ctx):
    u = ctx.ast(UNIT)
    ctx.rule("R15.1", "EVENT-ROLES: rewind sends (argument 0 as address, argument 1 = old value), replay (argument 0, argument 2 = new value), each with the single type tag at offset 2 of the event's type string; mergeEvent splices (address, old of the stored event, new of the incoming event)")
    ctx.rule("R15.2", "SEEK: seekHistory rewinds newest first / replays oldest first exactly the events between the position and the destination clamped to [0, size] (evaluated over all positions, sizes 0..4, distances -6..6)")
    ctx.rule("R15.3", "RECORD: recordEvent truncates the history to the current position, appends unless merged, keeps at most max_history_size events by dropping the oldest and keeps the position at the end (evaluated over positions/sizes with a capacity of 3); the constructor initialises the capacity to 20")
    ctx.rule("R15.4", "MERGE-WINDOW: mergeEvent scans stored events newest first, stops at the first event more than 2 seconds old, and merges only on equal addresses (strcmp == 0)")

    # ---- R15.1
    for q, want in (("UndoHistoryImpl::rewind", 1), ("UndoHistoryImpl::replay", 2)):
        fn = u.function(q)
        msgp = u.params(fn)[0]["id"]
        am = [c for c in A.calls_in(u.body(fn)) if A.callee_name(c) == "rtosc_amessage"]
        ctx.require(len(am) == 1, "%s: expected one rtosc_amessage call" % q)
        a = A.kids(am[0])[1:]

        def resolve(e):
            e = A.strip_casts(e)
            if e.get("kind") == "UnaryOperator" and e.get("opcode") == "&":
                e = A.strip_casts(A.kids(e)[0])
            for _ in range(3):
                if e.get("kind") == "DeclRefExpr":
                    d = u.by_id.get((e.get("referencedDecl") or {}).get("id"))
                    if d is not None and d.get("kind") == "VarDecl" and A.kids(d):
                        e = A.strip_casts(A.kids(d)[-1])
                        continue
                break
            return e
        addr_calls = [c for c in A.calls_in(resolve(a[2])) if A.callee_name(c) == "rtosc_argument"] or ([resolve(a[2])] if A.callee_name(resolve(a[2])) == "rtosc_argument" else [])
        val_e = resolve(a[4])
        val_calls = [c for c in A.calls_in(val_e) if A.callee_name(c) == "rtosc_argument"] or ([val_e] if val_e.get("kind") == "CallExpr" and A.callee_name(val_e) == "rtosc_argument" else [])
        ty = resolve(a[3])
        off = None
        if ty.get("kind") == "BinaryOperator" and ty.get("opcode") == "+":
            l_, r_ = A.kids(ty)
            if any(A.callee_name(c) == "rtosc_argument_string" for c in A.calls_in(ty)):
                off = A.int_literal(r_) if A.int_literal(r_) is not None else A.int_literal(l_)
        ok = len(addr_calls) == 1 and _arg_index(addr_calls[0])[1] == 0 and len(val_calls) == 1 and _arg_index(val_calls[0])[1] == want and off == 2 and \
            all(A.ref_id(A.kids(c)[1]) == msgp for c in addr_calls + val_calls)
        ctx.ob("R15.1", q.split("::")[-1], ok, site=A.where(am[0]),
               detail={"address_from_argument": _arg_index(addr_calls[0])[1] if len(addr_calls) == 1 else None,
                       "value_from_argument": _arg_index(val_calls[0])[1] if len(val_calls) == 1 else None, "expected_value_argument": want, "type_string_offset": off},
               what="%s builds its message from argument %s with the type string at offset %s; the event is `s<t><t> path old new`, so it must be argument %d at offset 2" % (
                   q.split("::")[-1], _arg_index(val_calls[0])[1] if len(val_calls) == 1 else "?", off, want))
    fm = u.function("UndoHistoryImpl::mergeEvent")
    msgm = [p_ for p_ in u.params(fm) if p_.get("name") == "msg"] or [u.params(fm)[1]]
    slots = {}
    for x in A.walk(u.body(fm)):
        if x.get("kind") in ("BinaryOperator", "CXXOperatorCallExpr"):
            ks = A.kids(x)
            if x.get("kind") == "BinaryOperator" and x.get("opcode") == "=":
                lhs, rhs = ks[0], ks[1]
            elif x.get("kind") == "CXXOperatorCallExpr" and len(ks) == 3 and "operator=" in A.src(ks[0]):
                lhs, rhs = ks[1], ks[2]
            else:
                continue
            l = A.strip_casts(lhs)
            if l.get("kind") == "ArraySubscriptExpr" and A.int_literal(A.kids(l)[1]) is not None:
                rc = [c for c in A.calls_in(rhs) if A.callee_name(c) == "rtosc_argument"]
                r0 = A.strip_casts(rhs)
                if not rc and r0.get("kind") == "CallExpr" and A.callee_name(r0) == "rtosc_argument":
                    rc = [r0]
                if len(rc) == 1:
                    src_, k_ = _arg_index(rc[0])
                    slots[A.int_literal(A.kids(l)[1])] = ("incoming" if A.ref_id(A.kids(rc[0])[1]) == msgm[0]["id"] else "stored", k_)
    okm = slots == {0: ("incoming", 0), 1: ("stored", 1), 2: ("incoming", 2)}
    ctx.ob("R15.1", "mergeEvent", okm, site=A.where(fm), detail={"merged_arguments": {str(k): list(v) for k, v in sorted(slots.items())}},
           what="mergeEvent splices %s; a merged event must carry (address of the incoming, OLD value of the stored, NEW value of the incoming event)" % slots)

    # ---- R15.2
    fs = u.function("UndoHistory::seekHistory")
    dist_id = u.params(fs)[0]["id"]
    bad = []
    ncase = 0
    for size in range(0, 5):
        for pos in range(0, size + 1):
            for dist in range(-6, 7):
                st = {"pos": pos}
                acts = []

                def hook(n, ev, st=st, acts=acts, size=size):
                    k = n.get("kind")
                    if k == "CXXMemberCallExpr":
                        cal = A.strip_casts(A.kids(n)[0])
                        nm = cal.get("name")
                        if nm == "size":
                            return size
                        if nm in ("rewind", "replay"):
                            v = ev.ev(A.kids(n)[1])
                            acts.append((nm, v[1] if isinstance(v, tuple) else v))
                            return 0
                    if k == "CXXOperatorCallExpr" and "operator[]" in A.src(A.kids(n)[0]):
                        return ("elem", ev.ev(A.kids(n)[2]))
                    if k == "MemberExpr" and n.get("name") == "second":
                        return ev.ev(A.kids(n)[0])
                    if k == "MemberExpr" and n.get("name") == "history":
                        return "HIST"
                    return NotImplemented
                ev = FD.Eval(env={dist_id: dist, "member:this->impl->history_pos": pos, "member:impl->history_pos": pos}, node_hook=hook, max_steps=4000)
                try:
                    try:
                        ev.run(u.body(fs))
                    except FD._Return:
                        pass
                except FD.Unknown as e:
                    raise AnalysisBroken("R15.2: seekHistory not evaluable: %s" % e)
                endpos = ev.env.get("member:this->impl->history_pos", ev.env.get("member:impl->history_pos"))
                keys_changed = [k_ for k_ in ("member:this->impl->history_pos", "member:impl->history_pos") if ev.env.get(k_) != pos]
                if keys_changed:
                    endpos = ev.env[keys_changed[0]]
                dest = max(0, min(size, pos + dist))
                exp = [("rewind", i) for i in range(pos - 1, dest - 1, -1)] if dest < pos else [("replay", i) for i in range(pos, dest)]
                ncase += 1
                if acts != exp or endpos != dest:
                    bad.append({"size": size, "position": pos, "distance": dist, "actions": acts[:6], "expected": exp[:6], "ends_at": endpos, "expected_end": dest})
    ctx.ob("R15.2", "seekHistory", not bad, site=A.where(fs), detail={"cases": ncase, "mismatches": bad[:5]},
           what="seekHistory does not rewind/replay exactly the events up to the clamped destination: %s" % bad[:2])

    # ---- R15.3
    fr = u.function("UndoHistory::recordEvent")
    CAP = 3
    bad = []
    ncase = 0
    for size in range(0, CAP + 1):
        for pos in range(0, size + 1):
            for merged in (0, 1):
                st = {"size": size}
                log = []

                def hook(n, ev, st=st, log=log, merged=merged):
                    k = n.get("kind")
                    if k == "CXXMemberCallExpr":
                        cal = A.strip_casts(A.kids(n)[0])
                        nm = cal.get("name")
                        if nm == "size":
                            return st["size"]
                        if nm == "resize":
                            st["size"] = ev.ev(A.kids(n)[1])
                            log.append(("resize", st["size"]))
                            return 0
                        if nm == "push_back":
                            st["size"] += 1
                            log.append(("push_back",))
                            return 0
                        if nm == "pop_front":
                            st["size"] -= 1
                            log.append(("pop_front",))
                            return 0
                        if nm == "mergeEvent":
                            return merged
                        return 0
                    if k in ("CXXNewExpr", "CXXDeleteExpr", "CallExpr", "CXXConstructExpr", "CXXTemporaryObjectExpr"):
                        return 0
                    if k == "MemberExpr" and n.get("name") == "max_history_size":
                        return CAP
                    return NotImplemented
                ev = FD.Eval(env={"member:this->impl->history_pos": pos, "member:impl->history_pos": pos}, node_hook=hook, max_steps=4000)
                try:
                    try:
                        ev.run(u.body(fr))
                    except FD._Return:
                        pass
                except FD.Unknown as e:
                    raise AnalysisBroken("R15.3: recordEvent not evaluable: %s" % e)
                endpos = [ev.env[k_] for k_ in ("member:this->impl->history_pos", "member:impl->history_pos") if ev.env.get(k_) != pos]
                endpos = endpos[0] if endpos else pos
                if merged:
                    exp_size, exp_pos = pos, pos
                else:
                    exp_size = min(pos + 1, CAP)
                    exp_pos = exp_size
                ncase += 1
                if st["size"] != exp_size or endpos != exp_pos:
                    bad.append({"size": size, "position": pos, "merged": bool(merged), "operations": log, "ends_with_size": st["size"], "position_after": endpos,
                                "expected_size": exp_size, "expected_position": exp_pos})
    ctx.ob("R15.3", "recordEvent bookkeeping", not bad, site=A.where(fr), detail={"cases": ncase, "capacity_used": CAP, "mismatches": bad[:5]},
           what="recordEvent's bookkeeping is wrong for %s" % bad[:2])
    ctors = [f_ for q_, fl in u.functions.items() if q_.endswith("UndoHistoryImpl::UndoHistoryImpl") for f_ in fl]
    cap = None
    for c_ in ctors:
        for ci in A.kids(c_):
            if ci.get("kind") == "CXXCtorInitializer" and (ci.get("anyInit") or {}).get("name") == "max_history_size":
                for y in A.walk(ci):
                    if A.int_literal(y) is not None:
                        cap = A.int_literal(y)
    ctx.ob("R15.3", "capacity", cap == 20, site=A.where(ctors[0]) if ctors else A.where(fr), detail={"max_history_size": cap},
           what="the history keeps %s events, the documented capacity is 20" % cap)

    # ---- R15.4
    loops = [x for x in A.walk(u.body(fm)) if x.get("kind") == "ForStmt"]
    ctx.require(len(loops) == 1, "mergeEvent: scan loop not found")
    lp = loops[0]
    raw = lp.get("inner", [])
    init, cond, inc = raw[0], raw[2], raw[3]
    newest_first = inc.get("kind") == "UnaryOperator" and inc.get("opcode") == "--" and "history_pos" in A.src(init)
    window = None
    for x in A.walk(raw[4]):
        if x.get("kind") == "IfStmt" and any(A.callee_name(c) == "difftime" for c in A.calls_in(A.kids(x)[0])) and any(y.get("kind") == "BreakStmt" for y in A.walk(A.kids(x)[1])):
            c = A.strip_casts(A.kids(x)[0])
            res = {}
            for d in (0.0, 1.0, 2.0, 2.5, 3.0):
                try:
                    res[d] = bool(FD.Eval(call=lambda nm, vals, nd, d=d: d if nm == "difftime" else (_ for _ in ()).throw(FD.Unknown("call " + str(nm), nd)),
                                          node_hook=lambda n_, e_: 0 if n_.get("kind") in ("DeclRefExpr", "MemberExpr", "CXXOperatorCallExpr") else NotImplemented).ev(c))
                except FD.Unknown as e:
                    raise AnalysisBroken("R15.4: merge window test not evaluable: %s" % e)
            window = res
    ok_window = window is not None and window[0.0] is False and window[1.0] is False and window[2.0] is False and window[3.0] is True
    same_addr = False
    for x in A.walk(raw[4]):
        if x.get("kind") == "IfStmt":
            c = A.strip_casts(A.kids(x)[0])
            sc = [k_ for k_ in A.calls_in(c) if A.callee_name(k_) == "strcmp"]
            if len(sc) == 1 and len([k_ for k_ in A.calls_in(sc[0]) if A.callee_name(k_) == "getUndoAddress"]) == 2:
                same_addr = (c.get("kind") == "UnaryOperator" and c.get("opcode") == "!") or \
                    (c.get("kind") == "BinaryOperator" and c.get("opcode") == "==" and 0 in (A.int_literal(A.kids(c)[0]), A.int_literal(A.kids(c)[1])))
    ctx.ob("R15.4", "mergeEvent", bool(newest_first and ok_window and same_addr), site=A.where(lp),
           detail={"scans_newest_first": bool(newest_first), "stops_when_older_than": {str(k): v for k, v in (window or {}).items()}, "merges_on_equal_address": same_addr},
           what="mergeEvent's scan is not `newest first, stop at the first event more than 2 s old, merge on equal address`: %s" % {"newest_first": newest_first, "window": window, "same_address": same_addr})
