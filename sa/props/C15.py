"""C15 - Undo history rewinds and replays recorded changes exactly (narrow: roles of the event's arguments, bookkeeping)."""
import itertools

from .. import astlib as A
from .. import fdeval as FD
from ..facts import AnalysisBroken
from ..rules import undoeval as UE

LEVEL = "other"
EXPLANATION = ("Decided are the clauses that are code shapes or bookkeeping over small integers, not histories: (R15.1) writer/reader "
               "agreement on the undo event `/undo_change s<t><t> path old new` that the parameter macros emit (C14 R14d): rewind "
               "builds its message from argument 0 (address) and argument 1 (old value), replay from argument 0 and argument 2 (new "
               "value), both with the one type tag that follows the first two in the event's type string; a merged event takes the "
               "old value of the stored event and the new value of the incoming one. (R15.2) seekHistory, evaluated over all "
               "positions, sizes and distances of a small history, rewinds newest first / replays oldest first exactly the events "
               "between the current position and the destination clamped to [0, size], and leaves the position there. (R15.3) "
               "recordEvent, evaluated likewise, drops the undone tail before recording, appends unless the event merged, and keeps "
               "at most max_history_size events by dropping the oldest; the constructor sets that size to 20. (R15.4) mergeEvent, "
               "evaluated on symbolic events over 351 small histories, merges into the newest stored event with the incoming "
               "address that lies before the first one older than two seconds, and nowhere else. Which values the messages finally carry over whole histories is not decided.")
TRUSTED = ["clang 14 AST", "sa/fdeval.py", "sa/rules/undoeval.py (model of rtosc_argument / rtosc_amessage / difftime / strcmp on tokens)"]
ASSUMPTIONS = ["std::deque behaves as documented (size, resize, push_back, pop_front, operator[])",
               "the undo event format is the one decided by C14 R14d"]

UNIT = "undo-history.cpp"


def _unit_method(u, name):
    """a method / function of the unit with that name and a body (helpers are evaluated in place)"""
    cands = [f for q, fl in u.functions.items() if q.split("::")[-1] == name for f in fl if u.body(f) is not None]
    return cands[0] if len(cands) == 1 else None


def _std_call(name, vals, n):
    """std::min / std::max on plain integers"""
    if name in ("min", "max") and len(vals) == 2 and all(isinstance(v, int) and not isinstance(v, bool) for v in vals):
        return min(vals) if name == "min" else max(vals)
    raise FD.Unknown("call to %s" % name, n)


def _position_access(n, ev, st):
    """reads and writes of the history position, however it is reached (impl->history_pos, this->history_pos, history_pos)"""
    k = n.get("kind")

    def is_pos(e):
        e = A.strip_casts(e)
        return e.get("kind") == "MemberExpr" and e.get("name") == "history_pos"
    if k == "MemberExpr" and n.get("name") == "history_pos":
        return st["pos"]
    if k == "UnaryOperator" and n.get("opcode") in ("++", "--") and is_pos(A.kids(n)[0]):
        old = st["pos"]
        st["pos"] = old + (1 if n.get("opcode") == "++" else -1)
        return old if n.get("isPostfix") else st["pos"]
    if k == "BinaryOperator" and n.get("opcode") == "=" and is_pos(A.kids(n)[0]):
        st["pos"] = ev.ev(A.kids(n)[1])
        return st["pos"]
    if k == "CompoundAssignOperator" and is_pos(A.kids(n)[0]):
        v = ev.ev(A.kids(n)[1])
        st["pos"] = st["pos"] + v if n.get("opcode") == "+=" else st["pos"] - v
        return st["pos"]
    return NotImplemented


def run(ctx):
    u = ctx.ast(UNIT)
    ctx.rule("R15.1", "EVENT-ROLES: rewind sends (argument 0 as address, argument 1 = old value), replay (argument 0, argument 2 = new value), each with the single type tag at offset 2 of the event's type string; mergeEvent splices (address, old of the stored event, new of the incoming event)")
    ctx.rule("R15.2", "SEEK: seekHistory rewinds newest first / replays oldest first exactly the events between the position and the destination clamped to [0, size] (evaluated over all positions, sizes 0..4, distances -6..6)")
    ctx.rule("R15.3", "RECORD: recordEvent truncates the history to the current position, appends unless merged, keeps at most max_history_size events by dropping the oldest and keeps the position at the end (evaluated over positions/sizes with a capacity of 3); the constructor initialises the capacity to 20")
    ctx.rule("R15.4", "MERGE-WINDOW: mergeEvent, evaluated over small histories (0..3 stored events, ages 0..7 s, two addresses), merges into exactly the newest stored event that has the incoming address and lies before the first event more than 2 seconds old")

    # ---- R15.1 (rewind / replay): evaluated on a symbolic event
    WORLDS = [None] + [{"tag": t_, "same": s_} for t_ in "ifc" for s_ in (False, True)]
    for q, want, world in [(q_, w_, wd_) for q_, w_ in (("UndoHistoryImpl::rewind", 1), ("UndoHistoryImpl::replay", 2)) for wd_ in WORLDS]:
        fn = u.function(q)
        r = UE.Run(u, world=world)
        try:
            r.run(fn, {u.params(fn)[0]["id"]: ("msg", "E")})
        except FD.Unknown as e:
            raise AnalysisBroken("R15.1: %s not evaluable: %s" % (q, e))
        wname = "" if world is None else " [event of type '%s', old value %s new value]" % (world["tag"], "==" if world["same"] else "!=")
        if world is None:
            # per call: handed the same event a second time, the function sends a second message (nothing that an
            # earlier call left behind may suppress it)
            n_cb1 = len(r.callbacks)
            try:
                r.run(fn, {u.params(fn)[0]["id"]: ("msg", "E")})
            except FD.Unknown as e:
                raise AnalysisBroken("R15.1: %s not evaluable a second time: %s" % (q, e))
            ctx.ob("R15.1", q.split("::")[-1] + " [called twice with one event]", n_cb1 == 1 and len(r.callbacks) == 2, site=A.where(fn),
                   detail={"callback_invocations_first_call": n_cb1, "after_second_call": len(r.callbacks)},
                   key="R15.1:%s:twice" % q.split("::")[-1],
                   what="%s, called twice with the same event, invokes the callback %d and then %d time(s): every call must send its message (an undo after a redo, or of a second change from the same old value, repeats the bytes of an earlier one)" % (
                       q.split("::")[-1], n_cb1, len(r.callbacks) - n_cb1))
            del r.callbacks[1:]
            del r.amessages[max(1, r.callbacks[0]["messages_built_before"] if r.callbacks else 1):]
        sent = None
        if len(r.callbacks) == 1:
            cbk = r.callbacks[0]
            built = [m for m in r.amessages[:cbk["messages_built_before"]] if m["buf"] == cbk["buffer"]]
            sent = built[-1] if built else None
        det = {"callback_invocations": len(r.callbacks), "expected_value_argument": want}
        ok = False
        if sent is not None:
            det.update({"address": list(sent["address"]) if isinstance(sent["address"], tuple) else sent["address"],
                        "types": list(sent["types"]) if isinstance(sent["types"], tuple) else sent["types"],
                        "arguments": [list(x) if isinstance(x, tuple) else x for x in sent["args"]]})
            ok = sent["address"] == ("arg", "E", 0) and sent["types"] == ("types", "E", 2) and sent["args"][:1] == [("arg", "E", want)]
        det["world"] = wname.strip() or "symbolic event"
        ctx.ob("R15.1", q.split("::")[-1] + wname, ok, site=A.where(fn), detail=det,
               key="R15.1:%s%s" % (q.split("::")[-1], wname),
               what="%s hands the callback %s; the event is `s<t><t> path old new`, so the message must be (address = argument 0, type string at offset 2, value = argument %d)" % (
                   q.split("::")[-1], {k_: v_ for k_, v_ in det.items() if k_ in ("address", "types", "arguments", "callback_invocations")}, want))

    # ---- R15.1 (mergeEvent) and R15.4: evaluated over small histories (ages non-decreasing towards the past)
    fm = u.function("UndoHistoryImpl::mergeEvent")
    env0, roles = UE.bind_merge_params(u, fm)
    ctx.require({"msg", "buf", "now"} <= set(roles), "mergeEvent: parameters (time, event, buffer) not recognised")
    AGES = (0.0, 1.0, 2.0, 3.0, 7.0)
    bad_sel, bad_splice = [], []
    nmodel = 0
    for pos in range(0, 4):
        for ages_new_first in itertools.combinations_with_replacement(AGES, pos):
            ages = list(reversed(ages_new_first))        # index 0 = oldest
            for addrs in itertools.product("AB", repeat=pos):
                r = UE.Run(u, pos=pos, ages=ages, addrs=addrs)
                try:
                    rv = r.run(fm, dict(env0))
                except FD.Unknown as e:
                    raise AnalysisBroken("R15.4: mergeEvent not evaluable: %s" % e)
                nmodel += 1
                want = None
                for i in range(pos - 1, -1, -1):
                    if ages[i] > 2:
                        break
                    if addrs[i] == "A":
                        want = i
                        break
                into = sorted(i for (f_, i) in r.stores if f_ == "second")
                model = {"position": pos, "ages_oldest_first": ages, "addresses_oldest_first": "".join(addrs), "incoming_address": "A"}
                if bool(rv) != (want is not None) or into != ([want] if want is not None else []) or r.oob:
                    bad_sel.append(dict(model, merged_into=into, returns=rv, expected_merge_into=want, out_of_range_reads=r.oob[:3]))
                    continue
                if want is not None:
                    built = [m for m in r.amessages if m["buf"] == ("buf",)]
                    m = built[-1] if built else None
                    okm = m is not None and r.stores[("second", want)] == ("buf",) and len(m["args"]) == 3 and \
                        r.value_of(m["args"][0]) == ("address", "A") and m["args"][1] == ("arg", want, 1) and m["args"][2] == ("arg", "IN", 2) and \
                        m["address"] in (("msg", "IN"), ("msg", want)) and m["types"] in (("types", "IN", 0), ("types", want, 0))
                    if not okm:
                        bad_splice.append(dict(model, merged_into=want, stored=r.stores.get(("second", want)),
                                               message={k_: (list(v_) if isinstance(v_, tuple) else [list(x) if isinstance(x, tuple) else x for x in v_] if isinstance(v_, list) else v_) for k_, v_ in (m or {}).items()}))
    ctx.ob("R15.1", "mergeEvent", not bad_splice, site=A.where(fm), detail={"histories": nmodel, "mismatches": bad_splice[:4]},
           what="mergeEvent does not store (address, OLD value of the stored event, NEW value of the incoming event) in the entry it merges into: %s" % bad_splice[:1])

    # ---- R15.2
    fs = u.function("UndoHistory::seekHistory")
    dist_id = u.params(fs)[0]["id"]
    bad = []
    ncase = 0
    for size in range(0, 5):
        for pos in range(0, size + 1):
            for dist in range(-6, 7):
                st = {"pos": pos}
                acts = []

                def hook(n, ev, st=st, acts=acts, size=size):
                    k = n.get("kind")
                    r_ = _position_access(n, ev, st)
                    if r_ is not NotImplemented:
                        return r_
                    if k == "CXXMemberCallExpr":
                        cal = A.strip_casts(A.kids(n)[0])
                        nm = cal.get("name")
                        if nm == "size":
                            return size
                        if nm in ("rewind", "replay"):
                            v = ev.ev(A.kids(n)[1])
                            acts.append((nm, v[1] if isinstance(v, tuple) else v))
                            return 0
                        hm = _unit_method(u, nm)
                        if hm is not None:
                            return ev.call_function(u, hm, [ev.ev(a) for a in A.kids(n)[1:]])
                    if k == "CXXOperatorCallExpr" and "operator[]" in A.src(A.kids(n)[0]):
                        return ("elem", ev.ev(A.kids(n)[2]))
                    if k == "MemberExpr" and n.get("name") == "second":
                        return ev.ev(A.kids(n)[0])
                    if k == "MemberExpr" and n.get("name") == "history":
                        return "HIST"
                    return NotImplemented
                ev = FD.Eval(env={dist_id: dist}, node_hook=hook, call=_std_call, max_steps=4000)
                try:
                    try:
                        ev.run(u.body(fs))
                    except FD._Return:
                        pass
                except FD.Unknown as e:
                    raise AnalysisBroken("R15.2: seekHistory not evaluable: %s" % e)
                endpos = st["pos"]
                dest = max(0, min(size, pos + dist))
                exp = [("rewind", i) for i in range(pos - 1, dest - 1, -1)] if dest < pos else [("replay", i) for i in range(pos, dest)]
                ncase += 1
                if acts != exp or endpos != dest:
                    bad.append({"size": size, "position": pos, "distance": dist, "actions": acts[:6], "expected": exp[:6], "ends_at": endpos, "expected_end": dest})
    ctx.ob("R15.2", "seekHistory", not bad, site=A.where(fs), detail={"cases": ncase, "mismatches": bad[:5]},
           what="seekHistory does not rewind/replay exactly the events up to the clamped destination: %s" % bad[:2])

    # ---- R15.3
    fr = u.function("UndoHistory::recordEvent")
    CAP = 3
    bad = []
    ncase = 0
    for size in range(0, CAP + 1):
        for pos in range(0, size + 1):
            for merged in (0, 1):
                st = {"size": size, "pos": pos}
                log = []

                def hook(n, ev, st=st, log=log, merged=merged):
                    k = n.get("kind")
                    r_ = _position_access(n, ev, st)
                    if r_ is not NotImplemented:
                        return r_
                    if k == "CXXMemberCallExpr":
                        cal = A.strip_casts(A.kids(n)[0])
                        nm = cal.get("name")
                        if nm == "size":
                            return st["size"]
                        hm = _unit_method(u, nm) if nm not in ("mergeEvent", "resize", "push_back", "pop_front", "front", "back") else None
                        if hm is not None:
                            return ev.call_function(u, hm, [ev.ev(a) for a in A.kids(n)[1:]])
                        if nm == "resize":
                            st["size"] = ev.ev(A.kids(n)[1])
                            log.append(("resize", st["size"]))
                            return 0
                        if nm == "push_back":
                            st["size"] += 1
                            log.append(("push_back",))
                            return 0
                        if nm == "pop_front":
                            st["size"] -= 1
                            log.append(("pop_front",))
                            return 0
                        if nm == "mergeEvent":
                            return merged
                        return 0
                    if k in ("CXXNewExpr", "CXXDeleteExpr", "CallExpr", "CXXConstructExpr", "CXXTemporaryObjectExpr"):
                        return 0
                    if k == "MemberExpr" and n.get("name") == "max_history_size":
                        return CAP
                    return NotImplemented
                ev = FD.Eval(env={}, node_hook=hook, call=_std_call, max_steps=4000)
                try:
                    try:
                        ev.run(u.body(fr))
                    except FD._Return:
                        pass
                except FD.Unknown as e:
                    raise AnalysisBroken("R15.3: recordEvent not evaluable: %s" % e)
                endpos = st["pos"]
                if merged:
                    exp_size, exp_pos = pos, pos
                else:
                    exp_size = min(pos + 1, CAP)
                    exp_pos = exp_size
                ncase += 1
                if st["size"] != exp_size or endpos != exp_pos:
                    bad.append({"size": size, "position": pos, "merged": bool(merged), "operations": log, "ends_with_size": st["size"], "position_after": endpos,
                                "expected_size": exp_size, "expected_position": exp_pos})
    ctx.ob("R15.3", "recordEvent bookkeeping", not bad, site=A.where(fr), detail={"cases": ncase, "capacity_used": CAP, "mismatches": bad[:5]},
           what="recordEvent's bookkeeping is wrong for %s" % bad[:2])
    ctors = [f_ for q_, fl in u.functions.items() if q_.endswith("UndoHistoryImpl::UndoHistoryImpl") for f_ in fl]
    cap = None
    for c_ in ctors:
        for ci in A.kids(c_):
            if ci.get("kind") == "CXXCtorInitializer" and (ci.get("anyInit") or {}).get("name") == "max_history_size":
                for y in A.walk(ci):
                    if A.int_literal(y) is not None:
                        cap = A.int_literal(y)
    ctx.ob("R15.3", "capacity", cap == 20, site=A.where(ctors[0]) if ctors else A.where(fr), detail={"max_history_size": cap},
           what="the history keeps %s events, the documented capacity is 20" % cap)

    # ---- R15.4
    ctx.ob("R15.4", "mergeEvent", not bad_sel, site=A.where(fm), detail={"histories": nmodel, "mismatches": bad_sel[:5]},
           what="mergeEvent does not merge into the newest stored event that has the same address and lies before the first event more than 2 s old: %s" % bad_sel[:2])
