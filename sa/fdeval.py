"""Finite-domain evaluator for expressions / small statements *extracted from the
AST*.  It is used to turn an expression whose inputs range over a small finite
domain (pos mod 4, a tag alphabet, 0..4 x 0..4, element sizes) into its complete
function table, so that rules compare what an expression computes rather than
how it is spelled.  No function of rtosc is executed; a construct the evaluator
does not know raises Unknown -> the check exits 2 (no verdict), never a pass.
"""
import re

from . import astlib as A


class Unknown(Exception):
    def __init__(self, msg, node=None):
        Exception.__init__(self, msg + ((" at " + A.where(node)) if node is not None else ""))
        self.node = node


class _Break(Exception):
    pass


class _Continue(Exception):
    pass


class _Goto(Exception):
    def __init__(self, label_id, name):
        Exception.__init__(self, "goto")
        self.label_id = label_id
        self.name = name


class _Return(Exception):
    def __init__(self, v):
        self.v = v


INT_TYPES = {
    "_Bool": (1, False), "bool": (1, False),
    "char": (8, True), "signed char": (8, True), "unsigned char": (8, False),
    "short": (16, True), "unsigned short": (16, False),
    "int": (32, True), "unsigned int": (32, False), "unsigned": (32, False),
    "long": (64, True), "unsigned long": (64, False),
    "long long": (64, True), "unsigned long long": (64, False),
    "__int128": (128, True), "unsigned __int128": (128, False),
    "char16_t": (16, False), "char32_t": (32, False), "wchar_t": (32, True),
}
SIZEOF = {"char": 1, "signed char": 1, "unsigned char": 1, "short": 2, "unsigned short": 2, "int": 4,
          "unsigned int": 4, "long": 8, "unsigned long": 8, "long long": 8, "unsigned long long": 8,
          "float": 4, "double": 8, "_Bool": 1, "bool": 1, "void": 1,
          "rtosc_arg_val_t": 24, "rtosc_arg_t": 16}      # one slot of an argument-value list (type tag + 16-byte union), for pointer steps


for _n, _b, _s in (("uint8_t", 8, False), ("int8_t", 8, True), ("uint16_t", 16, False), ("int16_t", 16, True),
                   ("uint32_t", 32, False), ("int32_t", 32, True), ("uint64_t", 64, False), ("int64_t", 64, True),
                   ("size_t", 64, False), ("ssize_t", 64, True), ("ptrdiff_t", 64, True), ("uintptr_t", 64, False),
                   ("intptr_t", 64, True), ("off_t", 64, True)):
    INT_TYPES[_n] = (_b, _s)
    SIZEOF[_n] = _b // 8


def _clean(t):
    t = re.sub(r"\b(const|volatile|restrict|__restrict|struct|enum)\b", "", t)
    return " ".join(t.split())


def ctype(t):
    """('int',bits,signed) | ('ptr',elemsize or None) | ('float',) | ('other',)"""
    t = _clean(t)
    if t.endswith("*"):
        el = _clean(t[:-1])
        if el.endswith("*"):
            return ("ptr", 8)
        return ("ptr", SIZEOF.get(el))
    if t.endswith("]"):
        el = _clean(t[:t.index("[")])
        return ("ptr", SIZEOF.get(el))
    if t in INT_TYPES:
        b, s = INT_TYPES[t]
        return ("int", b, s)
    if t in ("float", "double", "long double"):
        return ("float",)
    return ("other",)


def wrap(v, ct):
    if not isinstance(v, int):
        return v              # symbolic tokens handed out by hooks (and floats) pass through unchanged
    if ct[0] == "int":
        bits, signed = ct[1], ct[2]
        if bits == 1:
            return 1 if v else 0
        v &= (1 << bits) - 1
        if signed and v >> (bits - 1):
            v -= 1 << bits
        return v
    if ct[0] == "ptr":
        return v & ((1 << 64) - 1)
    return v


class Eval:
    def __init__(self, env=None, call=None, deref=None, max_steps=20000, node_hook=None, store=None, stmt_hook=None):
        self.env = dict(env or {})       # decl id -> value
        self.call = call                 # f(name, [values], node) -> value
        self.deref = deref               # f(address, node) -> value
        self.store = store               # f(address, value, node): write through a pointer (`*p = v`, `p[i] = v`, `++*p`)
        self.node_hook = node_hook       # f(node, evaluator) -> value or NotImplemented (checked first)
        self.stmt_hook = stmt_hook       # f(statement node, evaluator) -> True when it executed the statement itself
        self.steps = 0
        self.max_steps = max_steps

    # ---------------------------------------------------------------- lvalues
    def _lv(self, n):
        n = A.strip(n)
        if n.get("kind") == "DeclRefExpr":
            return (n["referencedDecl"]["id"], n)
        if n.get("kind") == "MemberExpr":
            # a struct/union member lvalue is a slot named by its access path
            return ("member:" + A.src(n).replace(" ", ""), n)
        if self.store is not None and n.get("kind") == "UnaryOperator" and n.get("opcode") == "*":
            return (("mem", self.ev(A.kids(n)[0])), n)
        if self.store is not None and n.get("kind") == "ArraySubscriptExpr":
            base = self.ev(A.kids(n)[0])
            idx = self.ev(A.kids(n)[1])
            ct = ctype(A.qtype(A.kids(n)[0]))
            if ct[0] != "ptr" or not ct[1]:
                raise Unknown("subscript of unknown element size", n)
            return (("mem", base + idx * ct[1]), n)
        raise Unknown("unsupported lvalue " + str(n.get("kind")), n)

    def _load(self, n):
        i, node = self._lv(n)
        if isinstance(i, tuple) and i[0] == "mem":
            if self.deref is None:
                raise Unknown("dereference without memory model", n)
            return self.deref(i[1], node)
        if i not in self.env:
            raise Unknown("unbound variable " + str((node.get("referencedDecl") or {}).get("name") or i), n)
        return self.env[i]

    def _store(self, n, v):
        i, node = self._lv(n)
        if isinstance(i, tuple) and i[0] == "mem":
            self.store(i[1], wrap(v, ctype(A.qtype(node))), node)
            return
        self.env[i] = wrap(v, ctype(A.qtype(node)))

    # ------------------------------------------------------------ expressions
    def ev(self, n):
        self.steps += 1
        if self.steps > self.max_steps:
            raise Unknown("step bound exceeded", n)
        k = n.get("kind")
        ks = A.kids(n)
        if self.node_hook is not None:
            r = self.node_hook(n, self)
            if r is not NotImplemented:
                return r
        if k in ("ParenExpr", "ExprWithCleanups", "ConstantExpr", "MaterializeTemporaryExpr", "CXXBindTemporaryExpr"):
            return self.ev(ks[0])
        if k in ("ImplicitCastExpr", "CStyleCastExpr", "CXXStaticCastExpr", "CXXFunctionalCastExpr", "CXXReinterpretCastExpr", "CXXConstCastExpr"):
            ck = n.get("castKind")
            if ck == "LValueToRValue":
                return self.ev(ks[-1])
            v = self.ev(ks[-1])
            ct = ctype(A.qtype(n))
            if ck in ("UserDefinedConversion", "ConstructorConversion", "DerivedToBase", "UncheckedDerivedToBase"):
                return v
            if ck in ("IntegralCast", "NoOp", "IntegralToBoolean", "BitCast", "PointerToIntegral", "IntegralToPointer",
                      "ArrayToPointerDecay", "FunctionToPointerDecay", "NullToPointer", "PointerToBoolean", "ToVoid"):
                if ck in ("IntegralToBoolean", "PointerToBoolean"):
                    return 1 if v else 0
                if ct[0] in ("int", "ptr") and isinstance(v, int):
                    return wrap(v, ct)
                return v
            if ck in ("IntegralToFloating",):
                return float(v)
            if ck in ("FloatingToIntegral",):
                return wrap(int(v), ct)
            if ck in ("FloatingCast",):
                return v
            raise Unknown("cast kind " + str(ck), n)
        if k == "IntegerLiteral":
            return wrap(int(n["value"]), ctype(A.qtype(n)))
        if k == "CharacterLiteral":
            return int(n["value"])
        if k == "CXXBoolLiteralExpr":
            return 1 if n.get("value") else 0
        if k == "FloatingLiteral":
            return float(n["value"])
        if k in ("CXXNullPtrLiteralExpr", "GNUNullExpr"):
            return 0
        if k == "MemberExpr":
            key = "member:" + A.src(n).replace(" ", "")
            if key in self.env:
                return self.env[key]
            raise Unknown("unbound member " + key, n)
        if k == "DeclRefExpr":
            rd = n.get("referencedDecl") or {}
            if rd.get("kind") == "EnumConstantDecl":
                raise Unknown("enum constant", n)
            if rd.get("id") in self.env:
                return self.env[rd["id"]]
            raise Unknown("unbound variable " + str(rd.get("name")), n)
        if k == "UnaryOperator":
            op = n.get("opcode")
            if op in ("++", "--"):
                old = self._load(ks[0])
                ct = ctype(A.qtype(ks[0]))
                step = 1
                if ct[0] == "ptr":
                    if not ct[1]:
                        raise Unknown("pointer step of unknown element size", n)
                    step = ct[1]
                new = old + step if op == "++" else old - step
                self._store(ks[0], new)
                return old if n.get("isPostfix") else wrap(new, ct)
            if op == "*":
                if self.deref is None:
                    raise Unknown("dereference without memory model", n)
                return self.deref(self.ev(ks[0]), n)
            v = self.ev(ks[0])
            ct = ctype(A.qtype(n))
            if op == "-":
                return wrap(-v, ct) if isinstance(v, int) else -v
            if op == "+":
                return v
            if op == "!":
                return 0 if v else 1
            if op == "~":
                return wrap(~v, ct)
            if op == "__extension__":
                return v
            raise Unknown("unary " + str(op), n)
        if k == "BinaryOperator":
            op = n.get("opcode")
            if op == "=":
                v = self.ev(ks[1])
                self._store(ks[0], v)
                i_, node_ = self._lv(ks[0]) if A.strip(ks[0]).get("kind") in ("DeclRefExpr", "MemberExpr") else (None, None)
                if i_ is not None:
                    return self.env[i_]
                ct_ = ctype(A.qtype(ks[0]))          # a store through a pointer: the value as converted to the lvalue's type
                return wrap(v, ct_) if ct_[0] in ("int", "ptr") and isinstance(v, int) else v
            if op == ",":
                self.ev(ks[0])
                return self.ev(ks[1])
            if op == "&&":
                return 1 if (self.ev(ks[0]) and self.ev(ks[1])) else 0
            if op == "||":
                return 1 if (self.ev(ks[0]) or self.ev(ks[1])) else 0
            if op == "/":
                cnt = _array_count_idiom(ks)
                if cnt is not None:
                    return cnt               # sizeof(table) / sizeof(table[0])
            a = self.ev(ks[0])
            b = self.ev(ks[1])
            return self._binop(op, a, b, n, ks)
        if k == "CompoundAssignOperator":
            op = n.get("opcode")[:-1]
            a = self._load(ks[0])
            b = self.ev(ks[1])
            # computation type
            cct = ctype((n.get("computeResultType") or {}).get("desugaredQualType") or (n.get("computeResultType") or {}).get("qualType") or A.qtype(n))
            lct = ctype(A.qtype(ks[0]))
            if lct[0] == "ptr":
                if not lct[1]:
                    raise Unknown("pointer arithmetic on unknown element size", n)
                v = a + b * lct[1] if op == "+" else a - b * lct[1]
            else:
                if cct[0] == "int" and isinstance(a, int):
                    a = wrap(a, cct)
                if cct[0] == "int" and isinstance(b, int):
                    b = wrap(b, cct)
                v = self._arith(op, a, b, cct, n)
            self._store(ks[0], v)
            return self._load(ks[0])
        if k == "ConditionalOperator":
            return self.ev(ks[1]) if self.ev(ks[0]) else self.ev(ks[2])
        if k == "StmtExpr" and ks:
            # GNU statement expression (glibc's assert expands to one): the statements run, the last expression is the value
            body = A.kids(ks[0]) if ks[0].get("kind") == "CompoundStmt" else ks
            val = 0
            for st in body:
                if st.get("kind", "").endswith("Stmt") or st.get("kind") in ("DeclStmt",):
                    self.run(st)
                    val = 0
                else:
                    val = self.ev(st)
            return val
        if k == "CallExpr":
            name = A.callee_name(n)
            if self.call is None:
                raise Unknown("call to " + str(name), n)
            return self.call(name, [self.ev(a) for a in ks[1:]], n)
        if k == "ArraySubscriptExpr" and self.deref is not None:
            base = self.ev(ks[0])
            idx = self.ev(ks[1])
            ct = ctype(A.qtype(ks[0]))
            if isinstance(base, str) and isinstance(idx, int) and 0 <= idx <= len(base):
                return ord(base[idx]) if idx < len(base) else 0      # a string literal (handed out by a hook) read as a char array
            if ct[0] != "ptr" or not ct[1] or not isinstance(base, int) or not isinstance(idx, int):
                raise Unknown("subscript not evaluable", n)
            return self.deref(base + idx * ct[1], n)
        if k == "UnaryExprOrTypeTraitExpr" and n.get("name") == "sizeof":
            t = (n.get("argType") or {}).get("qualType")
            if not t and ks:
                t = A.qtype(A.strip(ks[0]))          # sizeof expression: the operand's type
            if t:
                import re as _re
                m = _re.match(r"^(.*?)((?:\s*\[\d+\])+)\s*$", t)
                mult = 1
                if m:
                    t = m.group(1)
                    for d_ in _re.findall(r"\[(\d+)\]", m.group(2)):
                        mult *= int(d_)
                if t.rstrip().endswith("*"):
                    return 8 * mult
                if _clean(t) in SIZEOF:
                    return SIZEOF[_clean(t)] * mult
            raise Unknown("sizeof", n)
        raise Unknown("expression kind " + str(k), n)

    def _binop(self, op, a, b, n, ks):
        lt, rt = ctype(A.qtype(ks[0])), ctype(A.qtype(ks[1]))
        ct = ctype(A.qtype(n))
        if op in ("+", "-") and (lt[0] == "ptr" or rt[0] == "ptr"):
            if lt[0] == "ptr" and rt[0] == "ptr":
                if not lt[1]:
                    raise Unknown("pointer difference of unknown element size", n)
                return wrap((a - b) // lt[1], ct)
            if lt[0] == "ptr":
                if not lt[1]:
                    raise Unknown("pointer arithmetic on unknown element size", n)
                return wrap(a + b * lt[1] if op == "+" else a - b * lt[1], lt)
            if not rt[1]:
                raise Unknown("pointer arithmetic on unknown element size", n)
            return wrap(b + a * rt[1], rt)
        if op in ("==", "!=", "<", ">", "<=", ">="):
            return 1 if {"==": a == b, "!=": a != b, "<": a < b, ">": a > b, "<=": a <= b, ">=": a >= b}[op] else 0
        return self._arith(op, a, b, ct, n)

    def _arith(self, op, a, b, ct, n):
        if isinstance(a, float) or isinstance(b, float):
            if op == "+":
                return a + b
            if op == "-":
                return a - b
            if op == "*":
                return a * b
            if op == "/":
                return a / b
            raise Unknown("float op " + op, n)
        if op == "+":
            v = a + b
        elif op == "-":
            v = a - b
        elif op == "*":
            v = a * b
        elif op in ("/", "%"):
            if b == 0:
                raise Unknown("division by zero", n)
            q = abs(a) // abs(b)
            if (a < 0) != (b < 0):
                q = -q
            v = q if op == "/" else a - q * b
        elif op == "<<":
            v = a << b
        elif op == ">>":
            v = a >> b
        elif op == "&":
            v = a & b
        elif op == "|":
            v = a | b
        elif op == "^":
            v = a ^ b
        else:
            raise Unknown("binary " + str(op), n)
        return wrap(v, ct) if ct[0] in ("int", "ptr") else v

    # -------------------------------------------------------------- statements
    def run(self, n):
        """Execute a statement; returns normally, or raises _Return/_Break/_Continue."""
        self.steps += 1
        if self.steps > self.max_steps:
            raise Unknown("step bound exceeded", n)
        k = n.get("kind")
        ks = A.kids(n)
        if self.stmt_hook is not None and self.stmt_hook(n, self) is True:
            return
        if k == "CompoundStmt":
            i = 0
            while i < len(ks):
                try:
                    self.run(ks[i])
                except _Goto as g:
                    # a jump to a label that is a statement of this very block resumes there; others propagate outwards
                    tgt = [j for j, s_ in enumerate(ks) if s_.get("kind") == "LabelStmt" and (s_.get("declId") == g.label_id or (g.name and s_.get("name") == g.name))]
                    if not tgt:
                        raise
                    i = tgt[0]
                    continue
                i += 1
            return
        if k == "LabelStmt":
            for s in ks:
                self.run(s)
            return
        if k == "GotoStmt":
            raise _Goto(n.get("targetLabelDeclId"), None)
        if k == "NullStmt":
            return
        if k == "DeclStmt":
            for d in ks:
                if d.get("kind") == "VarDecl":
                    init = [c for c in A.kids(d)]
                    if init and A.strip_casts(init[-1]).get("kind") == "InitListExpr" and ("[" in (A.qtype(d) or "") or ctype(A.qtype(d))[0] not in ("int", "ptr", "float")):
                        # an aggregate (table, struct): bound to what the hook makes of its initialiser, else left to be read
                        # through the initialiser (const_aggregate) or by hooks
                        r_ = self.node_hook(A.strip_casts(init[-1]), self) if self.node_hook is not None else NotImplemented
                        if r_ is not NotImplemented:
                            self.env[d["id"]] = r_
                        else:
                            self.env.pop(d["id"], None)
                        continue
                    if init:
                        self.env[d["id"]] = wrap(self.ev(init[-1]), ctype(A.qtype(d))) if ctype(A.qtype(d))[0] in ("int", "ptr") else self.ev(init[-1])
                    else:
                        self.env.pop(d["id"], None)
            return
        if k == "IfStmt":
            # `if(T x = e)` / `if(init; cond)`: the declaration / init statement comes first in the node
            lead = 0
            if n.get("hasInit"):
                self.run(ks[lead])
                lead += 1
            if n.get("hasVar"):
                self.run(ks[lead])
                lead += 1
            ks = ks[lead:]
            if self.ev(ks[0]):
                self.run(ks[1])
            elif len(ks) > 2:
                self.run(ks[2])
            return
        if k == "WhileStmt":
            while self.ev(ks[0]):
                try:
                    self.run(ks[-1])
                except _Break:
                    break
                except _Continue:
                    continue
            return
        if k == "DoStmt":
            while True:
                try:
                    self.run(ks[0])
                except _Break:
                    break
                except _Continue:
                    pass
                if not self.ev(ks[1]):
                    break
            return
        if k == "ForStmt":
            # clang JSON: init, condvar(null placeholder), cond, inc, body
            raw = n.get("inner", [])
            init, cond, inc, body = raw[0], raw[2], raw[3], raw[4]
            if init and init.get("kind"):
                self.run(init)
            while (not cond.get("kind")) or self.ev(cond):
                try:
                    self.run(body)
                except _Break:
                    break
                except _Continue:
                    pass
                if inc.get("kind"):
                    self.ev(inc)
            return
        if k == "ReturnStmt":
            raise _Return(self.ev(ks[0]) if ks else None)
        if k == "BreakStmt":
            raise _Break()
        if k == "ContinueStmt":
            raise _Continue()
        if k == "SwitchStmt":
            v = self.ev(ks[0])
            body = ks[-1]
            flat = []
            self._flatten_switch(body, flat)
            start = None
            for idx, (lab, _) in enumerate(flat):
                if lab is not None and lab != "default" and lab == v:
                    start = idx
                    break
            if start is None:
                for idx, (lab, _) in enumerate(flat):
                    if lab == "default":
                        start = idx
                        break
            if start is None:
                return
            try:
                for lab, st in flat[start:]:
                    if st is not None:
                        self.run(st)
            except _Break:
                pass
            return
        # expression statement
        self.ev(n)

    def _flatten_switch(self, body, out):
        for s in A.kids(body):
            self._flatten_label(s, out)

    def _flatten_label(self, s, out):
        k = s.get("kind")
        if k == "CaseStmt":
            ks = A.kids(s)
            v = A.int_literal(ks[0])
            if v is None:
                raise Unknown("non-literal case label", s)
            out.append((v, None))
            self._flatten_label(ks[-1], out)
        elif k == "DefaultStmt":
            out.append(("default", None))
            ks = A.kids(s)
            if ks:
                self._flatten_label(ks[-1], out)
        else:
            out.append((None, s))

    def call_function(self, unit, fn, args):
        """Evaluate FunctionDecl fn on concrete args (ints)."""
        ps = unit.params(fn)
        if len(ps) != len(args):
            raise Unknown("arity mismatch", fn)
        saved = self.env
        self.env = dict(saved)
        own = {p["id"] for p in ps} | {d["id"] for d in A.walk(unit.body(fn)) if d.get("kind") == "VarDecl"}
        for p, a in zip(ps, args):
            ct = ctype(A.qtype(p))
            self.env[p["id"]] = wrap(a, ct) if ct[0] in ("int", "ptr") else a
        try:
            self.run(unit.body(fn))
            r = None
        except _Return as e:
            r = e.v
            rt = ctype(A.stype(fn).split("(")[0])
            if rt[0] == "int" and isinstance(r, int):
                r = wrap(r, rt)
        finally:
            # a callee that was handed the address of a caller's variable (hooks model `&x` as a token and route
            # deref/store of the token to env[x]) has written the caller's slot in its own frame: carry that back
            callee = self.env
            self.env = saved
            for i_, v_ in callee.items():
                if i_ in saved and i_ not in own and saved[i_] is not v_ and saved[i_] != v_:
                    saved[i_] = v_
        return r


def _array_count_idiom(ks):
    """`sizeof(T[N]) / sizeof(T)` -> N, whatever T is (the element-count idiom over a table)"""
    import re as _re

    def sz_type(e):
        e = A.strip_casts(e)
        if e.get("kind") != "UnaryExprOrTypeTraitExpr" or e.get("name") != "sizeof":
            return None
        t = (e.get("argType") or {}).get("qualType")
        if not t and A.kids(e):
            t = A.qtype(A.strip(A.kids(e)[0]))
        return t
    ta, tb = sz_type(ks[0]), sz_type(ks[1])
    if not ta or not tb:
        return None
    m = _re.match(r"^(.*?)\s*\[(\d+)\]\s*$", ta)
    if m and _clean(m.group(1)) == _clean(tb):
        return int(m.group(2))
    return None


def const_aggregate(unit, n, ev):
    """value of `G`, `G[i]`, `G[i].f` (any nesting) where G is a variable of the unit with a brace initialiser and a
    const-qualified type: the initialiser expression selected by the evaluated indices / the named field is evaluated.
    Returns NotImplemented when n is not such an access."""
    path = []
    e = A.strip_casts(n)
    while True:
        k = e.get("kind")
        if k == "MemberExpr" and A.kids(e):
            path.append(("field", e.get("referencedMemberDecl"), e.get("name")))
            e = A.strip_casts(A.kids(e)[0])
        elif k == "ArraySubscriptExpr":
            path.append(("index", A.kids(e)[1]))
            e = A.strip_casts(A.kids(e)[0])
        else:
            break
    if e.get("kind") != "DeclRefExpr" or not path:
        return NotImplemented
    d = unit.by_id.get((e.get("referencedDecl") or {}).get("id"))
    if d is None or d.get("kind") != "VarDecl" or "const" not in (A.qtype(d) or "") or not A.kids(d):
        return NotImplemented
    if d.get("id") in ev.env:
        return NotImplemented
    cur = A.strip_casts(A.kids(d)[-1])
    if cur.get("kind") != "InitListExpr":
        return NotImplemented
    for step in reversed(path):
        if cur.get("kind") != "InitListExpr":
            raise Unknown("initialiser is not a brace list", n)
        items = A.kids(cur)
        if step[0] == "index":
            i = ev.ev(step[1])
            if not isinstance(i, int) or i < 0 or i >= len(items):
                raise Unknown("index %r outside the table's initialiser" % (i,), n)
            cur = A.strip_casts(items[i])
        else:
            fd = unit.by_id.get(step[1])
            rec = unit.parent.get(step[1]) if fd is not None else None
            if rec is None:
                raise Unknown("field %s: record not found" % step[2], n)
            fields = [f for f in A.kids(rec) if f.get("kind") == "FieldDecl"]
            idx = [j for j, f in enumerate(fields) if f.get("id") == step[1]]
            if not idx or idx[0] >= len(items):
                raise Unknown("field %s not in the initialiser" % step[2], n)
            cur = A.strip_casts(items[idx[0]])
    return ev.ev(cur)


def switch_labels(sw):
    """[(set_of_label_values_or_'default', [statements]) ...] groups of a SwitchStmt, in order,
    where consecutive labels without statements in between share a group."""
    ev = Eval()
    flat = []
    ev._flatten_switch(A.kids(sw)[-1], flat)
    groups = []
    cur_labels, cur_stmts = [], []
    for lab, st in flat:
        if lab is not None:
            if cur_stmts:
                groups.append((cur_labels, cur_stmts))
                cur_labels, cur_stmts = [], []
            cur_labels.append(lab)
        else:
            cur_stmts.append(st)
    if cur_labels or cur_stmts:
        groups.append((cur_labels, cur_stmts))
    return groups
