"""WALKERS-ON-LAYOUT: the readers of a bundle (rtosc_bundle_elements, rtosc_bundle_fetch, rtosc_bundle_size and the
ring reader bundle_ring_length) are evaluated - finite-domain, on the AST, helpers of the unit inlined, memory modelled as
the bytes of a probe bundle - on bundles laid out as OSC 1.0 says (8 bytes "#bundle\\0", 8 bytes time tag, then per element
a big-endian 32-bit size and that many bytes, closed by a zero size field) for several lists of element sizes:
  rtosc_bundle_elements(b, length)   == number of elements
  rtosc_bundle_fetch(b, k)           == b + offset of element k (just behind its size field)
  rtosc_bundle_size(b, k)            == size of element k
  bundle_ring_length(ring)           == length of the bundle
The element contents are filled with 0xAA bytes, so a reader that steps to a wrong offset takes a huge size and fails.
"""
from .. import astlib as A
from .. import fdeval as FD
from ..facts import AnalysisBroken

BASE = 1 << 16
LAYOUTS = ([], [4], [8], [4, 12], [32, 4, 8], [12, 12, 12], [20, 16])


def layout_bytes(sizes):
    b = bytearray(b"#bundle\0") + bytearray(8)
    offs = []
    for s in sizes:
        b += s.to_bytes(4, "big")
        offs.append(len(b))
        b += bytes([0xAA]) * s
    total = len(b)
    b += bytes(4)                  # terminator (the writer zero-fills its destination)
    return bytes(b), offs, total


class _Mem:
    def __init__(self, data):
        self.data = data

    def deref(self, addr, n):
        k = addr - BASE
        if k < 0 or k >= len(self.data):
            raise FD.Unknown("read outside the probe bundle (offset %d)" % k, n)
        return self.data[k]


def _evaluator(unit, mem, ring_total=None):
    def call(name, vals, n):
        fns = [f for f in unit.functions.get(name, []) if unit.body(f) is not None]
        if len(fns) == 1 and name != "deref":
            return ev.call_function(unit, fns[0], vals)
        if name == "deref" and ring_total is not None:
            # deref(pos, ring): byte at pos of the two-segment ring; here all bytes are in segment 0
            pos = vals[0]
            return mem.data[pos] if 0 <= pos < ring_total else 0
        raise FD.Unknown("call to %s" % name, n)

    def hook(n, e):
        k = n.get("kind")
        if ring_total is not None and k == "MemberExpr" and n.get("name") == "len":
            base = A.strip_casts(A.kids(n)[0]) if A.kids(n) else {}
            if base.get("kind") == "ArraySubscriptExpr":
                idx = e.ev(A.kids(base)[1])
                return ring_total if idx == 0 else 0
        if k == "ArraySubscriptExpr":
            b = e.ev(A.kids(n)[0])
            i = e.ev(A.kids(n)[1])
            ct = FD.ctype(A.qtype(A.kids(n)[0]))
            if ct[0] == "ptr" and ct[1] == 1 and isinstance(b, int) and b >= BASE:
                return mem.deref(b + i, n)
        return NotImplemented
    ev = FD.Eval(deref=mem.deref, call=call, node_hook=hook, max_steps=20000)
    return ev


def run(unit):
    """-> list of (reader, layout, argument, got, expected) mismatches, number of evaluations"""
    bad = []
    n = 0
    readers = {q: unit.function(q) for q in ("rtosc_bundle_elements", "rtosc_bundle_fetch", "rtosc_bundle_size", "bundle_ring_length")}
    for sizes in LAYOUTS:
        data, offs, total = layout_bytes(sizes)
        mem = _Mem(data)

        def ev_call(q, args, ring=False):
            ev = _evaluator(unit, mem, total if ring else None)
            try:
                return ev.call_function(unit, readers[q], args)
            except FD.Unknown as e:
                if "outside the probe bundle" in str(e):
                    return "reads outside the bundle"
                raise
        for ln in (total, total + 4):
            got = ev_call("rtosc_bundle_elements", [BASE, ln])
            n += 1
            if got != len(sizes):
                bad.append({"reader": "rtosc_bundle_elements", "element_sizes": sizes, "len": ln, "returns": got, "expected": len(sizes)})
        for k, s in enumerate(sizes):
            got = ev_call("rtosc_bundle_fetch", [BASE, k])
            n += 1
            if got != BASE + offs[k]:
                bad.append({"reader": "rtosc_bundle_fetch", "element_sizes": sizes, "element": k,
                            "returns_offset": (got - BASE) if isinstance(got, int) and got else got, "expected_offset": offs[k]})
            got = ev_call("rtosc_bundle_size", [BASE, k])
            n += 1
            if got != s:
                bad.append({"reader": "rtosc_bundle_size", "element_sizes": sizes, "element": k, "returns": got, "expected": s})
        got = ev_call("bundle_ring_length", [0], ring=True)
        n += 1
        if got != total:
            bad.append({"reader": "bundle_ring_length", "element_sizes": sizes, "returns": got, "expected": total})
    return bad, n
