"""WALKERS-ON-LAYOUT: the readers of a bundle (rtosc_bundle_elements, rtosc_bundle_fetch, rtosc_bundle_size and the
ring reader bundle_ring_length) are evaluated - finite-domain, on the AST, helpers of the unit inlined, memory modelled as
the bytes of a probe bundle - on bundles laid out as OSC 1.0 says (8 bytes "#bundle\\0", 8 bytes time tag, then per element
a big-endian 32-bit size and that many bytes, closed by a zero size field) for several lists of element sizes:
  rtosc_bundle_elements(b, length)   == number of elements
  rtosc_bundle_fetch(b, k)           == b + offset of element k (just behind its size field)
  rtosc_bundle_size(b, k)            == size of element k
  bundle_ring_length(ring)           == length of the bundle
The element contents are filled with 0xAA bytes, so a reader that steps to a wrong offset takes a huge size and fails.
"""
from .. import astlib as A
from .. import fdeval as FD
from ..facts import AnalysisBroken

BASE = 1 << 16
TIMETAG = 0x0102030405F6F7F8
LAYOUTS = ([], [4], [8], [4, 12], [32, 4, 8], [12, 12, 12], [20, 16])


def layout_bytes(sizes):
    b = bytearray(b"#bundle\0") + bytearray(TIMETAG.to_bytes(8, "big"))
    offs = []
    for s in sizes:
        b += s.to_bytes(4, "big")
        offs.append(len(b))
        b += bytes([0xAA]) * s
    total = len(b)
    b += bytes(4)                  # terminator (the writer zero-fills its destination)
    return bytes(b), offs, total


class _Mem:
    def __init__(self, data):
        self.data = data

    def deref(self, addr, n):
        k = addr - BASE
        if k < 0 or k >= len(self.data):
            raise FD.Unknown("read outside the probe bundle (offset %d)" % k, n)
        return self.data[k]


def _evaluator(unit, mem, ring_total=None):
    def call(name, vals, n):
        fns = [f for f in unit.functions.get(name, []) if unit.body(f) is not None]
        if len(fns) == 1 and name != "deref":
            return ev.call_function(unit, fns[0], vals)
        if name == "deref" and ring_total is not None:
            # deref(pos, ring): byte at pos of the two-segment ring; here all bytes are in segment 0
            pos = vals[0]
            return mem.data[pos] if 0 <= pos < ring_total else 0
        raise FD.Unknown("call to %s" % name, n)

    def hook(n, e):
        k = n.get("kind")
        if ring_total is not None and k == "MemberExpr" and n.get("name") == "len":
            base = A.strip_casts(A.kids(n)[0]) if A.kids(n) else {}
            if base.get("kind") == "ArraySubscriptExpr":
                idx = e.ev(A.kids(base)[1])
                return ring_total if idx == 0 else 0
        if k == "ArraySubscriptExpr":
            b = e.ev(A.kids(n)[0])
            i = e.ev(A.kids(n)[1])
            ct = FD.ctype(A.qtype(A.kids(n)[0]))
            if ct[0] == "ptr" and ct[1] == 1 and isinstance(b, int) and b >= BASE:
                return mem.deref(b + i, n)
        return NotImplemented
    ev = FD.Eval(deref=mem.deref, call=call, node_hook=hook, max_steps=20000)
    return ev


def run(unit):
    """-> list of (reader, layout, argument, got, expected) mismatches, number of evaluations"""
    bad = []
    n = 0
    readers = {q: unit.function(q) for q in ("rtosc_bundle_elements", "rtosc_bundle_fetch", "rtosc_bundle_size", "bundle_ring_length", "rtosc_bundle_timetag")}
    for sizes in LAYOUTS:
        data, offs, total = layout_bytes(sizes)
        mem = _Mem(data)

        def ev_call(q, args, ring=False):
            ev = _evaluator(unit, mem, total if ring else None)
            try:
                return ev.call_function(unit, readers[q], args)
            except FD.Unknown as e:
                if "outside the probe bundle" in str(e):
                    return "reads outside the bundle"
                raise
        for ln in (total, total + 4):
            got = ev_call("rtosc_bundle_elements", [BASE, ln])
            n += 1
            if got != len(sizes):
                bad.append({"reader": "rtosc_bundle_elements", "element_sizes": sizes, "len": ln, "returns": got, "expected": len(sizes)})
        for k, s in enumerate(sizes):
            got = ev_call("rtosc_bundle_fetch", [BASE, k])
            n += 1
            if got != BASE + offs[k]:
                bad.append({"reader": "rtosc_bundle_fetch", "element_sizes": sizes, "element": k,
                            "returns_offset": (got - BASE) if isinstance(got, int) and got else got, "expected_offset": offs[k]})
            got = ev_call("rtosc_bundle_size", [BASE, k])
            n += 1
            if got != s:
                bad.append({"reader": "rtosc_bundle_size", "element_sizes": sizes, "element": k, "returns": got, "expected": s})
        got = ev_call("rtosc_bundle_timetag", [BASE])
        n += 1
        if got != TIMETAG:
            bad.append({"reader": "rtosc_bundle_timetag", "element_sizes": sizes, "returns": "%x" % got if isinstance(got, int) else got, "expected": "%x" % TIMETAG})
        got = ev_call("bundle_ring_length", [0], ring=True)
        n += 1
        if got != total:
            bad.append({"reader": "bundle_ring_length", "element_sizes": sizes, "returns": got, "expected": total})
    return bad, n


class _Taken(Exception):
    pass


RECOG_PROBES = [
    (b"#bundle\0" + bytes(8), True),
    (b"#bundle\0" + bytes(8) + (8).to_bytes(4, "big") + b"/a\0\0,\0\0\0", True),
    (b"#bundlX\0,\0\0\0", False),
    (b"/bundle\0,\0\0\0", False),
    (b"#bundle!\0\0\0\0,\0\0\0", False),
    (b"#bundl\0\0,\0\0\0", False),
    (b"#BUNDLE\0,\0\0\0", False),
    (b"#bundlf\0,\0\0\0", False),
    (b"/a\0\0,\0\0\0", False),
]


def recognition(unit):
    """does rtosc_message_ring_length hand exactly the buffers that start with the 8 magic bytes to bundle_ring_length?
    -> list of mismatches"""
    fn = unit.function("rtosc_message_ring_length")
    bad = []
    for data, expect in RECOG_PROBES:
        mem = _Mem(data + bytes(8))
        total = len(data)

        def call(name, vals, n, mem=mem, total=total):
            if name == "bundle_ring_length":
                raise _Taken()
            if name == "deref":
                pos = vals[0]
                return mem.data[pos] if 0 <= pos < total else 0
            fns = [f for f in unit.functions.get(name, []) if unit.body(f) is not None]
            if len(fns) == 1:
                return ev.call_function(unit, fns[0], vals)
            raise FD.Unknown("call to %s" % name, n)

        def hook(n, e, total=total):
            k = n.get("kind")
            if k == "MemberExpr" and n.get("name") == "len":
                base = A.strip_casts(A.kids(n)[0]) if A.kids(n) else {}
                if base.get("kind") == "ArraySubscriptExpr":
                    return total if e.ev(A.kids(base)[1]) == 0 else 0
            if k == "StringLiteral":
                return ("lit", A.string_literal(n))
            if k == "InitListExpr" and len(A.kids(n)) == 1 and A.string_literal(A.kids(n)[0]) is not None:
                return ("lit", A.string_literal(A.kids(n)[0]))
            if k == "ArraySubscriptExpr":
                b = e.ev(A.kids(n)[0])
                if isinstance(b, tuple) and b[0] == "lit":
                    i = e.ev(A.kids(n)[1])
                    return ord(b[1][i]) if i < len(b[1]) else 0
            if k == "UnaryExprOrTypeTraitExpr" and n.get("name") == "sizeof" and A.kids(n):
                import re as _re
                m_ = _re.search(r'\[(\d+)\]\s*$', A.qtype(A.strip(A.kids(n)[0])) or "")
                if m_:
                    return int(m_.group(1))
            return NotImplemented
        ev = FD.Eval(deref=mem.deref, call=call, node_hook=hook, max_steps=20000)
        try:
            ev.call_function(unit, fn, [0])
            taken = False
        except _Taken:
            taken = True
        if taken != expect:
            bad.append({"buffer_starts_with": data[:9].decode("latin1").replace("\0", "\\0"), "handed_to_bundle_ring_length": taken, "expected": expect})
    return bad


# ------------------------------------------------------------------------------------------------------------------ writer
BUF, ELB = 1 << 20, 1 << 24


def write_bundle(unit, sizes, cap):
    """rtosc_bundle(buffer, cap, TIMETAG, n, e0, e1, ...) interpreted: the elements are byte runs of the given sizes (element k
    filled with 0x40+k), rtosc_message_length answers with those sizes (the measuring of well-formed elements is decided
    elsewhere), the variadic arguments are handed out in order after each va_start.
    -> (returned value, bytes of the destination up to cap, stores beyond cap)"""
    fn = unit.function("rtosc_bundle")
    ps = unit.params(fn)
    buf = {}
    oob = []
    st = {}           # va_list (its declaration) -> index of the next element it hands out
    holder = {}

    def elem_of(p, n):
        k, off = divmod(p - ELB, 0x1000)
        if p < ELB or k >= len(sizes):
            raise FD.Unknown("pointer %#x is no element" % p, n)
        return k, off

    def deref(a, n):
        if BUF <= a < BUF + 0x10000:
            return buf.get(a - BUF, 0)
        k, off = elem_of(a, n)
        if off < sizes[k]:
            return 0x40 + k
        raise FD.Unknown("read behind element %d" % k, n)

    def store(a, v, n):
        if BUF <= a < BUF + 0x10000:
            if a - BUF >= cap:
                oob.append(a - BUF)
            buf[a - BUF] = v & 0xff
            return
        raise FD.Unknown("store at %#x" % a, n)

    def hook(n, ev):
        k = n.get("kind")
        def va_key(e):
            v = ev.ev(e)
            if not (isinstance(v, tuple) and len(v) == 2 and v[0] == "va"):
                raise FD.Unknown("not a va_list: %r" % (v,), e)
            return v[1]
        if k == "VAArgExpr":
            key = va_key(A.kids(n)[0])
            if key not in st:
                raise FD.Unknown("va_arg on a list that was not started", n)
            i = st[key]
            st[key] += 1
            if i >= len(sizes):
                raise FD.Unknown("more va_arg than elements", n)
            return ELB + i * 0x1000
        if k == "CallExpr" and A.callee_name(n) in ("__builtin_va_start", "va_start"):
            st[va_key(A.kids(n)[1])] = 0
            return 0
        if k == "CallExpr" and A.callee_name(n) in ("__builtin_va_copy", "va_copy"):
            src_ = va_key(A.kids(n)[2])
            if src_ not in st:
                raise FD.Unknown("va_copy of a list that was not started", n)
            st[va_key(A.kids(n)[1])] = st[src_]
            return 0
        if k == "CallExpr" and A.callee_name(n) in ("__builtin_va_end", "va_end"):
            st.pop(va_key(A.kids(n)[1]), None)
            return 0
        if k == "CallExpr" and A.callee_name(n) in ("__assert_fail",):
            return 0
        if k == "DeclRefExpr" and ("va_list" in (A.qtype(n) or "") + ((n.get("referencedDecl") or {}).get("type", {}) or {}).get("qualType", "")
                                   or "__va_list_tag" in (A.qtype(n) or "")):
            did = (n.get("referencedDecl") or {}).get("id")
            if did in ev.env and isinstance(ev.env[did], tuple):
                return ev.env[did]           # a va_list parameter: the caller's list (it is passed by reference)
            return ("va", did)
        if k == "StringLiteral":
            return A.string_literal(n)
        if k == "DeclRefExpr" and (n.get("referencedDecl") or {}).get("id") not in ev.env and "char" in (A.qtype(n) or "") and "[" in (A.qtype(n) or ""):
            # a named constant (`static const char bundle_tag[8] = "#bundle"`)
            d_ = unit.by_id.get((n.get("referencedDecl") or {}).get("id"))
            if d_ is not None and d_.get("kind") == "VarDecl" and "const" in (A.qtype(d_) or "") and A.kids(d_) and A.string_literal(A.strip_casts(A.kids(d_)[-1])) is not None:
                return A.string_literal(A.strip_casts(A.kids(d_)[-1]))
        if k == "ImplicitCastExpr" and n.get("castKind") == "ArrayToPointerDecay":
            inner = A.kids(n)[0]
            if A.string_literal(inner) is not None:
                return A.string_literal(inner)
            if A.strip_casts(inner).get("kind") == "DeclRefExpr" and "char" in (A.qtype(inner) or ""):
                v_ = ev.ev(inner)
                if isinstance(v_, str):
                    return v_
            if "__va_list_tag" in (A.qtype(inner) or "") or "va_list" in (A.qtype(inner) or ""):
                return ev.ev(inner)
        return NotImplemented

    def call(nm, vals, n):
        ev = holder["ev"]
        if nm in ("rtosc_message_length",):
            k_, off = elem_of(vals[0], n)
            if off:
                raise FD.Unknown("length of the middle of an element", n)
            return sizes[k_]
        if nm in ("memset", "__builtin_memset", "__builtin___memset_chk"):
            for i in range(min(vals[2], 0x8000)):
                store(vals[0] + i, vals[1], n)
            return vals[0]
        if nm in ("memcpy", "memmove", "__builtin_memcpy", "__builtin___memcpy_chk"):
            for i in range(vals[2]):
                src = vals[1]
                store(vals[0] + i, (ord(src[i]) if i < len(src) else 0) if isinstance(src, str) else deref(src + i, n), n)
            return vals[0]
        if nm in ("strcpy", "__builtin_strcpy", "__builtin___strcpy_chk"):
            s_ = vals[1] if isinstance(vals[1], str) else None
            if s_ is None:
                raise FD.Unknown("strcpy from memory", n)
            for i, c in enumerate(s_ + "\0"):
                store(vals[0] + i, ord(c), n)
            return vals[0]
        if nm in ("strlen",) and isinstance(vals[0], str):
            return len(vals[0])
        fns_ = [f_ for f_ in unit.functions.get(nm, []) if unit.body(f_) is not None]
        if len(fns_) == 1:
            return ev.call_function(unit, fns_[0], vals)
        raise FD.Unknown("call to %s" % nm, n)
    env = {}
    # (buffer, capacity, time tag, number of elements, ...): roles by type, the two 64-bit integers by name / order
    wide = [p for p in ps if (A.qtype(p) or "").replace(" ", "") not in ("char*", "int")]
    for p in ps:
        t = (A.qtype(p) or "").replace(" ", "")
        if t == "char*":
            env[p["id"]] = BUF
        elif t == "int":
            env[p["id"]] = len(sizes)
    if len(wide) != 2:
        raise FD.Unknown("rtosc_bundle: parameters (buffer, capacity, time tag, count) not recognised", fn)
    tt_p = [p for p in wide if "uint64" in (A.qtype(p) or "") or p.get("name") in ("tt", "timetag", "time")]
    tt_p = tt_p[0] if len(tt_p) == 1 else wide[1]
    for p in wide:
        env[p["id"]] = TIMETAG if p is tt_p else cap
    ev = FD.Eval(env=env, deref=deref, store=store, node_hook=hook, call=call, max_steps=60000)
    holder["ev"] = ev
    r = ev.call_function(unit, fn, [env[p["id"]] for p in ps])
    return r, bytes(buf.get(i, 0) for i in range(cap)), oob


def expected_bundle(sizes):
    b = bytearray(b"#bundle\0") + bytearray(TIMETAG.to_bytes(8, "big"))
    for k, s in enumerate(sizes):
        b += s.to_bytes(4, "big") + bytes([0x40 + k]) * s
    return bytes(b)
