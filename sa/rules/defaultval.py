"""DEFAULT LOOKUP: get_default_value (the string-returning overload), interpreted on a small model application, answers
with the preset-specific default `default <value of the depended port>` where the port declares one for that value -
negative, zero, multi-digit values alike -, with the plain `default` otherwise, and with the plain `default` of a port
that declares no dependency.

Model: a byte memory (local char arrays, string literals and metadata values live in it; strlen / strncat / strcat /
strcpy / strncpy / snprintf("%s") / memset work on it byte by byte, copying forwards), Ports::apropos answers by name,
port->meta()[key] by the model's metadata, Ports::collapsePath collapses `x/../y` in place, the run-time query
(helpers::get_value_from_runtime) prints the selector's value behind the path it is handed (as the library does),
and the recursion into the depended port's own default is evaluated in place.
"""
import re
from .. import astlib as A
from .. import fdeval as FD

HEAP = 1 << 24


class Mem:
    def __init__(self):
        self.b = {}
        self.top = HEAP
        self.lit = {}
        self.regions = []
        self.overflow = []

    def alloc(self, n):
        a = self.top
        self.top += (n + 64) & ~15
        self.regions.append((a, n))
        return a

    def write(self, a, c):
        """a store of the evaluated code: inside the object it addresses, or recorded as an overflow"""
        for st, sz in self.regions:
            if st <= a < st + sz:
                break
        else:
            self.overflow.append(a)
        self.b[a] = c & 0xff

    def put(self, a, s):
        for i, c in enumerate(s.encode() if isinstance(s, str) else s):
            self.b[a + i] = c
        self.b[a + len(s)] = 0

    def literal(self, s):
        if s not in self.lit:
            a = self.alloc(len(s) + 1)
            self.put(a, s)
            self.lit[s] = a
        return self.lit[s]

    def byte(self, a, n=None):
        if a < HEAP or a >= self.top:
            raise FD.Unknown("read at %#x" % a, n)
        return self.b.get(a, 0)

    def cstr(self, a, n=None):
        out = []
        while True:
            c = self.byte(a + len(out), n)
            if not c:
                return bytes(out).decode("latin-1")
            out.append(c)
            if len(out) > 9000:
                raise FD.Unknown("unterminated string", n)


# the model application: port name -> metadata
PORTS = {
    "sel::i": {"parameter": None, "default": "0"},
    "gain::i": {"parameter": None, "default depends": "sel", "default -1": "100", "default 0": "10", "default 12": "120", "default -2147483648": "1", "default": "50"},
    "plain::i": {"parameter": None, "default": "7"},
    # short names: the selector's printed value lands close behind the path in the shared buffer
    "md::i": {"parameter": None, "default": "0"},
    "lo::i": {"parameter": None, "default depends": "md", "default 1": "100", "default 12": "120", "default": "50"},
    "p::i": {"parameter": None, "default": "0"},
    "a::i": {"parameter": None, "default depends": "p", "default 1": "101", "default -12": "112", "default": "51"},
    "nodefault::i": {"parameter": None},
}
# (port, run-time value of the selector or None for "no run-time object", expected result)
CASES = [
    ("gain::i", "0", "10"), ("gain::i", "-1", "100"), ("gain::i", "12", "120"), ("gain::i", "7", "50"), ("gain::i", "-2147483648", "1"), ("gain::i", "2147483647", "50"),
    ("gain::i", None, "10"),               # without a run-time object the selector's own default (0) selects
    ("lo::i", "1", "100"), ("lo::i", "12", "120"), ("lo::i", "3", "50"), ("a::i", "1", "101"), ("a::i", "-12", "112"), ("a::i", "0", "51"),
    ("plain::i", "0", "7"), ("plain::i", None, "7"), ("nodefault::i", "0", None),
]


def make_libc(mem):
    """(text, libc) over a Mem: text(v, n) reads a C string operand, libc(name, values, node) models the string functions
    of the C library on the byte memory (NotImplemented for a name it does not know)"""
    def text(v, n):
        if isinstance(v, str):
            return v
        if isinstance(v, int) and v >= HEAP:
            return mem.cstr(v, n)
        raise FD.Unknown("not a string: %r" % (v,), n)

    def libc(nm, v, n):
        nm = nm.replace("__builtin___", "").replace("__builtin_", "").replace("_chk", "")
        if nm == "strlen":
            return len(text(v[0], n))
        if nm in ("strncat", "strcat"):
            d = v[0] + len(mem.cstr(v[0], n))
            lim = v[2] if nm == "strncat" else 1 << 30
            src = v[1] if isinstance(v[1], int) else mem.literal(v[1])
            i = 0
            while i < lim:
                c = mem.byte(src + i, n)
                if not c:
                    break
                mem.write(d + i, c)
                i += 1
            mem.write(d + i, 0)
            return v[0]
        if nm in ("strcpy", "strncpy"):
            src = v[1] if isinstance(v[1], int) else mem.literal(v[1])
            lim = v[2] if nm == "strncpy" else 1 << 30
            i = 0
            while i < lim:
                c = mem.byte(src + i, n)
                mem.write(v[0] + i, c)
                i += 1
                if not c:
                    break
            return v[0]
        if nm == "memset":
            for i in range(min(v[2], 9000)):
                mem.write(v[0] + i, v[1])
            return v[0]
        if nm == "snprintf":
            fmt = text(v[2], n)
            args = list(v[3:])
            out = ""
            i = 0
            while i < len(fmt):
                if fmt[i] == "%" and i + 1 < len(fmt):
                    c = fmt[i + 1]
                    if c == "s":
                        out += text(args.pop(0), n)
                    elif c == "d" or c == "i":
                        out += str(args.pop(0))
                    elif c == "%":
                        out += "%"
                    else:
                        raise FD.Unknown("snprintf conversion %%%s" % c, n)
                    i += 2
                else:
                    out += fmt[i]
                    i += 1
            cut = out[:max(0, v[1] - 1)]
            if v[1] > 0:
                for i_, c_ in enumerate(cut.encode("latin-1") + b"\0"):
                    mem.write(v[0] + i_, c_)
            return len(out)
        if nm in ("memcpy", "memmove"):
            src = v[1] if isinstance(v[1], int) else mem.literal(v[1])
            data = [mem.byte(src + i, n) for i in range(v[2])]
            for i, c in enumerate(data):
                mem.write(v[0] + i, c)
            return v[0]
        if nm in ("strchr", "strrchr", "strchrnul"):
            a = v[0] if isinstance(v[0], int) else mem.literal(v[0])
            t_ = mem.cstr(a, n)
            c_ = v[1] & 0xff
            i_ = (t_.rfind(chr(c_)) if nm == "strrchr" else t_.find(chr(c_))) if c_ else len(t_)
            if i_ < 0:
                return a + len(t_) if nm == "strchrnul" else 0
            return a + i_
        if nm in ("strcspn", "strspn"):
            a = v[0] if isinstance(v[0], int) else mem.literal(v[0])
            t_, set_ = mem.cstr(a, n), text(v[1], n)
            i_ = 0
            while i_ < len(t_) and ((t_[i_] in set_) == (nm == "strspn")):
                i_ += 1
            return i_
        if nm == "strncmp":
            a, b = text(v[0], n)[:v[2]], text(v[1], n)[:v[2]]
            return 0 if a == b else (1 if a > b else -1)
        if nm == "strstr":
            a = v[0] if isinstance(v[0], int) else mem.literal(v[0])
            i_ = mem.cstr(a, n).find(text(v[1], n))
            return a + i_ if i_ >= 0 else 0
        if nm == "strcmp":
            a, b = text(v[0], n), text(v[1], n)
            return 0 if a == b else (1 if a > b else -1)
        if nm in ("isdigit",):
            return int(48 <= v[0] <= 57)
        return NotImplemented

    return text, libc


def evaluate(unit, port, runtime_value):
    fns = [f for f in unit.functions.get("get_default_value", []) + [f for q, fl in unit.functions.items() if q.endswith("::get_default_value") for f in fl]
           if unit.body(f) is not None and "char" in (A.stype(f) or "").split("(")[0]]
    fns = list({f["id"]: f for f in fns}.values())
    if len(fns) != 1:
        raise FD.Unknown("the overload of get_default_value that returns the printed default was not found (%d)" % len(fns), None)
    fn = fns[0]
    mem = Mem()
    vals = {}
    for p, m in PORTS.items():
        for k, v in m.items():
            if v is not None:
                vals[(p, k)] = mem.literal(v) if False else None
    # metadata values get their own copies (distinct addresses per port and key)
    for key in list(vals):
        a = mem.alloc(len(PORTS[key[0]][key[1]]) + 1)
        mem.put(a, PORTS[key[0]][key[1]])
        vals[key] = a
    arrays = {}
    depth = {"n": 0}

    def port_by_name(name):
        base = name.split(":")[0].strip("/")
        for p in PORTS:
            if p.split(":")[0] == base:
                return p
        return None

    text, libc = make_libc(mem)

    def addr_of_array(d):
        if d["id"] not in arrays:
            m = re.search(r"\[(\d+)\]", A.qtype(d) or "")
            size = int(m.group(1)) if m else 8192
            a = mem.alloc(size)
            arrays[d["id"]] = (a, size)
            init = A.kids(d)
            if init:
                lit = A.string_literal(A.strip_casts(init[-1]))
                if lit is None and init[-1].get("kind") == "InitListExpr" and A.kids(init[-1]):
                    lit = A.string_literal(A.strip_casts(A.kids(init[-1])[0]))
                if lit is not None:
                    mem.put(a, lit)
        return arrays[d["id"]][0]

    def hook(n, ev):
        k = n.get("kind")
        ks = A.kids(n)
        if k in ("ExprWithCleanups", "MaterializeTemporaryExpr", "CXXBindTemporaryExpr", "CXXFunctionalCastExpr") and ks:
            return ev.ev(ks[-1])
        if k == "StringLiteral":
            return mem.literal(A.string_literal(n))
        if k == "ImplicitCastExpr" and n.get("castKind") == "ArrayToPointerDecay" and ks:
            inner = A.strip_casts(ks[0])
            if A.string_literal(inner) is not None:
                return mem.literal(A.string_literal(inner))
            if inner.get("kind") == "DeclRefExpr":
                d = unit.by_id.get((inner.get("referencedDecl") or {}).get("id"))
                if d is not None and d.get("kind") == "VarDecl" and "[" in (A.qtype(d) or ""):
                    return addr_of_array(d)
            return NotImplemented
        if k == "DeclRefExpr":
            rd = n.get("referencedDecl") or {}
            d = unit.by_id.get(rd.get("id"))
            if d is not None and d.get("kind") == "VarDecl" and "[" in (A.qtype(d) or "") and "char" in (A.qtype(d) or ""):
                return addr_of_array(d)
            if rd.get("id") in ev.env:
                return NotImplemented
            if d is not None and d.get("kind") == "VarDecl" and A.kids(d) and ("const" in (A.qtype(d) or "") or "constexpr" in str(d.get("constexpr", ""))):
                return ev.ev(A.kids(d)[-1])          # named constants of the unit / function (buffersize, the annotations)
            return NotImplemented
        if k in ("CXXConstructExpr", "CXXTemporaryObjectExpr") and "MetaContainer" in (A.qtype(n) or "") and len(ks) == 1:
            return ev.ev(ks[0])
        if k == "BinaryOperator" and n.get("opcode") in ("&", "!=", "==") and any(A.callee_name(c_) == "__ctype_b_loc" for c_ in A.calls_in(n)) and n.get("opcode") == "&":
            sub = [x for x in A.walk(ks[0]) if x.get("kind") == "ArraySubscriptExpr" and any(A.callee_name(c_) == "__ctype_b_loc" for c_ in A.calls_in(A.kids(x)[0]))]
            names = [(x.get("referencedDecl") or {}).get("name") for x in A.walk(ks[1]) if x.get("kind") == "DeclRefExpr"]
            if len(sub) == 1 and len(names) == 1:
                c = ev.ev(A.kids(sub[0])[1]) & 0xff
                ch = chr(c)
                table = {"_ISdigit": ch.isdigit() and c < 128, "_ISspace": ch in " \t\n\v\f\r", "_ISalpha": ch.isalpha() and c < 128, "_ISalnum": ch.isalnum() and c < 128,
                         "_ISprint": 32 <= c < 127, "_ISupper": "A" <= ch <= "Z", "_ISlower": "a" <= ch <= "z", "_ISxdigit": ch in "0123456789abcdefABCDEF", "_ISpunct": 32 < c < 127 and not ch.isalnum()}
                if names[0] in table:
                    return int(table[names[0]])
            raise FD.Unknown("ctype macro", n)
        if k == "CXXMemberCallExpr":
            cal = A.strip_casts(ks[0])
            nm = cal.get("name") or ""
            if nm == "apropos":
                p = port_by_name(text(ev.ev(ks[1]), n))
                return ("port", p) if p else 0
            if nm == "meta":
                b = ev.ev(A.kids(cal)[0])
                if isinstance(b, tuple) and b[0] == "port":
                    return ("meta", b[1])
                raise FD.Unknown("meta() of %r" % (b,), n)
            raise FD.Unknown("member call %s" % nm, n)
        if k == "CXXOperatorCallExpr":
            op = (A.strip_casts(ks[0]).get("referencedDecl") or {}).get("name") or A.src(ks[0])
            if op == "operator[]":
                a = ev.ev(ks[1])
                if isinstance(a, tuple) and a[0] == "meta":
                    key = text(ev.ev(ks[2]), n)
                    if key in PORTS[a[1]]:
                        return vals.get((a[1], key)) or mem.literal("")
                    return 0
            raise FD.Unknown("operator call %s" % op, n)
        if k == "CallExpr":
            nm = A.callee_name(n) or ""
            if nm in ("__assert_fail", "printf", "fprintf"):
                return 0
            if nm == "collapsePath":
                a = ev.ev(ks[1])
                parts = []
                for part in mem.cstr(a, n).split("/"):
                    if part == "..":
                        if parts:
                            parts.pop()
                    elif part and part != ".":
                        parts.append(part)
                s_ = "/".join(parts)
                # the library collapses towards the end of the string: the result ends where the input ended
                end = a + len(mem.cstr(a, n))
                start = end - len(s_)
                mem.put(start, s_)
                return start
            if nm == "get_value_from_runtime":
                if runtime_value is None:
                    raise FD.Unknown("run-time query without a run-time object", n)
                v = [ev.ev(x) for x in ks[1:]]
                ptrs = [x for x in v if isinstance(x, int) and x >= HEAP]
                path = [x for x in ptrs if mem.cstr(x, n) and port_by_name(mem.cstr(x, n))]
                if len(path) != 1:
                    raise FD.Unknown("run-time query: the path buffer was not recognised", n)
                if port_by_name(mem.cstr(path[0], n)) not in ("sel::i", "md::i", "p::i"):
                    raise FD.Unknown("run-time query of %r" % mem.cstr(path[0], n), n)
                out = path[0] + len(mem.cstr(path[0], n))
                # the library zeroes 8 bytes behind the path, builds the query there and prints the reply over it
                mem.put(out, runtime_value)
                return out
            v = [ev.ev(x) for x in ks[1:]]
            r = libc(nm, v, n)
            if r is not NotImplemented:
                return r
            d = A.callee_decl(n) or {}
            f = unit.by_id.get(d.get("id"))
            if f is None or unit.body(f) is None:
                cands = [g for q, fl in unit.functions.items() if q.split("::")[-1] == nm for g in fl if unit.body(g) is not None and len(unit.params(g)) == len(v)]
                f = cands[0] if len(cands) == 1 else None
            if f is not None and unit.body(f) is not None:
                depth["n"] += 1
                if depth["n"] > 4:
                    raise FD.Unknown("recursion too deep", n)
                try:
                    # a callee has its own local arrays
                    saved = dict(arrays)
                    for did in list(arrays):
                        del arrays[did]
                    try:
                        return ev.call_function(unit, f, v)
                    finally:
                        arrays.clear()
                        arrays.update(saved)
                finally:
                    depth["n"] -= 1
            raise FD.Unknown("call to %s" % nm, n)
        if k in ("GNUNullExpr", "CXXNullPtrLiteralExpr"):
            return 0
        return NotImplemented

    def deref(a, n):
        return mem.byte(a, n)

    def store(a, v, n):
        if a < HEAP or a >= mem.top:
            raise FD.Unknown("store at %#x" % a, n)
        mem.write(a, v)
    ps = unit.params(fn)
    args = []
    seen_ports = False
    for p in ps:
        t = (A.qtype(p) or "")
        if "Ports" in t:
            args.append(("ports",))
        elif "Port" in t and "*" in t:
            args.append(0)                        # no hint: the port is looked up by name
        elif "void" in t:
            args.append(1 if runtime_value is not None else 0)
        elif "char" in t and "*" in t:
            args.append(mem.literal(port))
        elif FD.ctype(t)[0] == "int":
            args.append(1)                        # may recurse once
        else:
            raise FD.Unknown("get_default_value: parameter %s" % p.get("name"), fn)
    ev = FD.Eval(deref=deref, store=store, node_hook=hook, max_steps=60000)
    r = ev.call_function(unit, fn, args)
    if mem.overflow:
        return ("overflow", len(mem.overflow))
    if r in (0, None):
        return None
    return text(r, fn)


def check(unit):
    bad = []
    for port, rt, want in CASES:
        got = evaluate(unit, port, rt)
        if got != want:
            bad.append({"port": port, "selector_value": rt if rt is not None else "(no run-time object: the selector's default, 0)", "metadata": {k: v for k, v in PORTS[port].items() if v is not None},
                        "returns": got, "expected": want})
    return bad, len(CASES)
