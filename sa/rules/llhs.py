"""LEFT NEIGHBOUR OF A RANGE (scanner): when rtosc_scan_arg_val meets `lhs ... rhs` it counts on from the value before lhs.
The statements that choose that value - everything the first and the last argument of its delta_from_arg_vals call are
computed from - are evaluated on slot layouts of the arguments already scanned:

   the previous argument is a scalar               -> that scalar (the slot before lhs)
   ... is a repetition `N x v` (range header, v)   -> v (the slot before lhs)
   ... is a range with delta (header, delta, start) -> the last element of that range
   ... is an array, or there is none               -> no value to count on from ("useless")

whatever lies further to the left (in particular a repetition two arguments back, whose header then stands three
slots before lhs exactly where the header of a delta range would).

Slots live at BASE + 24*k; `->type` / `[k].type` read the layout; rtosc_av_rep_num / _has_delta / rtosc_av_arr_len answer
from it; rtosc_arg_val_range_arg(header, i, &tmp) is the token ("element", header slot, i); next_arg_offset and
types_match are evaluated in place; rtosc_arg_vals_cmp_single says "different" (lhs differs from its neighbour).
"""
from .. import astlib as A
from .. import fdeval as FD

BASE = 1 << 20
SLOT = 24

# previous arguments, left to right: ("s",) scalar, ("x", n) repetition without delta, ("r", n) range with delta, ("a", n) array
LAYOUTS = [
    ("nothing before", [], ("useless",)),
    ("a scalar", [("s",)], ("slot", -1)),
    ("two scalars", [("s",), ("s",)], ("slot", -1)),
    ("a repetition", [("x", 5)], ("slot", -1)),
    ("a range with delta", [("r", 4)], ("element", -3, 3)),
    ("a repetition, then a scalar", [("x", 5), ("s",)], ("slot", -1)),
    ("a range with delta, then a scalar", [("r", 4), ("s",)], ("slot", -1)),
    ("a scalar, then a repetition", [("s",), ("x", 3)], ("slot", -1)),
    ("a range with delta, then a repetition", [("r", 4), ("x", 3)], ("slot", -1)),
    ("a repetition, then a range with delta", [("x", 2), ("r", 3)], ("element", -3, 2)),
    ("an array", [("a", 2)], ("useless",)),
    ("a scalar, then an array", [("s",), ("a", 1)], ("useless",)),
    ("an array, then a scalar", [("a", 2), ("s",)], ("slot", -1)),
]


def _slots(prev):
    out = []
    for a in prev:
        if a[0] == "s":
            out.append(("i", {}))
        elif a[0] == "x":
            out.append(("-", {"num": a[1], "delta": 0}))
            out.append(("i", {}))
        elif a[0] == "r":
            out.append(("-", {"num": a[1], "delta": 1}))
            out.append(("i", {}))
            out.append(("i", {}))
        elif a[0] == "a":
            out.append(("a", {"len": a[1]}))
            out.extend([("i", {})] * a[1])
    out.append(("i", {}))              # lhs
    return out


def _find_call(unit, fn):
    calls = [c for c in A.calls_in(unit.body(fn), "delta_from_arg_vals")]
    if len(calls) != 1 or len(A.kids(calls[0])) < 6:
        raise FD.Unknown("rtosc_scan_arg_val: the one call of delta_from_arg_vals(neighbour, lhs, rhs, delta, useless) was not found", fn)
    return calls[0]


def _slice(unit, fn, call):
    """the statements, in source order, of the block around the call that compute its first and last argument"""
    want = set()
    for a in (A.kids(call)[1], A.kids(call)[5]):
        for y in A.walk(a):
            if y.get("kind") == "DeclRefExpr" and (y.get("referencedDecl") or {}).get("kind") == "VarDecl":
                want.add(y["referencedDecl"]["id"])
    # the compound statement that holds the declarations
    blocks = [a for a in unit.ancestors(call) if a.get("kind") == "CompoundStmt"]
    params = {p["id"] for p in unit.params(fn)}

    def assigned(st):
        out = set()
        for y in A.walk(st):
            if y.get("kind") == "VarDecl":
                out.add(y["id"])
            elif y.get("kind") in ("BinaryOperator", "CompoundAssignOperator") and y.get("opcode", "").endswith("=") and y.get("opcode") not in ("==", "!=", "<=", ">="):
                r = A.ref_id(A.kids(y)[0])
                if r:
                    out.add(r)
            elif y.get("kind") == "UnaryOperator" and y.get("opcode") in ("++", "--"):
                r = A.ref_id(A.kids(y)[0])
                if r:
                    out.add(r)
        return out

    def refs(st):
        return {y["referencedDecl"]["id"] for y in A.walk(st) if y.get("kind") == "DeclRefExpr" and (y.get("referencedDecl") or {}).get("kind") == "VarDecl"}
    chosen = []
    for blk in blocks:
        sts = A.kids(blk)
        # statements before the one that contains the call
        idx = next((i for i, s_ in enumerate(sts) if any(y is call for y in A.walk(s_))), None)
        if idx is None:
            continue
        changed = True
        mine = []
        while changed:
            changed = False
            for s_ in sts[:idx]:
                if s_ in mine:
                    continue
                if assigned(s_) & want:
                    # a statement that runs the scanner itself (rhs) or moves the text cursor is no part of the choice
                    if any(A.callee_name(c) in ("rtosc_scan_arg_val", "insert_arg_range") for c in A.calls_in(s_)):
                        continue
                    mine.append(s_)
                    want |= refs(s_) - params
                    changed = True
        chosen = [s_ for s_ in sts[:idx] if s_ in mine] + chosen
    if not chosen:
        raise FD.Unknown("rtosc_scan_arg_val: nothing computes the neighbour handed to delta_from_arg_vals", call)
    return chosen


def evaluate(unit, prev):
    """-> ("useless",) | ("slot", offset relative to lhs) | ("element", header offset relative to lhs, index)"""
    fn = unit.function("rtosc_scan_arg_val")
    call = _find_call(unit, fn)
    stmts = _slice(unit, fn, call)
    slots = _slots(prev)
    lhs = len(slots) - 1
    ps = unit.params(fn)
    argp = [p for p in ps if "rtosc_arg_val_t" in (A.qtype(p) or "") and "*" in (A.qtype(p) or "")]
    before = [p for p in ps if p.get("name") in ("args_before",)]
    if len(argp) != 1:
        raise FD.Unknown("rtosc_scan_arg_val: the argument cursor was not recognised", fn)
    if len(before) != 1:
        ints = [p for p in ps if FD.ctype(A.qtype(p))[0] == "int" and any(
            y.get("kind") == "DeclRefExpr" and (y.get("referencedDecl") or {}).get("id") == p["id"] for s_ in stmts for y in A.walk(s_))]
        if len(ints) != 1:
            raise FD.Unknown("rtosc_scan_arg_val: the count of values before the cursor was not recognised", fn)
        before = ints

    def slot_at(addr, n):
        if isinstance(addr, tuple) and addr[0] == "element":
            return ("i", {})
        k, rem = divmod(addr - BASE, SLOT) if isinstance(addr, int) else (None, 1)
        if rem or k is None or not 0 <= k < len(slots):
            raise FD.Unknown("slot address %r (of %d slots)" % (addr, len(slots)), n)
        return slots[k]

    def designated(e, ev):
        """address of the value an expression designates (`p->`, `p[k].`, `(*p).`, a struct local copied from *arg)"""
        e0 = A.strip_casts(e)
        if e0.get("kind") == "ArraySubscriptExpr":
            return ev.ev(A.kids(e0)[0]) + SLOT * ev.ev(A.kids(e0)[1])
        if e0.get("kind") == "UnaryOperator" and e0.get("opcode") == "*":
            return ev.ev(A.kids(e0)[0])
        if e0.get("kind") == "DeclRefExpr" and "rtosc_arg_val_t" in (A.qtype(e0) or "") and "*" not in (A.qtype(e0) or ""):
            v = ev.ev(e0)                     # a local copy of a value (`lhsarg = *arg`)
            if isinstance(v, tuple) and v[0] == "valat":
                return v[1]
            raise FD.Unknown("struct local %r" % (v,), e)
        raise FD.Unknown("value designator %s" % e0.get("kind"), e)

    def hook(n, ev):
        k = n.get("kind")
        ks = A.kids(n)
        if k == "MemberExpr" and n.get("name") == "type" and ks:
            addr = ev.ev(ks[0]) if n.get("isArrow") else designated(ks[0], ev)
            return ord(slot_at(addr, n)[0])
        if k == "UnaryOperator" and n.get("opcode") == "*" and "rtosc_arg_val_t" in (A.qtype(ks[0]) or ""):
            return ("valat", ev.ev(ks[0]))
        if k == "UnaryOperator" and n.get("opcode") == "&":
            o = A.strip_casts(ks[0])
            if o.get("kind") == "DeclRefExpr" and "rtosc_arg_val_t" in (A.qtype(o) or ""):
                rid = (o.get("referencedDecl") or {}).get("id")
                v = ev.env.get(rid)
                if isinstance(v, tuple) and v[0] == "valat":
                    return v[1]               # the address of a copy stands for the value it copies
                return ("scratch", rid)
            return NotImplemented
        if k == "BinaryOperator" and n.get("opcode") in ("<", ">", "<=", ">=", "==", "!="):
            return NotImplemented
        if k == "CallExpr":
            nm = A.callee_name(n)
            args = ks[1:]
            if nm in ("rtosc_av_rep_num", "rtosc_av_rep_has_delta", "rtosc_av_arr_len"):
                t, info = slot_at(ev.ev(args[0]), n)
                key = {"rtosc_av_rep_num": "num", "rtosc_av_rep_has_delta": "delta", "rtosc_av_arr_len": "len"}[nm]
                if key not in info:
                    # asked of a slot that is no header of that kind: what the library reads there is the value's bits
                    return 7
                return info[key]
            if nm == "rtosc_arg_val_range_arg":
                h = ev.ev(args[0])
                i = ev.ev(args[1])
                if not isinstance(h, int):
                    raise FD.Unknown("range element of %r" % (h,), n)
                return ("element", (h - BASE) // SLOT - lhs, i)
            if nm == "rtosc_arg_vals_cmp_single":
                return 1                                # lhs differs from its neighbour
            if nm in ("__assert_fail",):
                return 0
            fns = [f for f in unit.functions.get(nm, []) if unit.body(f) is not None]
            if len(fns) == 1:
                return ev.call_function(unit, fns[0], [ev.ev(a) for a in args])
            raise FD.Unknown("call to %s" % nm, n)
        return NotImplemented
    env = {argp[0]["id"]: BASE + SLOT * lhs, before[0]["id"]: lhs}
    ev = FD.Eval(env=env, node_hook=hook, max_steps=6000)
    for s_ in stmts:
        ev.run(s_)
    useless = ev.ev(A.kids(call)[5])
    if useless:
        return ("useless",)
    v = ev.ev(A.kids(call)[1])
    if isinstance(v, tuple) and v[0] == "element":
        return v
    if isinstance(v, int) and (v - BASE) % SLOT == 0:
        return ("slot", (v - BASE) // SLOT - lhs)
    raise FD.Unknown("neighbour %r" % (v,), call)


def check(unit):
    bad = []
    for name, prev, want in LAYOUTS:
        got = evaluate(unit, prev)
        if got != want:
            bad.append({"before_lhs": name, "counts_on_from": list(got), "expected": list(want)})
    return bad, len(LAYOUTS)
