"""SLOT VALUE -> PARAMETER MESSAGE: AutomationMgr::setSlotSub evaluated as a whole function (helpers of the unit in place)
on a model automation: end points a / b of the mapping, bounds [LO, HI], type tag, linear or logarithmic scale.

The automation is reached through `slots[i].automations[j]` (directly, through a reference local, or as the reference
parameter of a helper): member chains are resolved to the model's leaves, everything else of the manager that the
function reads (nslots, per_slot) is 4.  rtosc_message(...) is recorded (type string, arguments); monotone library
functions (roundf, expf, ...) are the identity, applications of exp are counted.

Decided per tag and scale over slot values whose mapped value lies below, on, inside and above the bounds:
   'i' / 'f': exactly one message of that tag carrying clamp(value*(b-a)+a, LO, HI) - rounded to the nearest integer for 'i' -, through exp exactly when the scale
              is logarithmic (the bounds of such a parameter are kept as logarithms);
   'T':       exactly one message, "T" or "F" without argument;
   a tag the function does not know, or an unused automation: no message.
"""
from .. import astlib as A
from .. import fdeval as FD

MONOTONE = {"roundf", "expf", "round", "exp", "floorf", "ceilf", "lroundf", "lround", "floor", "ceil", "rintf", "nearbyintf"}
# (end points a, b of the mapping, bounds lo, hi): a positive range and one that reaches below zero
SETS = ((1.0, 13.0, 2.0, 10.0), (-7.0, 5.0, -4.0, 3.0))
VALUES = (-0.25, 0.0, 0.125, 0.375, 0.5, 0.625, 0.71875, 0.75, 1.0)      # mapped (first set): -2, 1, 2.5, 5.5, 7, 8.5, 9.625, 10, 13; (second): -10, -7, -5.5, -2.5, -1, 0.5, 1.625, 2, 5


def c_round(nm, v):
    """the C library's rounding functions on a float value"""
    import math
    if not isinstance(v, (int, float)) or v != v or v in (float("inf"), float("-inf")):
        return v
    if nm in ("roundf", "round", "lroundf", "lround"):
        return float(math.floor(abs(v) + 0.5)) * (1.0 if v >= 0 else -1.0)        # halves away from zero
    if nm in ("floorf", "floor"):
        return float(math.floor(v))
    if nm in ("ceilf", "ceil"):
        return float(math.ceil(v))
    if nm in ("rintf", "nearbyintf"):
        return float(round(v))                                                      # halves to even (default rounding mode)
    return v


def evaluate(unit, tag, value, scale, used=1, pset=SETS[0]):
    """-> (messages [(type string, [arguments])], number of exp applications)"""
    fn = unit.function("AutomationMgr::setSlotSub")
    ps = unit.params(fn)
    if len(ps) != 3:
        raise FD.Unknown("setSlotSub: parameters (slot, sub, value) not recognised", fn)
    A_, B_, LO, HI = pset
    leaves = {("used",): used, ("active",): 1, ("param_path",): "/path", ("param_min",): LO, ("param_max",): HI, ("param_type",): ord(tag),
              ("map", "control_scale"): scale, ("map", "upoints"): 2, ("map", "npoints"): 4, ("map", "gain"): 100.0, ("map", "offset"): 0.0,
              ("map", "control_points", 0): 0.0, ("map", "control_points", 1): A_, ("map", "control_points", 2): 1.0, ("map", "control_points", 3): B_}
    msgs = []
    exps = [0]

    def resolve(path, n):
        if path == ("nslots",) or path == ("per_slot",):
            return 4
        if path and path[0] == "slots":
            if "automations" in path:
                k = path.index("automations")
                if len(path) == k + 1:
                    return ("ref", path)
                suf = path[k + 2:]
                if suf in leaves:
                    return leaves[suf]
                if any(l_[:len(suf)] == suf for l_ in leaves):
                    return ("ref", path)
                raise FD.Unknown("member %s of the automation" % ".".join(str(x) for x in suf), n)
            if len(path) <= 2:
                return ("ref", path)
            if path[2:] == ("used",) or path[2:] == ("active",):
                return 1
        raise FD.Unknown("member %s" % ".".join(str(x) for x in path), n)

    def chain(n, ev):
        """path of a member / subscript chain rooted at this or at a reference token, or None"""
        parts = []
        e = n
        while True:
            k = e.get("kind")
            ks = A.kids(e)
            if k == "MemberExpr":
                parts.append(e.get("name"))
                if not ks:
                    return None
                e = ks[0]
            elif k == "ArraySubscriptExpr":
                idx = ev.ev(ks[1])
                if not isinstance(idx, int):
                    return None
                parts.append(idx)
                e = ks[0]
            elif k in ("ImplicitCastExpr", "ParenExpr") and ks and e.get("castKind") in (None, "NoOp", "ArrayToPointerDecay", "LValueToRValue"):
                e = ks[0]
            elif k == "CXXThisExpr":
                return tuple(reversed(parts))
            elif k == "DeclRefExpr":
                v = ev.env.get((e.get("referencedDecl") or {}).get("id"))
                if isinstance(v, tuple) and v and v[0] == "ref":
                    return v[1] + tuple(reversed(parts))
                return None
            else:
                return None

    def hook(n, ev):
        k = n.get("kind")
        if k in ("MemberExpr", "ArraySubscriptExpr"):
            if k == "MemberExpr" and n.get("name") == "backend":
                return 0
            p = chain(n, ev)
            if p is None:
                return NotImplemented
            return resolve(p, n)
        if k == "StringLiteral":
            return A.string_literal(n)
        if k == "InitListExpr":
            return ("buffer",)
        if k in ("CXXMemberCallExpr", "CXXOperatorCallExpr") and A.src(n).replace(" ", "").startswith(("backend", "this->backend")):
            return 0                                    # `if(backend)` / `backend(msg)`: no consumer attached
        return NotImplemented

    def call(name, vals, n):
        nm = (name or "").replace("__builtin_", "").replace("std::", "")
        if nm == "rtosc_message":
            if len(vals) < 4 or not isinstance(vals[3], str):
                raise FD.Unknown("rtosc_message with a type string that is no literal", n)
            msgs.append((vals[3], list(vals[4:])))
            return 16
        if nm in MONOTONE and len(vals) == 1:
            if nm.startswith("exp"):
                exps[0] += 1
                return vals[0]              # exp is tracked, not computed: the bounds of the model are no logarithms
            return c_round(nm, vals[0])
        fns = [f for f in unit.functions.get(name, []) if unit.body(f) is not None]
        if not fns:
            fns = [f for q, fl in unit.functions.items() if q.endswith("::" + str(name)) for f in fl if unit.body(f) is not None]
        if len(fns) == 1:
            return ev.call_function(unit, fns[0], vals)
        raise FD.Unknown("call to %s" % name, n)
    ev = FD.Eval(node_hook=hook, call=call, max_steps=3000)
    ev.call_function(unit, fn, [0, 0, float(value)])
    return msgs, exps[0]


def check(unit):
    """-> {tag: {"bad": [...], "bad_exp": [...], "cases": n}} for 'i', 'f', 'T', plus "other"; raises FD.Unknown"""
    out = {}
    for tag in "if":
        bad, badx, n = [], [], 0
        for pset in SETS:
            A_, B_, LO, HI = pset
            for scale in (0, 1):
                for v in VALUES:
                    n += 1
                    mapped = v * (B_ - A_) + A_
                    want = min(max(mapped, LO), HI)
                    if tag == "i":
                        want = c_round("roundf", want)            # an integer parameter gets the nearest integer
                    msgs, nexp = evaluate(unit, tag, v, scale, pset=pset)
                    got = msgs[0][1][0] if len(msgs) == 1 and msgs[0][0] == tag and len(msgs[0][1]) == 1 else None
                    ok = got is not None and got == got and float(got) == want
                    if not ok:
                        bad.append({"slot_value": v, "mapped": mapped, "bounds": [LO, HI], "log_scale": scale, "messages": [[m[0], m[1]] for m in msgs][:3], "expected": want})
                    if nexp != scale:
                        badx.append({"log_scale": scale, "mapped": mapped, "exp_applied": nexp})
        out[tag] = {"bad": bad, "bad_exp": badx, "cases": n}
    bad, n = [], 0
    for v in VALUES:
        n += 1
        msgs, _ = evaluate(unit, "T", v, 0)
        if not (len(msgs) == 1 and msgs[0][0] in ("T", "F") and not msgs[0][1]):
            bad.append({"slot_value": v, "messages": [[m[0], m[1]] for m in msgs][:3]})
    out["T"] = {"bad": bad, "cases": n}
    bad = []
    msgs, _ = evaluate(unit, "c", 0.5, 0)
    if msgs:
        bad.append({"tag": "c", "messages": [[m[0], m[1]] for m in msgs][:3]})
    msgs, _ = evaluate(unit, "f", 0.5, 0, used=0)
    if msgs:
        bad.append({"unused automation": True, "messages": [[m[0], m[1]] for m in msgs][:3]})
    out["other"] = {"bad": bad, "cases": 2}
    return out
