"""G3a - interprocedural effect analysis on the joined -O0 IR call graph.

For a root function, every function reachable through direct calls is visited;
the analysis reports
  * a call to a forbidden primitive (allocator, lock, throw, static-init guard,
    copying of std::function / std::string / std::vector),
  * a call to a declaration-only function that is not in the allow-list,
  * an indirect call that no policy entry explains.
The result for a root is a list of (kind, path) where path is the list of call
edges root -> ... -> offending call, each with file:line.
"""
import re

FORBIDDEN_RAW = [
    (r'^(malloc|calloc|realloc|free|posix_memalign|aligned_alloc|memalign|valloc|pvalloc|strdup|strndup)$', "heap allocator"),
    (r'^_Z(nw|na|dl|da)', "operator new/delete"),
    (r'^pthread_(mutex|rwlock|spin|cond)_', "pthread lock primitive"),
    (r'^__cxa_allocate_exception$', "throw (allocates the exception object)"),
    (r'^__cxa_guard_(acquire|release)$', "function-local static initialisation (takes a lock)"),
    (r'^(printf|fprintf|puts|fputs|putchar|fwrite|fflush|vprintf|vfprintf)$', "stdio (takes the FILE lock, may allocate)"),
]
FORBIDDEN_DEMANGLED = [
    (r'^std::mutex::|^std::recursive_mutex::|^std::lock_guard<|^std::unique_lock<|^std::__mutex_base', "std mutex"),
    (r'^std::function<.*>::function\(std::function<.*> const&\)', "copy of a std::function (may allocate)"),
    (r'^std::function<.*>::operator=\(', "assignment of a std::function (may allocate)"),
    (r'^std::__cxx11::basic_string<.*>::basic_string\(', "construction of a std::string (may allocate)"),
    (r'^std::__cxx11::basic_string<.*>::(operator=|operator\+=|append|assign|substr|reserve|resize|push_back|insert|replace|_M_create|_M_construct|_M_mutate|_M_assign|_M_append|_M_replace)', "mutation/copy of a std::string (may allocate)"),
    (r'^std::vector<.*>::vector\((std::vector<.*> const&|std::initializer_list|unsigned long)', "construction of a std::vector (allocates)"),
    (r'^std::vector<.*>::(push_back|emplace_back|insert|resize|reserve|operator=|_M_realloc_insert|_M_default_append|_M_fill_insert|assign)', "growth/copy of a std::vector (may allocate)"),
    (r'^std::(__cxx11::)?(basic_ostringstream|basic_stringstream|basic_ostream|basic_istream)', "iostream"),
    (r'^std::operator<<|^std::to_string|^std::operator\+<char', "string/stream formatting (allocates)"),
    (r'^std::(map|set|deque|list|_Rb_tree|_Deque_base|unordered_map)<.*>::(insert|emplace|operator\[\]|push_back|push_front|_M_insert|_M_emplace)', "node-based container insertion (allocates)"),
    (r'^std::allocator_traits<.*>::allocate|::allocate\(unsigned long', "allocator"),
]


class Policy:
    def __init__(self, allow_raw, allow_demangled, exempt_raw, indirect_ok):
        self.allow_raw = allow_raw            # {name: reason}
        self.allow_demangled = [(re.compile(p), r) for p, r in allow_demangled]
        self.exempt_raw = exempt_raw          # {name: reason}  not traversed, not reported (abort/EH paths)
        self.indirect_ok = indirect_ok        # f(program, fn, inst) -> reason or None
        self.forb_raw = [(re.compile(p), r) for p, r in FORBIDDEN_RAW]
        self.forb_dm = [(re.compile(p), r) for p, r in FORBIDDEN_DEMANGLED]


class EffectAnalysis:
    def __init__(self, program, policy):
        self.P = program
        self.pol = policy
        self._cache = {}      # fn.key -> list of local findings [(kind, reason, inst, callee)]
        self.externals_seen = {}
        self.indirect_seen = []

    def classify_call(self, fn, inst):
        """-> ('edge', Function) | ('ok', reason) | ('bad', kind, reason)"""
        P = self.P
        if inst.indirect:
            why = self.pol.indirect_ok(P, fn, inst)
            if why:
                return ("ok", "indirect: " + why)
            return ("bad", "indirect-call", "indirect call not covered by the indirect-call policy")
        name = inst.callee
        if name == "<asm>":
            return ("bad", "asm", "inline asm")
        if name.startswith("llvm."):
            return ("ok", "intrinsic")
        for rx, r in self.pol.forb_raw:
            if rx.search(name):
                return ("bad", "forbidden", r + ": " + name)
        dm = P.dm(name)
        for rx, r in self.pol.forb_dm:
            if rx.search(dm):
                return ("bad", "forbidden", r + ": " + dm)
        if name in self.pol.exempt_raw:
            return ("ok", "exempt: " + self.pol.exempt_raw[name])
        target = P.resolve(fn.module, name)
        if target is not None:
            return ("edge", target)
        if fn.module.is_noreturn_decl(name):
            return ("ok", "noreturn abort path")
        if name in self.pol.allow_raw:
            self.externals_seen[name] = self.pol.allow_raw[name]
            return ("ok", "allowed external: " + self.pol.allow_raw[name])
        for rx, r in self.pol.allow_demangled:
            if rx.search(dm):
                self.externals_seen[dm] = r
                return ("ok", "allowed external: " + r)
        return ("bad", "unlisted-external", "external function not in the allow-list: " + dm)

    def analyse_root(self, root):
        """Returns (findings, visited_functions). findings: list of dict(kind, reason, path)."""
        seen = {root.key: None}     # key -> (caller key, call inst)
        order = [root]
        findings = []
        i = 0
        while i < len(order):
            fn = order[i]
            i += 1
            for inst in fn.calls():
                c = self.classify_call(fn, inst)
                if c[0] == "edge":
                    t = c[1]
                    if t.key not in seen:
                        seen[t.key] = (fn, inst)
                        order.append(t)
                elif c[0] == "bad":
                    path = self._path(seen, fn) + [(fn, inst)]
                    findings.append({"kind": c[1], "reason": c[2],
                                     "path": [self._edge(f, ins) for f, ins in path]})
        findings.sort(key=lambda x: 0 if x['kind'] == 'forbidden' else 1)
        return findings, order

    def _path(self, seen, fn):
        path = []
        cur = fn
        while seen[cur.key] is not None:
            caller, inst = seen[cur.key]
            path.append((caller, inst))
            cur = caller
        path.reverse()
        return path

    def _edge(self, f, inst):
        tgt = inst.callee if not inst.indirect else "<indirect>"
        return "%s  [%s]  -> %s" % (self.P.dm(f.name), inst.where(), self.P.dm(tgt) if not inst.indirect else tgt)
