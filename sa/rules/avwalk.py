"""ITR-WALK: the range-aware argument-value iterator (rtosc_arg_val_itr_next), evaluated on small slot layouts, visits
every value once per repetition and then stands on the next argument.

A layout is a list of arguments: a scalar (1 slot), an array (header + N element slots), a range (header '-' with a
repetition count and a has-delta flag, an optional delta slot, then the repeated value - a scalar or an array).  The
slots live at BASE + 24*k; the accessors rtosc_av_rep_num / rtosc_av_rep_has_delta / rtosc_av_arr_len answer from the
layout, `->type` is read from it; the iterator's members are the evaluator's slots.
"""
from .. import astlib as A
from .. import fdeval as FD

BASE = 1 << 20
SLOT = 24


def flatten(layout):
    """-> (slots [(type, info)], expected visits [(slot index, range_i)] followed by the final slot index)"""
    slots = []
    visits = []
    for arg in layout:
        k = len(slots)
        if arg[0] == "s":
            slots.append(("i", {}))
            visits.append((k, 0))
        elif arg[0] == "a":
            slots.append(("a", {"len": arg[1]}))
            slots.extend([("i", {})] * arg[1])
            visits.append((k, 0))
        elif arg[0] == "r":
            _, num, has_delta, val = arg
            slots.append(("-", {"num": num, "delta": 1 if has_delta else 0}))
            if has_delta:
                slots.append(("i", {}))
            if val[0] == "a":
                slots.append(("a", {"len": val[1]}))
                slots.extend([("i", {})] * val[1])
            else:
                slots.append(("i", {}))
            for r in range(num if num else 4):
                visits.append((k, r))
            if not num:
                return slots, visits, None      # an infinite range is never left
    return slots, visits, len(slots)


LAYOUTS = {
    "two scalars": [("s",), ("s",)],
    "array then scalar": [("a", 2), ("s",)],
    "empty array then scalar": [("a", 0), ("s",)],
    "3x scalar, scalar": [("r", 3, False, ("s",)), ("s",)],
    "range with delta (3), scalar": [("r", 3, True, ("s",)), ("s",)],
    "2x array[2], scalar": [("r", 2, False, ("a", 2)), ("s",)],
    "scalar, 2x array[1], array[1], scalar": [("s",), ("r", 2, False, ("a", 1)), ("a", 1), ("s",)],
    "1x array[3], scalar": [("r", 1, False, ("a", 3)), ("s",)],
    "two ranges in a row": [("r", 2, True, ("s",)), ("r", 2, False, ("s",)), ("s",)],
    "infinite repetition": [("s",), ("r", 0, False, ("s",))],
    "infinite range with delta": [("r", 0, True, ("s",))],
}


def walk(unit, layout):
    """-> list of (slot index, range_i) the iterator stands on before each call of next, and the final (index, i) or None"""
    slots, visits, final = flatten(layout)
    fn = unit.function("rtosc_arg_val_itr_next")
    pn = unit.params(fn)[0]
    name = pn.get("name")
    av_key, i_key, r_key = "member:%s->av" % name, "member:%s->i" % name, "member:%s->range_i" % name

    def slot_of(addr, n):
        k, rem = divmod(addr - BASE, SLOT)
        if rem or k < 0 or k > len(slots):
            raise FD.Unknown("slot address %r" % (addr,), n)
        if k == len(slots):
            return ("\0", {})              # one past the list: read as a terminator by nobody; tolerated as a read of type 0
        return slots[k]

    def hook(n, ev):
        k = n.get("kind")
        if k == "MemberExpr" and n.get("name") == "type":
            base = ev.ev(A.kids(n)[0])
            return ord(slot_of(base, n)[0])
        if k == "CallExpr":
            nm = A.callee_name(n)
            args = A.kids(n)[1:]
            if nm in ("rtosc_av_rep_num", "rtosc_av_rep_has_delta", "rtosc_av_arr_len"):
                t, info = slot_of(ev.ev(args[0]), n)
                key = {"rtosc_av_rep_num": "num", "rtosc_av_rep_has_delta": "delta", "rtosc_av_arr_len": "len"}[nm]
                if key not in info:
                    raise FD.Unknown("%s asked of a '%s' slot" % (nm, t), n)
                return info[key]
            fns = [f for f in unit.functions.get(nm, []) if unit.body(f) is not None]
            if len(fns) == 1:
                return ev.call_function(unit, fns[0], [ev.ev(a) for a in args])
            raise FD.Unknown("call to %s" % nm, n)
        return NotImplemented
    env = {pn["id"]: 4096, av_key: BASE, i_key: 0, r_key: 0}
    seen = []
    for step in range(len(visits)):
        seen.append(((env[av_key] - BASE) // SLOT if (env[av_key] - BASE) % SLOT == 0 else env[av_key], env[r_key], env[i_key]))
        ev = FD.Eval(env=dict(env), node_hook=hook, max_steps=3000)
        try:
            ev.run(unit.body(fn))
        except FD._Return:
            pass
        env = {pn["id"]: 4096, av_key: ev.env[av_key], i_key: ev.env[i_key], r_key: ev.env[r_key]}
    end = ((env[av_key] - BASE) // SLOT if (env[av_key] - BASE) % SLOT == 0 else env[av_key], env[r_key], env[i_key])
    return seen, end, visits, final
