"""APROPOS-EXACT: Ports::apropos - with which scan_deps looks up the port of a level to read its `enabled by` /
`depends` metadata - evaluated as a whole function on small port tables: for a path that names a port of the table
exactly (up to the port's '/' or ':types'), that port is the answer wherever it stands in the table, also behind a
sibling whose name merely begins like it (`filter_on` in front of `filter/`); a path that names nothing gets nothing.

The table is a list of names (the loop over `ports` runs over tokens, `port.name` is the name's address in a byte
memory, `port.ports` is null: lowest level), the string functions work on that memory, rtosc_match_path answers as the
reference of R05.6 does.
"""
from .. import astlib as A
from .. import fdeval as FD
from .defaultval import Mem, make_libc
from . import pathmatch as PM

# (table, path, index of the expected port or None)
CASES = [
    (["volume::i", "filter_on::T:F", "filter/"], "filter", 2),
    (["volume::i", "filter_on::T:F", "filter/"], "/filter", 2),
    (["filter/", "filter_on::T:F"], "filter", 0),
    (["filter_on::T:F", "filter::i"], "filter", 1),
    (["ab::i", "a::i"], "a", 1),
    (["a::i", "ab::i"], "a", 0),
    (["a::i", "ab::i"], "ab", 1),
    (["lfo_enabled::T:F", "lfo/", "lfo2/"], "lfo", 1),
    (["volume::i"], "filter", None),
    (["sub/", "sub_on::T:F"], "sub_on", 1),
]


def evaluate(unit, names, path):
    fns = [f_ for q_, fl_ in unit.functions.items() if q_.endswith("Ports::apropos") for f_ in fl_ if unit.body(f_) is not None]
    if len(fns) != 1:
        raise FD.Unknown("Ports::apropos not found (%d)" % len(fns), None)
    fn = fns[0]
    mem = Mem()
    text, libc = make_libc(mem)
    addr = [mem.literal("\x01%d\x02" % k) for k in range(len(names))]      # distinct objects: (re)written below
    addr = []
    for nm in names:
        a = mem.alloc(len(nm) + 1)
        mem.put(a, nm)
        addr.append(a)
    pa = mem.alloc(len(path) + 1)
    mem.put(pa, path)
    h = {}

    def tok(e, ev):
        e = A.strip_casts(e)
        if e.get("kind") == "DeclRefExpr":
            v = ev.env.get((e.get("referencedDecl") or {}).get("id"))
            if isinstance(v, tuple) and v and v[0] == "port":
                return v
        return None

    def hook(n, ev):
        k = n.get("kind")
        ks = A.kids(n)
        if k == "MemberExpr" and ks:
            t = tok(ks[0], ev)
            if t is not None:
                if n.get("name") == "name":
                    return addr[t[1]]
                if n.get("name") == "ports":
                    return 0
                raise FD.Unknown("member %s of a port" % n.get("name"), n)
            return NotImplemented
        if k == "UnaryOperator" and n.get("opcode") == "&":
            t = tok(ks[0], ev)
            if t is not None:
                return ("portaddr", t[1])
            return 0x7000
        if k == "StringLiteral":
            return mem.literal(A.string_literal(n))
        if k == "CharacterLiteral":
            return int(n["value"])
        return NotImplemented

    def stmt_hook(n, ev):
        if n.get("kind") != "CXXForRangeStmt":
            return None
        ks = A.kids(n)
        decls = [d for s_ in ks for d in (A.kids(s_) if s_.get("kind") == "DeclStmt" else []) if d.get("kind") == "VarDecl"]
        loopvar = [d for d in decls if not (d.get("name") or "").startswith("__")]
        rng = [d for d in decls if (d.get("name") or "").startswith("__range")]
        if len(loopvar) != 1 or len(rng) != 1 or not any(y.get("kind") == "MemberExpr" and y.get("name") == "ports" for y in A.walk(rng[0])):
            raise FD.Unknown("range-for over something else than the table", n)
        for i in range(len(names)):
            ev.env[loopvar[0]["id"]] = ("port", i)
            try:
                ev.run(ks[-1])
            except FD._Break:
                break
            except FD._Continue:
                continue
        return True

    def call(nm, vals, n):
        base = (nm or "").split("::")[-1]
        if base == "rtosc_match_path":
            pat, adr = text(vals[0], n), text(vals[1], n)
            return vals[0] + len(pat) if PM.reference(pat, adr)[0] else 0
        if base in ("__assert_fail",):
            return 0
        r = libc(base, vals, n)
        if r is not NotImplemented:
            return r
        fs = [f_ for f_ in unit.functions.get(nm, []) if unit.body(f_) is not None and f_ is not fn]
        if len(fs) == 1:
            return h["ev"].call_function(unit, fs[0], vals)          # a helper of the unit (the comparison of one name)
        raise FD.Unknown("call to %s" % nm, n)

    def deref(a, n):
        return mem.byte(a, n)
    ev = FD.Eval(node_hook=hook, stmt_hook=stmt_hook, call=call, deref=deref, max_steps=6000)
    h["ev"] = ev
    r = ev.call_function(unit, fn, [pa])
    if isinstance(r, tuple) and r[0] == "portaddr":
        return r[1]
    if r in (0, None):
        return None
    raise FD.Unknown("Ports::apropos returns %r" % (r,), fn)


def check(unit):
    bad = []
    for names, path, want in CASES:
        got = evaluate(unit, names, path)
        if got != want:
            bad.append({"table": names, "path": path, "answers_with": names[got] if got is not None else None, "expected": names[want] if want is not None else None})
    return bad, len(CASES)
