"""RANGE ELEMENT: rtosc_arg_val_range_arg(range, i, result) - the i-th element of an arithmetic range `start, delta` -
evaluated as a whole function, with the arithmetic helpers of arg-val-math.c evaluated in place, on integer ranges of
type 'i' and 'h' whose start, step and products need the full width of the type: the element is start + i*delta in
the arithmetic of the range's type (64 bits for 'h').

Argument values are records in a slot memory (24-byte slots; `p->type`, `p->val.X`, `p[k]`, `p+k`, `&local` address
them); the integer members of the union overlay one 64-bit cell (`h` reads it whole, `i` / `c` its low 32 bits, `T` its
low 8); `*out = v` through a pointer to an int local writes that local.
"""
from .. import astlib as A
from .. import fdeval as FD

SLOT = 24
BASE = 1 << 20

# (type, start, delta, i)
CASES = [("i", 5, 3, 0), ("i", 5, 3, 4), ("i", -7, -2, 3), ("i", 100000, 70000, 2),
         ("h", 5, 3, 4), ("h", 5000000000, 3000000000, 2), ("h", 7, -(1 << 32), 3), ("h", -(1 << 40), 1 << 33, 5), ("h", 1, (1 << 31), 1), ("h", 0, 65536, 70000)]


def _wrap(v, bits):
    v &= (1 << bits) - 1
    return v - (1 << bits) if v >> (bits - 1) else v


def evaluate(unit, ty, start, delta, ith):
    fn = unit.function("rtosc_arg_val_range_arg")
    ps = unit.params(fn)
    if len(ps) != 3:
        raise FD.Unknown("rtosc_arg_val_range_arg: parameters (range, i, result) not recognised", fn)
    mem = {}            # slot address -> {"type": int, "bits": 64-bit cell}
    top = [BASE]
    local_slots = {}    # decl id of a struct local -> its slot address
    int_locals = {}     # decl id of an int local whose address was taken -> value

    def new_slot():
        a = top[0]
        top[0] += SLOT
        mem[a] = {"type": 0, "bits": 0}
        return a
    rng = new_slot()
    mem[rng] = {"type": ord("-"), "bits": 0}
    d_ = new_slot()
    mem[d_] = {"type": ord(ty), "bits": delta & ((1 << 64) - 1)}
    s_ = new_slot()
    mem[s_] = {"type": ord(ty), "bits": start & ((1 << 64) - 1)}
    res = new_slot()
    h = {}

    def slot(a, n):
        if not isinstance(a, int) or a not in mem:
            raise FD.Unknown("no argument value at %r" % (a,), n)
        return mem[a]

    def base_addr(e, ev):
        """address of the argument value an expression designates: `p->`, `p[k].`, `(*p).`, a struct local"""
        e = A.strip_casts(e)
        k = e.get("kind")
        if k == "DeclRefExpr" and "rtosc_arg_val_t" in (A.qtype(e) or "") and "*" not in (A.qtype(e) or ""):
            rid = e["referencedDecl"]["id"]
            if rid not in local_slots:
                local_slots[rid] = new_slot()
            return local_slots[rid]
        if k == "ArraySubscriptExpr":
            return ev.ev(A.kids(e)[0]) + SLOT * ev.ev(A.kids(e)[1])
        if k == "UnaryOperator" and e.get("opcode") == "*":
            return ev.ev(A.kids(e)[0])
        raise FD.Unknown("argument value designator %s" % k, e)

    def field(n, ev):
        """(slot address, member path) of a MemberExpr chain on an argument value, or None"""
        names = []
        e = n
        while e.get("kind") == "MemberExpr" and A.kids(e):
            names.append(e.get("name"))
            b = A.kids(e)[0]
            if e.get("isArrow"):
                return ev.ev(b), list(reversed(names))
            bb = A.strip_casts(b)
            if bb.get("kind") != "MemberExpr":
                if "rtosc_arg_val_t" in (A.qtype(bb) or ""):
                    return base_addr(bb, ev), list(reversed(names))
                return None
            e = bb
        return None

    def read(a, names, n):
        c = slot(a, n)
        if names == ["type"]:
            return c["type"]
        if names[:1] == ["val"] and len(names) == 2:
            m = names[1]
            if m == "h":
                return _wrap(c["bits"], 64)
            if m in ("i", "c", "r"):
                return _wrap(c["bits"], 32)
            if m == "T":
                return c["bits"] & 0xff
            if m == "t":
                return c["bits"]
        raise FD.Unknown("read of member %s" % ".".join(names), n)

    def write(a, names, v, n):
        c = slot(a, n)
        if names == ["type"]:
            c["type"] = v & 0xff
            return v
        if names[:1] == ["val"] and len(names) == 2 and isinstance(v, int):
            m = names[1]
            if m in ("h", "t"):
                c["bits"] = v & ((1 << 64) - 1)
                return _wrap(v, 64)
            if m in ("i", "c", "r"):
                c["bits"] = (c["bits"] & ~((1 << 32) - 1)) | (v & ((1 << 32) - 1))
                return _wrap(v, 32)
            if m == "T":
                c["bits"] = (c["bits"] & ~0xff) | (1 if v else 0)
                return 1 if v else 0
        raise FD.Unknown("store to member %s of %r" % (".".join(names), v), n)

    def hook(n, ev):
        k = n.get("kind")
        ks = A.kids(n)
        if k == "MemberExpr":
            f = field(n, ev)
            if f is not None:
                return read(f[0], f[1], n)
            return NotImplemented
        if k == "BinaryOperator" and n.get("opcode") == "=" and A.strip_casts(ks[0]).get("kind") == "MemberExpr":
            f = field(A.strip_casts(ks[0]), ev)
            if f is not None:
                v = ev.ev(ks[1])
                if isinstance(v, float):
                    raise FD.Unknown("floating value stored", n)
                return write(f[0], f[1], v, n)
            return NotImplemented
        if k == "UnaryOperator" and n.get("opcode") == "&":
            o = A.strip_casts(ks[0])
            t = A.qtype(o) or ""
            if "rtosc_arg_val_t" in t and "*" not in t:
                return base_addr(o, ev)
            if o.get("kind") == "DeclRefExpr" and FD.ctype(t)[0] == "int":
                rid = o["referencedDecl"]["id"]
                int_locals.setdefault(rid, ev.env.get(rid, 0))
                return ("intlocal", rid)
            return NotImplemented
        if k == "DeclRefExpr" and (n.get("referencedDecl") or {}).get("id") in int_locals:
            return int_locals[n["referencedDecl"]["id"]]
        if k == "DeclRefExpr" and "rtosc_arg_val_t" in (A.qtype(n) or "") and "*" not in (A.qtype(n) or "") and (n.get("referencedDecl") or {}).get("kind") == "VarDecl":
            return base_addr(n, ev)          # a struct local used as a whole (never copied by the functions in question)
        if k == "BinaryOperator" and n.get("opcode") in ("+", "-") and "rtosc_arg_val_t" in (A.qtype(n) or "") and "*" in (A.qtype(n) or ""):
            a, b = ev.ev(ks[0]), ev.ev(ks[1])
            if isinstance(a, int) and isinstance(b, int) and a >= BASE:
                return a + SLOT * b if n.get("opcode") == "+" else a - SLOT * b
            if isinstance(a, int) and isinstance(b, int) and b >= BASE:
                return b + SLOT * a
            return NotImplemented
        return NotImplemented

    def deref(a, n):
        if isinstance(a, tuple) and a[0] == "intlocal":
            return int_locals[a[1]]
        raise FD.Unknown("dereference of %r" % (a,), n)

    def store(a, v, n):
        if isinstance(a, tuple) and a[0] == "intlocal":
            int_locals[a[1]] = FD.wrap(int(v), ("int", 32, True)) if isinstance(v, (int, float)) else v
            return
        raise FD.Unknown("store through %r" % (a,), n)

    def stmt_hook(n, ev):
        # struct locals are slots of their own; int locals declared without initialiser start at 0
        if n.get("kind") == "DeclStmt":
            handled = True
            for d in A.kids(n):
                t = A.qtype(d) or ""
                if d.get("kind") == "VarDecl" and "rtosc_arg_val_t" in t and "*" not in t:
                    local_slots.setdefault(d["id"], new_slot())
                else:
                    handled = False
            return True if handled else None
        return None

    def call(nm, vals, n):
        if nm in ("__assert_fail",):
            return 0
        fs = [f_ for f_ in unit.functions.get(nm, []) if unit.body(f_) is not None]
        if len(fs) == 1:
            return h["ev"].call_function(unit, fs[0], vals)
        raise FD.Unknown("call to %s" % nm, n)
    ev = FD.Eval(node_hook=hook, deref=deref, store=store, stmt_hook=stmt_hook, call=call, max_steps=4000)
    h["ev"] = ev
    r = ev.call_function(unit, fn, [rng, ith, res])
    if r != res:
        return None
    c = mem[res]
    return chr(c["type"]) if 32 <= c["type"] < 127 else c["type"], (_wrap(c["bits"], 64) if ty == "h" else _wrap(c["bits"], 32))


def check(unit):
    bad = []
    for ty, start, delta, ith in CASES:
        got = evaluate(unit, ty, start, delta, ith)
        bits = 64 if ty == "h" else 32
        want = (ty, _wrap(start + ith * delta, bits))
        if got != want:
            bad.append({"type": ty, "start": start, "delta": delta, "i": ith, "element": list(got) if got else None, "expected": list(want)})
    return bad, len(CASES)
