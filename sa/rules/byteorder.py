"""R01.2 / R08.2 BYTEORDER - big-endian shift sequences.

A *byte op* is either
  store:  B[idx] = ((D >> K) & 0xff)      (K literal, possibly absent = 0)
  load :  X |= ((cast) <byte access>) << K  or  X = t0 | t1 | ...  with such terms
where <byte access> is  *p++ ,  deref(pos++, ..)  or  deref(pos + k, ..).
A maximal run of consecutive byte ops on the same data variable is a sequence;
for a sequence of n ops the shifts must be 8(n-1), ..., 8, 0 in statement order
and the byte positions consecutive and ascending.
"""
from .. import astlib as A
from .. import fdeval as FD


def _const(e):
    try:
        return FD.Eval().ev(e)
    except FD.Unknown:
        return None


def _byte_access(n, scan_calls=("deref",)):
    """-> position descriptor ('seq' | int) if n (stripped of casts) is a byte access, else None"""
    n = A.strip_casts(n)
    if n.get("kind") == "UnaryOperator" and n.get("opcode") == "*":
        inner = A.strip_casts(A.kids(n)[0])
        if inner.get("kind") == "UnaryOperator" and inner.get("opcode") == "++" and inner.get("isPostfix"):
            return "seq"
        return None
    if n.get("kind") == "CallExpr" and A.callee_name(n) in scan_calls:
        a0 = A.strip_casts(A.kids(n)[1])
        if a0.get("kind") == "UnaryOperator" and a0.get("opcode") == "++" and a0.get("isPostfix"):
            return "seq"
        if a0.get("kind") == "BinaryOperator" and a0.get("opcode") == "+":
            k = _const(A.kids(a0)[1])
            if k is not None:
                return k
        return None
    return None


def _or_terms(e):
    e = A.strip_casts(e)
    if e.get("kind") == "BinaryOperator" and e.get("opcode") == "|":
        l, r = A.kids(e)
        return _or_terms(l) + _or_terms(r)
    return [e]


def _load_term(t):
    """term -> (shift, pos) or None"""
    t = A.strip_casts(t)
    if t.get("kind") == "BinaryOperator" and t.get("opcode") == "<<":
        l, r = A.kids(t)
        p = _byte_access(l)
        k = _const(r)
        if p is not None and k is not None:
            return (k, p)
        return None
    p = _byte_access(t)
    if p is not None:
        return (0, p)
    return None


def stmt_ops(s):
    """-> list of ops (dir, datavar, shift, pos, node) contributed by statement s, or [] if not a byte-op statement."""
    e = A.strip(s)
    k = e.get("kind")
    # the same assembly written as a returned expression or as an initialiser
    if k == "ReturnStmt" and A.kids(e):
        terms = _or_terms(A.kids(e)[0])
        if len(terms) >= 2 and all(_load_term(t) is not None for t in terms):
            return [("load", "<returned value>", _load_term(t)[0], _load_term(t)[1], s) for t in terms]
        return []
    if k == "DeclStmt" and len(A.kids(e)) == 1 and A.kids(e)[0].get("kind") == "VarDecl" and A.kids(A.kids(e)[0]):
        d = A.kids(e)[0]
        terms = _or_terms(A.kids(d)[-1])
        if len(terms) >= 2 and all(_load_term(t) is not None for t in terms):
            return [("load", d.get("name"), _load_term(t)[0], _load_term(t)[1], s) for t in terms]
        return []
    if k == "CompoundAssignOperator" and e.get("opcode") == "|=":
        lhs, rhs = A.kids(e)
        ops = []
        for t in _or_terms(rhs):
            lt = _load_term(t)
            if lt is None:
                return []
            ops.append(("load", A.src(A.strip_casts(lhs)), lt[0], lt[1], s))
        return ops
    if k == "BinaryOperator" and e.get("opcode") == "=":
        lhs, rhs = A.kids(e)
        l = A.strip_casts(lhs)
        if l.get("kind") == "ArraySubscriptExpr":
            base, idx = A.kids(l)
            idx_s = A.strip_casts(idx)
            if idx_s.get("kind") == "UnaryOperator" and idx_s.get("opcode") == "++" and idx_s.get("isPostfix"):
                pos = "seq"
            else:
                pos = _const(idx)
                if pos is None:
                    return []
            r = A.strip_casts(rhs)
            if r.get("kind") == "BinaryOperator" and r.get("opcode") == "&":
                a, b = A.kids(r)
                if _const(b) == 0xff:
                    r = A.strip_casts(a)
                elif _const(a) == 0xff:
                    r = A.strip_casts(b)
            if r.get("kind") == "BinaryOperator" and r.get("opcode") == ">>":
                d, kk = A.kids(r)
                sh = _const(kk)
                dv = A.strip_casts(d)
                if sh is not None and dv.get("kind") == "DeclRefExpr":
                    return [("store", A.src(dv), sh, pos, s)]
                return []
            if r.get("kind") == "DeclRefExpr" and "int" in A.qtype(r) or (r.get("kind") == "DeclRefExpr" and A.qtype(r) in ("long", "unsigned long", "int64_t", "uint64_t", "uint32_t", "int32_t")):
                return [("store", A.src(r), 0, pos, s)]
            return []
        # X = t0 | t1 | ... (all load terms)
        terms = _or_terms(rhs)
        if len(terms) >= 2:
            ops = []
            for t in terms:
                lt = _load_term(t)
                if lt is None:
                    return []
                ops.append(("load", A.src(l), lt[0], lt[1], s))
            return ops
    return []


def _stmt_lists(fn_body):
    """All sibling statement lists of a function: compound statements and flattened switch bodies."""
    sw_bodies = set()
    for x in A.walk(fn_body):
        if x.get("kind") == "SwitchStmt":
            sw_bodies.add(A.kids(x)[-1].get("id"))
    for x in A.walk(fn_body):
        if x.get("kind") == "SwitchStmt":
            flat = []
            FD.Eval()._flatten_switch(A.kids(x)[-1], flat)
            cur = []
            for lab, st in flat:
                if lab is not None:
                    if cur:
                        yield cur
                    cur = []
                else:
                    cur.append(st)
            if cur:
                yield cur
        elif x.get("kind") == "CompoundStmt" and x.get("id") not in sw_bodies:
            yield [c for c in A.kids(x) if c.get("kind") not in ("CaseStmt", "DefaultStmt")]


def sequences(unit, fn):
    """-> list of runs; run = list of ops"""
    body = unit.body(fn)
    runs = []
    for L in _stmt_lists(body):
        cur = []
        for s in L:
            ops = stmt_ops(s)
            if ops and (not cur or (cur[-1][0], cur[-1][1]) == (ops[0][0], ops[0][1])):
                cur.extend(ops)
            else:
                if cur:
                    runs.append(cur)
                cur = list(ops)
        if cur:
            runs.append(cur)
    # a sequence needs >= 2 ops and at least one shift
    return [r for r in runs if len(r) >= 2 and any(o[2] for o in r)]


def check_run(run):
    """-> (ok, detail)"""
    n = len(run)
    shifts = [o[2] for o in run]
    poss = [o[3] for o in run]
    exp = [8 * (n - 1 - i) for i in range(n)]
    ok_sh = shifts == exp and n in (2, 4, 8)
    if all(p == "seq" for p in poss):
        ok_pos = True
    elif all(isinstance(p, int) for p in poss):
        ok_pos = poss == list(range(poss[0], poss[0] + n))
    else:
        ok_pos = False
    return ok_sh and ok_pos, {"dir": run[0][0], "data": run[0][1], "shifts": shifts, "expected_shifts": exp,
                              "byte_positions": poss}


# ---------------------------------------------------------------------------
# value tables: what the sequence computes, not only how it is spelled

TEST_BYTES = (0x01, 0x7f, 0x80, 0xff)


def _dest_bits(run):
    """(bits, signed) of the data variable of a load run, from the type of the assigned lvalue"""
    s = A.strip(run[0][4])
    if s.get("kind") == "DeclStmt":
        lhs = A.kids(s)[0]
    else:
        lhs = A.kids(s)[0]            # assigned lvalue, or the returned expression
    ct = FD.ctype(A.qtype(lhs))
    if ct[0] == "int":
        return ct[1], ct[2]
    return None, None


def eval_load_run(run):
    """Evaluate the statements of a load run for byte patterns (one hot byte from TEST_BYTES, all-0x80, all-0xff).
    -> list of mismatches {bytes, got, expected}; raises FD.Unknown when not evaluable."""
    n = len(run)
    bits, signed = _dest_bits(run)
    if bits is None:
        raise FD.Unknown("destination of the byte sequence is not an integer", run[0][4])
    stmts = []
    for o in run:
        if not stmts or stmts[-1] is not o[4]:
            stmts.append(o[4])
    patterns = []
    for i in range(n):
        for b in TEST_BYTES:
            p = [0] * n
            p[i] = b
            patterns.append(p)
    patterns.append([0x80] * n)
    patterns.append([0xff] * n)
    patterns.append(list(range(0x81, 0x81 + n)))
    bad = []
    s0 = A.strip(stmts[0])
    lhs = A.kids(s0)[0] if s0.get("kind") not in ("ReturnStmt", "DeclStmt") else None
    for p in patterns:
        feed = list(p)
        explicit = all(isinstance(o[3], int) for o in run)
        base = run[0][3] if explicit else 0

        def hook(node, ev, feed=feed, p=p, explicit=explicit, base=base):
            pos = _byte_access(node) if node.get("kind") in ("UnaryOperator", "CallExpr") else None
            if pos is None:
                return NotImplemented
            # the byte arrives with the C type of the access expression (a `char` accessor sign-extends 0x80..0xff)
            ct = FD.ctype(A.qtype(node))
            if pos == "seq":
                if not feed:
                    raise FD.Unknown("more byte reads than bytes", node)
                b = feed.pop(0)
            else:
                k = pos - base
                if not (0 <= k < len(p)):
                    raise FD.Unknown("byte position outside the sequence", node)
                b = p[k]
            return FD.wrap(b, ct) if ct[0] == "int" else b
        ev = FD.Eval(node_hook=hook)
        if s0.get("kind") == "ReturnStmt":
            try:
                ev.run(s0)
                raise FD.Unknown("return statement did not return", s0)
            except FD._Return as rr:
                got = rr.v
        elif s0.get("kind") == "DeclStmt":
            for st in stmts:
                ev.run(st)
            got = ev.env[A.kids(s0)[0]["id"]]
        else:
            key, _ = ev._lv(lhs)
            ev.env[key] = 0
            for st in stmts:
                ev.run(st)
            got = ev.env[key]
        exp = 0
        for b in p:
            exp = (exp << 8) | b
        exp = FD.wrap(exp, ("int", bits, signed))
        if n * 8 < bits:
            # a shorter field read into a wider variable: must not sign-extend
            exp = sum(b << (8 * (n - 1 - i)) for i, b in enumerate(p))
            exp = FD.wrap(exp, ("int", bits, signed))
        if got != exp:
            bad.append({"bytes": ["%02x" % b for b in p], "got": "%x" % (got & ((1 << bits) - 1)), "expected": "%x" % (exp & ((1 << bits) - 1))})
    return bad, len(patterns)


def eval_store_run(run):
    """Evaluate the stored byte of every statement of a store run for several values of the data variable."""
    n = len(run)
    s0 = A.strip(run[0][4])
    # find the data variable node inside the first statement's RHS
    dv = None
    for x in A.walk(A.kids(s0)[1]):
        if x.get("kind") == "DeclRefExpr" and A.src(x) == run[0][1]:
            dv = x
            break
    if dv is None:
        raise FD.Unknown("data variable of the store sequence not found", run[0][4])
    ct = FD.ctype(A.qtype(dv))
    if ct[0] != "int":
        raise FD.Unknown("data variable is not an integer", dv)
    bits = ct[1]
    vals = []
    for i in range(n):
        for b in TEST_BYTES:
            vals.append(b << (8 * (n - 1 - i)))
    vals.append(int("80" * n, 16))
    vals.append(int("ff" * n, 16))
    vals.append(int("".join("%02x" % (0x81 + i) for i in range(n)), 16))
    bad = []
    explicit = all(isinstance(o[3], int) for o in run)
    for v in vals:
        env = {dv["referencedDecl"]["id"]: FD.wrap(v, ct)}
        out = {}
        for k, o in enumerate(run):
            st = A.strip(o[4])
            ev = FD.Eval(env=dict(env))
            byte = ev.ev(A.kids(st)[1]) & 0xff
            out[o[3] - run[0][3] if explicit else k] = byte
        got = [out.get(k) for k in range(n)]
        exp = [(v >> (8 * (n - 1 - k))) & 0xff for k in range(n)]
        if got != exp:
            bad.append({"value": "%x" % v, "bytes_written": ["%02x" % (b if b is not None else 0) for b in got], "expected": ["%02x" % b for b in exp]})
    return bad, len(vals)


def check_values(run):
    if run[0][0] == "load":
        return eval_load_run(run)
    return eval_store_run(run)


# ---------------------------------------------------------------------------------------------------------------------
# the codec functions as a whole, whatever their spelling: evaluated on byte / value patterns

_MEM = 1 << 20


def _patterns(nbytes):
    pats = [[0] * nbytes, [0xff] * nbytes, list(range(1, nbytes + 1)), [0x80 + i for i in range(nbytes)]]
    for k in range(nbytes):
        for v in (0x80, 0xff, 0x7f):
            p = [0] * nbytes
            p[k] = v
            pats.append(p)
            q = [0x11] * nbytes
            q[k] = v
            pats.append(q)
    return pats


def eval_extractor(unit, fn, nbytes, offset=0):
    """a function (pointer to bytes) -> unsigned integer: must return the big-endian value of the nbytes bytes at `offset`
    (helpers of the unit are evaluated in place) -> (mismatches, patterns)"""
    ps = unit.params(fn)
    if len(ps) != 1:
        raise FD.Unknown("extractor with %d parameters" % len(ps), fn)
    bad = []
    pats = _patterns(nbytes)
    for pat in pats:
        over = []

        def deref(a, n, pat=pat, over=over):
            k = a - _MEM - offset
            if 0 <= k < nbytes:
                return pat[k]
            if -offset <= k < 0:
                return (b"#bundle\0" + bytes(offset))[k + offset]          # what stands in front of the field (a bundle's magic)
            if nbytes <= k < nbytes + 8:
                over.append(k)                   # a read behind the field: what stands there is not part of the value
                return 0xEE
            raise FD.Unknown("read of byte %d of an %d-byte field" % (k, nbytes), n)
        holder = {}

        def call(nm, vals, n):
            fs = [f_ for f_ in unit.functions.get(nm, []) if unit.body(f_) is not None]
            if len(fs) == 1 and fs[0] is not fn:
                return holder["ev"].call_function(unit, fs[0], vals)
            raise FD.Unknown("call to %s" % nm, n)
        ev = FD.Eval(deref=deref, call=call, max_steps=4000)
        holder["ev"] = ev
        got = ev.call_function(unit, fn, [_MEM])
        want = int.from_bytes(bytes(pat), "big")
        if not isinstance(got, int) or (got & (2 ** (8 * nbytes) - 1)) != want or got < 0 or got >= 2 ** (8 * nbytes) or over:
            bad.append({"bytes": ["%02x" % b for b in pat], "got": ("%x" % (got & (2 ** 64 - 1))) if isinstance(got, int) else repr(got), "expected": "%x" % want,
                        "reads_behind_the_field": sorted(set(over))})
    return bad, len(pats)


def eval_emplacer(unit, fn, nbytes):
    """a function (pointer to bytes, value): must store the value's nbytes bytes big-endian at the pointer and nothing else"""
    ps = unit.params(fn)
    if len(ps) != 2:
        raise FD.Unknown("emplacer with %d parameters" % len(ps), fn)
    ptr = [i for i, p in enumerate(ps) if "*" in (A.qtype(p) or "")]
    if len(ptr) != 1:
        raise FD.Unknown("emplacer: destination parameter not recognised", fn)
    bad = []
    pats = _patterns(nbytes)
    for pat in pats:
        mem = {}

        def store(a, v, n, mem=mem):
            mem[a - _MEM] = v & 0xff

        def deref(a, n, mem=mem):
            return mem.get(a - _MEM, 0)
        holder = {}

        def call(nm, vals, n):
            fs = [f_ for f_ in unit.functions.get(nm, []) if unit.body(f_) is not None]
            if len(fs) == 1 and fs[0] is not fn:
                return holder["ev"].call_function(unit, fs[0], vals)        # built from a narrower codec of the unit
            raise FD.Unknown("call to %s" % nm, n)
        ev = FD.Eval(deref=deref, store=store, call=call, max_steps=4000)
        holder["ev"] = ev
        val = int.from_bytes(bytes(pat), "big")
        args = [None, None]
        args[ptr[0]] = _MEM
        args[1 - ptr[0]] = val
        ev.call_function(unit, fn, args)
        got = [mem.get(i) for i in range(nbytes)]
        extra = sorted(k for k in mem if not 0 <= k < nbytes)
        if got != pat or extra:
            bad.append({"value": "%x" % val, "stored": ["%02x" % b if b is not None else "--" for b in got], "expected": ["%02x" % b for b in pat], "stores_outside": extra[:4]})
    return bad, len(pats)
