"""R01.2 / R08.2 BYTEORDER - big-endian shift sequences.

A *byte op* is either
  store:  B[idx] = ((D >> K) & 0xff)      (K literal, possibly absent = 0)
  load :  X |= ((cast) <byte access>) << K  or  X = t0 | t1 | ...  with such terms
where <byte access> is  *p++ ,  deref(pos++, ..)  or  deref(pos + k, ..).
A maximal run of consecutive byte ops on the same data variable is a sequence;
for a sequence of n ops the shifts must be 8(n-1), ..., 8, 0 in statement order
and the byte positions consecutive and ascending.
"""
from .. import astlib as A
from .. import fdeval as FD


def _const(e):
    try:
        return FD.Eval().ev(e)
    except FD.Unknown:
        return None


def _byte_access(n, scan_calls=("deref",)):
    """-> position descriptor ('seq' | int) if n (stripped of casts) is a byte access, else None"""
    n = A.strip_casts(n)
    if n.get("kind") == "UnaryOperator" and n.get("opcode") == "*":
        inner = A.strip_casts(A.kids(n)[0])
        if inner.get("kind") == "UnaryOperator" and inner.get("opcode") == "++" and inner.get("isPostfix"):
            return "seq"
        return None
    if n.get("kind") == "CallExpr" and A.callee_name(n) in scan_calls:
        a0 = A.strip_casts(A.kids(n)[1])
        if a0.get("kind") == "UnaryOperator" and a0.get("opcode") == "++" and a0.get("isPostfix"):
            return "seq"
        if a0.get("kind") == "BinaryOperator" and a0.get("opcode") == "+":
            k = _const(A.kids(a0)[1])
            if k is not None:
                return k
        return None
    return None


def _or_terms(e):
    e = A.strip_casts(e)
    if e.get("kind") == "BinaryOperator" and e.get("opcode") == "|":
        l, r = A.kids(e)
        return _or_terms(l) + _or_terms(r)
    return [e]


def _load_term(t):
    """term -> (shift, pos) or None"""
    t = A.strip_casts(t)
    if t.get("kind") == "BinaryOperator" and t.get("opcode") == "<<":
        l, r = A.kids(t)
        p = _byte_access(l)
        k = _const(r)
        if p is not None and k is not None:
            return (k, p)
        return None
    p = _byte_access(t)
    if p is not None:
        return (0, p)
    return None


def stmt_ops(s):
    """-> list of ops (dir, datavar, shift, pos, node) contributed by statement s, or [] if not a byte-op statement."""
    e = A.strip(s)
    k = e.get("kind")
    if k == "CompoundAssignOperator" and e.get("opcode") == "|=":
        lhs, rhs = A.kids(e)
        ops = []
        for t in _or_terms(rhs):
            lt = _load_term(t)
            if lt is None:
                return []
            ops.append(("load", A.src(A.strip_casts(lhs)), lt[0], lt[1], s))
        return ops
    if k == "BinaryOperator" and e.get("opcode") == "=":
        lhs, rhs = A.kids(e)
        l = A.strip_casts(lhs)
        if l.get("kind") == "ArraySubscriptExpr":
            base, idx = A.kids(l)
            idx_s = A.strip_casts(idx)
            if idx_s.get("kind") == "UnaryOperator" and idx_s.get("opcode") == "++" and idx_s.get("isPostfix"):
                pos = "seq"
            else:
                pos = _const(idx)
                if pos is None:
                    return []
            r = A.strip_casts(rhs)
            if r.get("kind") == "BinaryOperator" and r.get("opcode") == "&":
                a, b = A.kids(r)
                if _const(b) == 0xff:
                    r = A.strip_casts(a)
                elif _const(a) == 0xff:
                    r = A.strip_casts(b)
            if r.get("kind") == "BinaryOperator" and r.get("opcode") == ">>":
                d, kk = A.kids(r)
                sh = _const(kk)
                dv = A.strip_casts(d)
                if sh is not None and dv.get("kind") == "DeclRefExpr":
                    return [("store", A.src(dv), sh, pos, s)]
                return []
            if r.get("kind") == "DeclRefExpr" and "int" in A.qtype(r) or (r.get("kind") == "DeclRefExpr" and A.qtype(r) in ("long", "unsigned long", "int64_t", "uint64_t", "uint32_t", "int32_t")):
                return [("store", A.src(r), 0, pos, s)]
            return []
        # X = t0 | t1 | ... (all load terms)
        terms = _or_terms(rhs)
        if len(terms) >= 2:
            ops = []
            for t in terms:
                lt = _load_term(t)
                if lt is None:
                    return []
                ops.append(("load", A.src(l), lt[0], lt[1], s))
            return ops
    return []


def _stmt_lists(fn_body):
    """All sibling statement lists of a function: compound statements and flattened switch bodies."""
    sw_bodies = set()
    for x in A.walk(fn_body):
        if x.get("kind") == "SwitchStmt":
            sw_bodies.add(A.kids(x)[-1].get("id"))
    for x in A.walk(fn_body):
        if x.get("kind") == "SwitchStmt":
            flat = []
            FD.Eval()._flatten_switch(A.kids(x)[-1], flat)
            cur = []
            for lab, st in flat:
                if lab is not None:
                    if cur:
                        yield cur
                    cur = []
                else:
                    cur.append(st)
            if cur:
                yield cur
        elif x.get("kind") == "CompoundStmt" and x.get("id") not in sw_bodies:
            yield [c for c in A.kids(x) if c.get("kind") not in ("CaseStmt", "DefaultStmt")]


def sequences(unit, fn):
    """-> list of runs; run = list of ops"""
    body = unit.body(fn)
    runs = []
    for L in _stmt_lists(body):
        cur = []
        for s in L:
            ops = stmt_ops(s)
            if ops and (not cur or (cur[-1][0], cur[-1][1]) == (ops[0][0], ops[0][1])):
                cur.extend(ops)
            else:
                if cur:
                    runs.append(cur)
                cur = list(ops)
        if cur:
            runs.append(cur)
    # a sequence needs >= 2 ops and at least one shift
    return [r for r in runs if len(r) >= 2 and any(o[2] for o in r)]


def check_run(run):
    """-> (ok, detail)"""
    n = len(run)
    shifts = [o[2] for o in run]
    poss = [o[3] for o in run]
    exp = [8 * (n - 1 - i) for i in range(n)]
    ok_sh = shifts == exp and n in (2, 4, 8)
    if all(p == "seq" for p in poss):
        ok_pos = True
    elif all(isinstance(p, int) for p in poss):
        ok_pos = poss == list(range(poss[0], poss[0] + n))
    else:
        ok_pos = False
    return ok_sh and ok_pos, {"dir": run[0][0], "data": run[0][1], "shifts": shifts, "expected_shifts": exp,
                              "byte_positions": poss}
