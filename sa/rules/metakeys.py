"""G5 - metadata keys: what the port macros emit vs what library code looks up.

Producers: every metadata macro of port-sugar.h is expanded alone in
witness/meta_matrix.cpp (`M_<macro>`), and every port macro's metadata literal
is the second element of its Port initialiser in witness/sugar_matrix.cpp.
A metadata block is `:key\\0[=value\\0]...`; keys are read off the literal.
Consumers: MetaContainer::operator[] / find with a key that is a string literal
or a const variable initialised with one.
"""
from .. import astlib as A
from ..facts import AnalysisBroken


def split_meta(lit):
    """':a\\0=1\\0:b\\0' -> [('a','1'),('b',None)]"""
    out = []
    parts = lit.split("\0")
    i = 0
    while i < len(parts):
        p = parts[i]
        if p.startswith(":"):
            key = p[1:]
            val = None
            if i + 1 < len(parts) and parts[i + 1].startswith("="):
                val = parts[i + 1][1:]
                i += 1
            out.append((key, val))
        i += 1
    return out


def emitted_by_macro(meta_unit):
    """{macro name: [(key, value)]} from witness/meta_matrix.cpp"""
    out = {}
    for d in meta_unit.decls:
        for x in A.walk(d):
            if x.get("kind") == "VarDecl" and x.get("name", "").startswith("M_") and A.kids(x):
                lit = A.string_literal(A.kids(x)[-1])
                if lit is None:
                    raise AnalysisBroken("witness meta macro %s does not expand to a string literal" % x.get("name"))
                out[x["name"][2:]] = split_meta(lit)
    if len(out) < 20:
        raise AnalysisBroken("only %d metadata macros found in witness/meta_matrix.cpp" % len(out))
    return out


def port_metadata(sugar_unit):
    """{port name literal: [(key,value)]} for every Port initialiser in witness/sugar_matrix.cpp"""
    out = {}
    for d in sugar_unit.decls:
        for x in A.walk(d):
            if x.get("kind") == "InitListExpr" and A.stype(x).endswith("Port"):
                ks = A.kids(x)
                if len(ks) >= 2:
                    n = A.string_literal(ks[0])
                    m = A.string_literal(ks[1])
                    if n is not None and m is not None:
                        out[n] = split_meta(m)
    return out


class Prefix(str):
    """key text that is the literal initialiser of a mutable char array (e.g. `char mapbuf[20] = "map "`):
    the looked-up key starts with it"""


def _resolve_literal(unit, e, depth=0):
    s = A.string_literal(e)
    if s is not None:
        return s
    e = A.strip_casts(e)
    if e.get("kind") == "DeclRefExpr" and depth < 3:
        d = unit.by_id.get(e["referencedDecl"]["id"])
        if d is not None and d.get("kind") == "VarDecl" and A.kids(d):
            st = A.stype(d)
            if "const" in st or d.get("constexpr"):
                return _resolve_literal(unit, A.kids(d)[-1], depth + 1)
            if st.startswith("char[") or st.startswith("char ["):
                lit = A.string_literal(A.kids(d)[-1])
                if lit is not None:
                    return Prefix(lit)
    return None


def key_pattern(k):
    """'map 3' -> 'map <n>', 'default 12' -> 'default <n>'"""
    import re
    return re.sub(r' \d+$', ' <n>', k)


def all_emitted(meta_unit, sugar_unit):
    """(set of exact keys, set of patterns, {key: [producer,...]})"""
    prod = {}
    for mac, kv in emitted_by_macro(meta_unit).items():
        if mac in ("rMap", "rProp"):
            continue     # generic: emit whatever key the user writes
        for k, v in kv:
            prod.setdefault(k, set()).add(mac)
    for port, kv in port_metadata(sugar_unit).items():
        for k, v in kv:
            prod.setdefault(k, set()).add("port " + port.split(":")[0].split("#")[0])
    exact = set(prod)
    pats = {key_pattern(k) for k in prod}
    return exact, pats, prod


def lookups(unit, root):
    """[(key or None, node, kind)] MetaContainer operator[] / find calls under root"""
    out = []
    for x in A.walk(root):
        k = x.get("kind")
        if k == "CXXOperatorCallExpr":
            ks = A.kids(x)
            if len(ks) == 3 and "MetaContainer" in A.qtype(ks[1]) and "operator[]" in A.src(ks[0]):
                out.append((_resolve_literal(unit, ks[2]), x, "[]"))
        elif k == "CXXMemberCallExpr":
            callee = A.strip_casts(A.kids(x)[0])
            if callee.get("kind") == "MemberExpr" and callee.get("name") in ("find", "operator[]"):
                base = A.kids(callee)[0] if A.kids(callee) else {}
                if "MetaContainer" in A.qtype(base):
                    out.append((_resolve_literal(unit, A.kids(x)[1]), x, callee.get("name")))
    return out
