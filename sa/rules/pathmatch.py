"""PATH-TABLE: rtosc_match_path - with rtosc_match_options and rtosc_match_number evaluated in place - decides, for every
probe (pattern, address), what the documented pattern language says: literal text, `#N` enumerations (decimal index
strictly below N), `{a,b,...}` alternatives, an optional trailing '/' (the address may continue after it), optional
':types' (the returned pattern position is the start of the type alternatives).

The functions are evaluated finite-domain on the AST (goto included); the strings live in a small memory, a caller's
cursor handed on as `&msg` is the token ("addr", declaration) whose reads and writes go to that variable.
The reference is a direct transcription of the statement; probes whose alternatives are prefixes of one another (where
the statement does not say which is taken) are not generated.
"""
import re

from .. import astlib as A
from .. import fdeval as FD

PB, MB, ECELL = 4096, 8192, 64


def parse(pattern):
    path = pattern.split(":", 1)[0]
    sub = path.endswith("/")
    if sub:
        path = path[:-1]
    toks = []
    i = 0
    while i < len(path):
        c = path[i]
        if c == "{":
            j = path.index("}", i)
            toks.append(("alt", path[i + 1:j].split(",")))
            i = j + 1
        elif c == "#":
            m = re.match(r"\d+", path[i + 1:])
            toks.append(("num", int(m.group(0))))
            i += 1 + len(m.group(0))
        else:
            toks.append(("lit", c))
            i += 1
    return toks, sub, len(pattern.split(":", 1)[0])


def reference(pattern, addr):
    """-> (matches, unambiguous)"""
    toks, sub, _ = parse(pattern)
    pos = {0}
    unamb = True
    for kind, v in toks:
        new = set()
        for j in pos:
            if kind == "lit":
                if addr[j:j + 1] == v:
                    new.add(j + 1)
            elif kind == "num":
                m = re.match(r"\d+", addr[j:])
                if m and int(m.group(0)) < v:
                    new.add(j + len(m.group(0)))
            else:
                hits = [o for o in v if addr.startswith(o, j)]
                if len(hits) > 1:
                    unamb = False
                for o in hits:
                    new.add(j + len(o))
        pos = new
        if len(pos) > 1:
            unamb = False
    if sub:
        return any(addr[j:j + 1] == "/" for j in pos), unamb
    return len(addr) in pos, unamb


def addresses(pattern):
    """a base address that matches, and one-place variations of it"""
    toks, sub, _ = parse(pattern)
    choices = []
    for kind, v in toks:
        if kind == "lit":
            choices.append([v, "q", ""])
        elif kind == "num":
            choices.append(["0", str(v - 1), "0" + str(v - 1), str(v), str(v + 1), str(v * 10), "x", ""])
        else:
            choices.append(list(v) + ["zz", "", v[0][:-1] if len(v[0]) > 1 else "y"])
    base = [c[0] for c in choices]
    out = []
    tails = ["", "/", "/x", "/x/y", "x", "x/"] if sub else ["", "/", "x", "/x"]
    for t in tails:
        out.append("".join(base) + t)
    for k, ch in enumerate(choices):
        for alt in ch[1:]:
            b = list(base)
            b[k] = alt
            for t in (["/", "/x"] if sub else [""]):
                out.append("".join(b) + t)
    out.append("".join(base)[:-1] + ("/" if sub else ""))
    # an address that spells the pattern's own text - its '#', '{', ',' and '}' taken literally - is no address of the pattern
    # (unless the pattern has no such character)
    path_text = pattern.split(":", 1)[0]
    out.append(path_text)
    if sub:
        out.append(path_text + "x")
    # ... nor one that spells them literally in one place and properly in the others
    for k, (kind, v) in enumerate(toks):
        if kind in ("num", "opt"):
            b = list(base)
            b[k] = ("#%d" % v) if kind == "num" else "{" + ",".join(v) + "}"
            out.append("".join(b) + ("/" if sub else ""))
    # an address may itself contain ':' (OSC does not reserve it): it never spells the pattern's type part
    if ":" in pattern:
        tail = pattern.split(":", 1)[1]
        out.append("".join(base) + ("/" if sub else "") + ":" + tail)
        out.append("".join(base) + ("/" if sub else "") + ":")
    seen, res = set(), []
    for a in out:
        if a not in seen:
            seen.add(a)
            res.append(a)
    return res


LOCATIONS = ["foo", "a/b", "x{on,off}y", "{lo,hi}", "v#4", "v#10w", "a#2/b#3", "p#12", "n{a,b}#3", "blam", "s#2/{x,y}"]


def patterns():
    out = []
    for loc in LOCATIONS:
        for sub in ("", "/"):
            for args in ("", ":i", ":i:ff"):
                out.append(loc + sub + args)
    return out


def run_match_path(unit, pattern, addr):
    """-> offset into the pattern of the returned pointer, or None for NULL"""
    fn = unit.function("rtosc_match_path")
    cells = {ECELL: 0}
    holder = {}

    def deref(a, n):
        if isinstance(a, tuple) and a[0] == "addr":
            return holder["ev"].env[a[1]]
        if a in cells:
            return cells[a]
        if PB <= a <= PB + len(pattern):
            return ord(pattern[a - PB]) if a - PB < len(pattern) else 0
        if MB <= a <= MB + len(addr):
            return ord(addr[a - MB]) if a - MB < len(addr) else 0
        raise FD.Unknown("read outside the probe strings (%r)" % (a,), n)

    def store(a, v, n):
        if isinstance(a, tuple) and a[0] == "addr":
            holder["ev"].env[a[1]] = v
            return
        if a in cells:
            cells[a] = v
            return
        raise FD.Unknown("store outside the cursors", n)

    def text_from(a):
        if PB <= a <= PB + len(pattern):
            return pattern[a - PB:]
        if MB <= a <= MB + len(addr):
            return addr[a - MB:]
        raise FD.Unknown("pointer outside the probe strings")

    def hook(n, ev):
        k = n.get("kind")
        if k == "UnaryOperator" and n.get("opcode") == "&" and A.strip_casts(A.kids(n)[0]).get("kind") == "DeclRefExpr":
            return ("addr", A.ref_id(A.kids(n)[0]))
        if k == "BinaryOperator" and n.get("opcode") == "&":
            enum = [y["referencedDecl"]["name"] for y in A.walk(A.kids(n)[1]) if y.get("kind") == "DeclRefExpr" and (y.get("referencedDecl") or {}).get("kind") == "EnumConstantDecl"]
            subs = [y for y in A.walk(A.kids(n)[0]) if y.get("kind") == "ArraySubscriptExpr"]
            if len(enum) == 1 and enum[0] == "_ISdigit" and subs:
                v = ev.ev(A.kids(subs[0])[1])
                return 1 if 48 <= v <= 57 else 0
        if k == "CallExpr" and A.callee_name(n) in ("__assert_fail", "assert"):
            return 0
        if k == "StringLiteral":
            return A.string_literal(n)       # a literal set of characters handed to strcspn / strchr / strpbrk
        return NotImplemented

    def call(nm, vals, n):
        ev = holder["ev"]
        if nm == "isdigit":
            return 1 if 48 <= vals[0] <= 57 else 0
        if nm in ("atoi", "atol"):
            m_ = re.match(r'\s*([+-]?\d+)', text_from(vals[0]))
            return int(m_.group(1)) if m_ else 0
        if nm in ("strtol", "strtoul") and vals[2] == 10:
            t = text_from(vals[0])
            m_ = re.match(r'\s*([+-]?\d+)', t)
            used = len(m_.group(0)) if m_ else 0
            if isinstance(vals[1], tuple) and vals[1][0] == "addr":
                ev.env[vals[1][1]] = vals[0] + used
            return int(m_.group(1)) if m_ else 0
        if nm in ("strchr",):
            if isinstance(vals[0], str):      # strchr("literal", c): is c one of these characters
                return 1 if (vals[1] and chr(vals[1] & 0xff) in vals[0]) or not vals[1] else 0
            t = text_from(vals[0])
            i = t.find(chr(vals[1] & 0xff)) if vals[1] else len(t)
            return vals[0] + i if i >= 0 else 0
        if nm in ("strcspn", "strspn") and isinstance(vals[1], str):
            t = text_from(vals[0])
            i = 0
            while i < len(t) and ((t[i] in vals[1]) == (nm == "strspn")):
                i += 1
            return i
        if nm == "strpbrk" and isinstance(vals[1], str):
            t = text_from(vals[0])
            for i, c in enumerate(t):
                if c in vals[1]:
                    return vals[0] + i
            return 0
        if nm == "strlen":
            return len(text_from(vals[0]))
        if nm in ("strncmp", "memcmp") and len(vals) == 3:
            a = vals[0] if isinstance(vals[0], str) else text_from(vals[0])
            b = vals[1] if isinstance(vals[1], str) else text_from(vals[1])
            a, b = a[:vals[2]], b[:vals[2]]
            return 0 if a == b else (1 if a > b else -1)
        fns_ = [f_ for f_ in unit.functions.get(nm, []) if unit.body(f_) is not None]
        if len(fns_) == 1:
            return ev.call_function(unit, fns_[0], vals)
        raise FD.Unknown("call to %s" % nm, n)
    ev = FD.Eval(deref=deref, store=store, node_hook=hook, call=call, max_steps=6000)
    holder["ev"] = ev
    r = ev.call_function(unit, fn, [PB, MB, ECELL])
    if not r:
        return None
    if not (PB <= r <= PB + len(pattern)):
        raise FD.Unknown("rtosc_match_path returns a pointer outside the pattern")
    return r - PB
