"""G4 CAPACITY - at every call of a (buffer,len) builder the `len` argument must not
exceed the statically known capacity of `buffer`.

Resolved shapes (enumerated from the repository, each confirmed by reading):
  array        buffer is a local / member / static array  T buf[N]    -> capacity N
  vla          buffer is a VLA  char buf[E]                            -> capacity `E` (symbolic)
  new[]        buffer is a member pointer initialised by `new char[E]` in every constructor -> `E`
  forwarded    buffer and len are both (derived from) parameters of the enclosing function  -> caller's obligation
`len` may be an integer literal, sizeof(buffer), or the same symbolic expression.
"""
import re

from .. import astlib as A
from .. import fdeval as FD
from ..facts import AnalysisBroken

BUILDERS = {"rtosc_message": (0, 1), "rtosc_vmessage": (0, 1), "rtosc_amessage": (0, 1),
            "rtosc_avmessage": (0, 1), "rtosc_bundle": (0, 1)}


def _array_bound(qt):
    m = re.match(r'^(.*?)\[(\d+)\]$', qt.strip())
    if m:
        el = FD.ctype(m.group(1) + " *")
        size = el[1] if el[0] == "ptr" and el[1] else None
        return int(m.group(2)), size
    return None, None


def _inline_accessor(unit, e):
    """`obj.getter()` where getter's body is `return <member>;` -> the MemberExpr it returns"""
    e0 = A.strip_casts(e)
    if e0.get("kind") == "CXXMemberCallExpr" and len(A.kids(e0)) == 1:
        callee = A.strip_casts(A.kids(e0)[0])
        if callee.get("kind") == "MemberExpr":
            md = unit.by_id.get(callee.get("referencedMemberDecl"))
            name = callee.get("name")
            cands = [md] if md is not None else []
            for q, fns in unit.functions.items():
                if q.endswith("::" + str(name)):
                    cands += fns
            for fn in cands:
                body = unit.body(fn) if fn is not None else None
                if body is not None:
                    st = A.kids(body)
                    if len(st) == 1 and st[0].get("kind") == "ReturnStmt":
                        r = A.strip_casts(A.kids(st[0])[0])
                        if r.get("kind") == "MemberExpr":
                            return r
    return e


def _decl_of(unit, e):
    e = A.strip_casts(_inline_accessor(unit, e))
    if e.get("kind") == "DeclRefExpr":
        return unit.by_id.get(e["referencedDecl"]["id"]) or e["referencedDecl"], e
    if e.get("kind") == "MemberExpr":
        return unit.by_id.get(e.get("referencedMemberDecl")), e
    return None, e


def _ctor_new_size(unit, field):
    """If every constructor of the field's class initialises it with `new T[E]`, return src(E)."""
    rec = unit.parent.get(field.get("id"))
    if rec is None:
        return None
    recname = rec.get("name")
    sizes = set()
    nctor = 0
    for fns in unit.functions.values():
        for fn in fns:
            if fn.get("kind") != "CXXConstructorDecl":
                continue
            if not fn.get("_qname", "").startswith(recname + "::"):
                continue
            nctor += 1
            found = None
            for ci in A.kids(fn):
                if ci.get("kind") == "CXXCtorInitializer" and (ci.get("anyInit") or {}).get("id") == field.get("id"):
                    for x in A.walk(ci):
                        if x.get("kind") == "CXXNewExpr" and x.get("isArray"):
                            found = A.src(A.kids(x)[0])
            if found is None:
                return None
            sizes.add(found)
    if nctor and len(sizes) == 1:
        return sizes.pop()
    return None


def resolve_capacity(unit, fn, buf):
    """-> (shape, capacity) ; capacity int or symbolic string"""
    d, e = _decl_of(unit, buf)
    if d is None:
        return ("unknown", A.src(buf))
    qt = A.qtype(d) or A.qtype(e)
    n, elsz = _array_bound(qt)
    if n is not None:
        return ("array", n * (elsz or 1))
    k = d.get("kind")
    if k == "VarDecl" and re.match(r'^char\s*\[.+\]$', qt):
        # VLA: the size expression is the VarDecl's first child expression? clang JSON does not keep it as a child
        # of the VarDecl; it is in the type string.
        m = re.match(r'^char\s*\[(.+)\]$', qt)
        return ("vla", m.group(1).strip())
    if k == "ParmVarDecl":
        return ("forwarded", d.get("name"))
    if k == "FieldDecl":
        s = _ctor_new_size(unit, d)
        if s is not None:
            return ("new[]", s)
        return ("unknown-field", d.get("name"))
    if k == "VarDecl":
        # local pointer initialised from a parameter / another resolvable buffer
        ks = A.kids(d)
        if ks:
            return resolve_capacity(unit, fn, ks[-1])
    return ("unknown", A.src(buf))


def len_value(unit, fn, ln, bufdecl_id=None):
    """-> int | ('sizeof', decl id) | ('sym', text) | ('param', name)"""
    e = A.strip_casts(_inline_accessor(unit, ln))
    v = A.int_literal(e)
    if v is not None:
        return v
    if e.get("kind") == "UnaryExprOrTypeTraitExpr" and e.get("name") == "sizeof" and A.kids(e):
        d, _ = _decl_of(unit, A.kids(e)[0])
        if d is not None:
            return ("sizeof", d.get("id"))
    if e.get("kind") == "DeclRefExpr":
        d = unit.by_id.get(e["referencedDecl"]["id"]) or e["referencedDecl"]
        if d.get("kind") == "ParmVarDecl":
            return ("param", d.get("name"))
        # const local with literal initialiser
        if d.get("kind") == "VarDecl" and A.kids(d) and "const" in (A.stype(d) or ""):
            iv = A.int_literal(A.kids(d)[-1])
            if iv is not None:
                return iv
        return ("sym", d.get("name"))
    if e.get("kind") == "MemberExpr":
        return ("sym", e.get("name"))
    return ("sym", A.src(e))


def _origin_names(unit, e, depth):
    """names of the variables, parameters and members an expression is computed from, helpers of the unit looked into;
    "?" stands for anything not followed (a call out of the unit, too deep)"""
    out = set()
    for y in A.walk(e):
        k = y.get("kind")
        if k == "DeclRefExpr" and (y.get("referencedDecl") or {}).get("kind") in ("VarDecl", "ParmVarDecl", "FieldDecl"):
            d = unit.by_id.get(y["referencedDecl"]["id"])
            out.add(y["referencedDecl"].get("name"))
            if d is not None and d.get("kind") == "ParmVarDecl" and depth == 0:
                out.add("?")                      # a forwarded value: its bound is the caller's business
            elif d is not None and d.get("kind") == "VarDecl" and A.kids(d) and depth < 3:
                out |= _origin_names(unit, A.kids(d)[-1], depth + 1)
        elif k == "MemberExpr":
            out.add(y.get("name"))
        elif k in ("CallExpr", "CXXMemberCallExpr"):
            nm = A.callee_name(y)
            if nm is None and k == "CXXMemberCallExpr":
                nm = A.strip_casts(A.kids(y)[0]).get("name")
            fns = [f for q, fl in unit.functions.items() if q.split("::")[-1] == (nm or "") for f in fl if unit.body(f) is not None]
            if len(fns) != 1 or depth >= 3:
                out.add("?")
            else:
                sub = _origin_names(unit, unit.body(fns[0]), depth + 1)
                out |= (sub - {"?"}) | ({"?"} if "?" in sub and depth + 1 >= 3 else set())
    return out


def check_site(unit, fn, call, name):
    bi, li = BUILDERS[name]
    args = A.kids(call)[1:]
    buf, ln = args[bi], args[li]
    shape, cap = resolve_capacity(unit, fn, buf)
    lv = len_value(unit, fn, ln)
    d, _ = _decl_of(unit, buf)
    detail = {"buffer": A.src(buf), "len": A.src(ln), "shape": shape, "capacity": cap, "len_value": lv if not isinstance(lv, tuple) else list(lv)}
    if shape == "array":
        if isinstance(lv, int):
            return lv <= cap, detail
        if isinstance(lv, tuple) and lv[0] == "sizeof" and d is not None and lv[1] == d.get("id"):
            return True, detail
        return None, detail
    if shape in ("vla", "new[]"):
        capname = cap.replace("this->", "")
        if isinstance(lv, tuple) and lv[0] in ("sym", "param") and lv[1] in (cap, capname):
            return True, detail
        if isinstance(lv, tuple) and lv[0] == "sym" and A.src(A.strip_casts(ln)) == cap:
            return True, detail
        if isinstance(lv, tuple) and lv[0] == "sym" and d is not None and d.get("kind") == "FieldDecl":
            # another field of the same class: its constructor initialiser is a product/sum over the capacity field?
            rec = unit.parent.get(d.get("id"))
            for fns in unit.functions.values():
                for fn_ in fns:
                    if fn_.get("kind") != "CXXConstructorDecl":
                        continue
                    for ci in A.kids(fn_):
                        if ci.get("kind") == "CXXCtorInitializer" and (ci.get("anyInit") or {}).get("name") == lv[1]:
                            txt = A.src(A.kids(ci)[0]) if A.kids(ci) else ""
                            if capname in txt and ("*" in txt or "+" in txt):
                                detail["len_is"] = "%s = %s" % (lv[1], txt)
                                return False, detail
        # a local computed from something that never mentions the allocation size (the free space of a ring, a
        # length field of the message, ...) is no bound for this buffer
        le = A.strip_casts(ln)
        if le.get("kind") in ("CallExpr", "CXXMemberCallExpr", "BinaryOperator", "ConditionalOperator"):
            # the length is computed in place (`f(ring)`): the same question, asked of the expression itself
            names = _origin_names(unit, le, 0)
            if "?" not in names and capname not in names and cap not in names:
                detail["len_is"] = "%s (computed from %s)" % (A.src(le), sorted(names)[:6])
                return False, detail
        if le.get("kind") == "DeclRefExpr":
            ld = unit.by_id.get((le.get("referencedDecl") or {}).get("id"))
            if ld is not None and ld.get("kind") == "VarDecl" and A.kids(ld):
                names = _origin_names(unit, A.kids(ld)[-1], 0)
                if "?" not in names and capname not in names and cap not in names:
                    detail["len_is"] = "%s = %s (computed from %s)" % (ld.get("name"), A.src(A.kids(ld)[-1]), sorted(names)[:6])
                    return False, detail
        return None, detail
    if shape == "forwarded":
        if isinstance(lv, tuple) and lv[0] == "param":
            return True, detail
        return None, detail
    return None, detail


def builder_calls(unit):
    """(fn, call, name) for every call of a builder in functions defined under /repo."""
    for fns in unit.functions.values():
        for fn in fns:
            body = unit.body(fn)
            for c in A.calls_in(body):
                n = A.callee_name(c)
                if n in BUILDERS:
                    yield fn, c, n
