"""Repository-specific glue for G1: extracts, from rtosc.c's AST, the per-tag
payload tables of the seven sibling functions, the header summaries of sizer and
writer, every alignment step, and the byte-order sequences."""
from .. import astlib as A
from .. import fdeval as FD
from ..facts import AnalysisBroken
from . import codec as C

TAG_FUNCS = ["has_reserved", "vsosc_null", "rtosc_amessage", "rtosc_v2args", "arg_size", "extract_arg",
             "rtosc_message_ring_length"]


def _ret_cursor_ids(unit, fn):
    """Locals (not parameters) that occur in a non-literal return expression."""
    params = {p["id"] for p in unit.params(fn)}
    ids = set()
    for x in A.walk(fn):
        if x.get("kind") == "ReturnStmt" and A.kids(x):
            e = A.kids(x)[0]
            if A.int_literal(e) is None:
                ids |= C.refs(e)
    return ids - params


def _enclosing_loop_counter(unit, sw):
    """Variable tested by the while loop that directly encloses the switch (the `toparse` role)."""
    for p in unit.ancestors(sw):
        if p.get("kind") == "WhileStmt":
            c = A.strip_casts(A.kids(p)[0])
            v = C.var_id(c)
            if v:
                return v, p
            return None, p
        if p.get("kind") in ("FunctionDecl",):
            break
    return None, None


def _subscript_index_ids(fn):
    ids = set()
    for x in A.walk(fn):
        if x.get("kind") == "ArraySubscriptExpr":
            idx = A.kids(x)[1]
            for y in A.walk(idx):
                v = C.var_id(y) if y.get("kind") == "DeclRefExpr" else None
                if v:
                    ids.add(v)
    return ids


def has_reserved_table(unit):
    fn = unit.function("has_reserved")
    sws = C.find_switches(unit.body(fn))
    if len(sws) != 1:
        raise AnalysisBroken("has_reserved: expected one switch, found %d" % len(sws))
    labels = [l for l in C.case_table(sws[0]) if l != "default"]
    ev = FD.Eval()
    table = {}
    for c in sorted(set(labels)):
        try:
            r = ev.call_function(unit, fn, [c])
        except FD.Unknown as e:
            raise AnalysisBroken("has_reserved not evaluable: %s" % e)
        table[chr(c)] = "payload" if r else "none"
    # behaviour on a tag outside the label set
    try:
        other = ev.call_function(unit, fn, [ord('?')])
    except FD.Unknown as e:
        raise AnalysisBroken("has_reserved not evaluable: %s" % e)
    return table, ("payload" if other else "none"), fn


def loop_switch_summaries(unit, fname):
    """For vsosc_null / rtosc_amessage / rtosc_message_ring_length: per-tag summary of the switch in the
    `while(toparse)` loop.  Returns (table{tagchar: Summ}, default Summ, switch node, cursor ids)."""
    fn = unit.function(fname)
    body = unit.body(fn)
    cur = _ret_cursor_ids(unit, fn)
    if not cur:
        raise AnalysisBroken("%s: no position cursor found in its return statements" % fname)
    sws = [s for s in C.find_switches(body)]
    # the codec switch is the one enclosed by a while loop
    cands = []
    for s in sws:
        v, loop = _enclosing_loop_counter(unit, s)
        if loop is not None:
            cands.append((s, v))
    if len(cands) != 1:
        raise AnalysisBroken("%s: expected exactly one tag switch inside a while loop, found %d" % (fname, len(cands)))
    sw, loopvar = cands[0]
    counters = {}
    if loopvar:
        counters[loopvar] = "toparse"
    for i in _subscript_index_ids(fn) - cur:
        counters.setdefault(i, "argidx")
    sm = C.Summariser(unit, cur, counters)
    tab = C.case_table(sw)
    out = {}
    dflt = None
    for lab, stmts in tab.items():
        S = sm.summarise(stmts)
        if lab == "default":
            dflt = S
        else:
            out[chr(lab)] = S
    return out, dflt, sw, cur, fn


def header_summary(unit, fname):
    """Summary of the cursor movement before the tag loop (address + type-tag string)."""
    fn = unit.function(fname)
    body = unit.body(fn)
    cur = _ret_cursor_ids(unit, fn)
    stmts = []
    for s in A.kids(body):
        if s.get("kind") == "WhileStmt" and any(x.get("kind") == "SwitchStmt" for x in A.walk(s)):
            break
        stmts.append(s)
    sm = C.Summariser(unit, cur, {})
    # early returns / guards do not move the cursor; summarise only statements that mention a cursor
    rel = [s for s in stmts if s.get("kind") not in ("IfStmt", "ReturnStmt") or C.pad_kind(s, unit) is not None]
    rel = [s for s in rel if (C.refs(s) & cur) and s.get("kind") != "DeclStmt" or
           (s.get("kind") in ("WhileStmt",) and C.count_incs(s, cur))]
    return sm.summarise(rel), fn


def arg_size_table(unit):
    fn = unit.function("arg_size")
    cur = _ret_cursor_ids(unit, fn)
    # the blob length variable is padded, then added to the cursor
    sws = C.find_switches(unit.body(fn))
    if len(sws) != 1:
        raise AnalysisBroken("arg_size: expected one switch")
    sm = C.Summariser(unit, cur, {})
    out = {}
    dflt = None
    for lab, stmts in C.case_table(sws[0]).items():
        S = sm.summarise(stmts)
        # `return K` -> constant size; `return cursor - base` -> cursor summary
        if isinstance(S.ret, int) and not S.items:
            S.items = [S.ret] if S.ret else []
        if lab == "default":
            dflt = S
        else:
            out[chr(lab)] = S
    # guard at function entry: if(!has_reserved(type)) return 0
    guard = False
    for s in A.kids(unit.body(fn)):
        if s.get("kind") == "IfStmt":
            c = A.kids(s)[0]
            if any(A.callee_name(x) == "has_reserved" for x in A.calls_in(c)) and \
               any(x.get("kind") == "ReturnStmt" and A.int_literal(A.kids(x)[0]) == 0 for x in A.walk(A.kids(s)[1]) if A.kids(x)):
                guard = True
    return out, dflt, guard, sws[0], fn


def extract_arg_table(unit):
    fn = unit.function("extract_arg")
    params = unit.params(fn)
    if len(params) != 2:
        raise AnalysisBroken("extract_arg: expected 2 parameters")
    cur = {params[0]["id"]}
    sm = C.Summariser(unit, cur, {})
    out = {}
    sws = C.find_switches(unit.body(fn))
    if len(sws) != 2:
        raise AnalysisBroken("extract_arg: expected two switches (no-payload / payload), found %d" % len(sws))
    info = {}
    for sw in sws:
        for lab, stmts in C.case_table(sw).items():
            if lab == "default":
                continue
            S = sm.summarise(stmts)
            cls = None
            txt = " ".join(A.src(s) for s in stmts)
            # string: result.s = (char*)arg_pos ; blob: 4 bytes + result.b.data = arg_pos
            assigns_ptr = [x for x in A.walk({"kind": "CompoundStmt", "inner": stmts})
                           if x.get("kind") == "BinaryOperator" and x.get("opcode") == "=" and
                           C.var_id(A.kids(x)[1]) in cur]
            S.ptr_members = []
            for a in assigns_ptr:
                lhs = A.strip_casts(A.kids(a)[0])
                chain = []
                while lhs.get("kind") == "MemberExpr":
                    chain.append(lhs.get("name"))
                    lhs = A.strip_casts(A.kids(lhs)[0])
                S.ptr_members.append(".".join(reversed(chain)))
            out[chr(lab)] = S
    return out, fn


def v2args_table(unit):
    fn = unit.function("rtosc_v2args")
    sws = C.find_switches(unit.body(fn))
    if len(sws) != 1:
        raise AnalysisBroken("rtosc_v2args: expected one switch")
    idx = _subscript_index_ids(fn)
    sm = C.Summariser(unit, set(), {i: "argidx" for i in idx})
    out = {}
    dflt = None
    for lab, stmts in C.case_table(sws[0]).items():
        S = sm.summarise(stmts)
        # union members written: args[k].<member>
        mem = []
        for s in stmts:
            for x in A.walk(s):
                if x.get("kind") == "BinaryOperator" and x.get("opcode") == "=":
                    lhs = A.strip_casts(A.kids(x)[0])
                    chain = []
                    while lhs.get("kind") in ("MemberExpr", "ArraySubscriptExpr"):
                        if lhs.get("kind") == "MemberExpr":
                            chain.append(lhs.get("name"))
                        base = A.strip_casts(A.kids(lhs)[0])
                        lhs = base
                    if chain:
                        mem.append(".".join(reversed(chain)))
                elif x.get("kind") == "CallExpr" and A.callee_name(x) in ("memcpy", "memmove") and len(A.kids(x)) >= 3:
                    # memcpy(args[k].<member>, ...): a write of that member as a whole
                    lhs = A.strip_casts(A.kids(x)[1])
                    chain = []
                    while lhs.get("kind") in ("MemberExpr", "ArraySubscriptExpr", "UnaryOperator"):
                        if lhs.get("kind") == "MemberExpr":
                            chain.append(lhs.get("name"))
                        lhs = A.strip_casts(A.kids(lhs)[0])
                    if chain:
                        mem.append(".".join(reversed(chain)))
        S.written = mem
        # integral casts between the va_arg and the union member that are narrower than the member: the value is cut
        # before it is stored (`args[k].i = (unsigned char)va_arg(ap, int)` keeps 8 of the 32 bits of an OSC char)
        S.narrowing = []
        for s in stmts:
            for x in A.walk(s):
                if x.get("kind") == "BinaryOperator" and x.get("opcode") == "=" and any(y.get("kind") == "VAArgExpr" for y in A.walk(A.kids(x)[1])):
                    mct = FD.ctype(A.qtype(A.kids(x)[0]))
                    e = A.kids(x)[1]
                    while e.get("kind") != "VAArgExpr" and A.kids(e):
                        if e.get("kind") in ("CStyleCastExpr", "ImplicitCastExpr", "CXXStaticCastExpr") and e.get("castKind") == "IntegralCast":
                            tct = FD.ctype(A.qtype(e))
                            if tct[0] == "int" and mct[0] == "int" and tct[1] < mct[1]:
                                S.narrowing.append(A.qtype(e))
                        nxt = [k_ for k_ in A.kids(e) if any(y.get("kind") == "VAArgExpr" for y in A.walk(k_))]
                        if not nxt:
                            break
                        e = nxt[0]
        if lab == "default":
            dflt = S
        else:
            out[chr(lab)] = S
    return out, dflt, sws[0], fn


def v2args_class(S):
    """payload class implied by the va_arg types and the union member written."""
    va = [FD._clean(t) for t in S.va_types]
    wr = sorted(set(S.written))
    if not va:
        return "none"
    if va == ["long"] or va == ["long long"] or va == ["unsigned long"]:
        return "8" if wr in (["h"], ["t"]) else "?va=%s member=%s" % (va, wr)
    if va == ["double"]:
        if wr == ["d"]:
            return "8"
        if wr == ["f"]:
            return "4"
        return "?va=%s member=%s" % (va, wr)
    if va == ["int"]:
        return "4" if wr == ["i"] else "?va=%s member=%s" % (va, wr)
    if va in (["unsigned char *"], ["uint8_t *"]):
        return "4" if wr == ["m"] else "?va=%s member=%s" % (va, wr)
    if va in (["char *"],):
        return "string" if wr == ["s"] else "?va=%s member=%s" % (va, wr)
    if len(va) == 2 and va[0] == "int" and va[1] in ("unsigned char *", "char *"):
        return "blob" if wr == ["b.data", "b.len"] else "?va=%s member=%s" % (va, wr)
    return "?va=%s member=%s" % (va, wr)


def extract_arg_classes_eval(unit):
    """{tag: payload class} of extract_arg by evaluation: the function is run (finite-domain, on the AST, helpers inlined)
    for every tag on memory holding the bytes 0x81 0x82 ...; the class is read off what arrives in the result union -
    the big-endian value of 8 or 4 bytes, the bytes themselves (midi), a pointer to the memory (string) or a length and a
    pointer behind it (blob).  Used when the decoder is not written as the two switches the shape recogniser knows."""
    fn = unit.function("extract_arg")
    ps = unit.params(fn)
    BASE, MADDR = 1 << 17, 1 << 16
    pat = [0x81 + i for i in range(16)]
    be = lambda n: int.from_bytes(bytes(pat[:n]), "big")
    res_decls = [d for d in A.walk(unit.body(fn)) if d.get("kind") == "VarDecl" and "rtosc_arg_t" in (A.stype(d) or "")]
    if len(res_decls) != 1:
        raise AnalysisBroken("extract_arg: result variable not found")
    rid = res_decls[0]["id"]
    keys = set()
    for x in A.walk(unit.body(fn)):
        if x.get("kind") == "MemberExpr":
            root = x
            while root.get("kind") in ("MemberExpr", "ImplicitCastExpr", "ParenExpr") and A.kids(root):
                root = A.kids(root)[0]
            if root.get("kind") == "DeclRefExpr" and (root.get("referencedDecl") or {}).get("id") == rid:
                keys.add("member:" + A.src(x).replace(" ", ""))
    out = {}
    for tag in "ifsbhtdScrmTFNI":
        mbytes = {}

        def deref(addr, n):
            k = addr - BASE
            if 0 <= k < len(pat):
                return pat[k]
            raise FD.Unknown("read outside the probe payload", n)

        def store(addr, v, n, mbytes=mbytes):
            if MADDR <= addr < MADDR + 4:
                mbytes[addr - MADDR] = v & 0xff
                return
            raise FD.Unknown("store outside the result", n)

        def hook(n, ev):
            k = n.get("kind")
            if k == "InitListExpr":
                return "RES"
            if k == "MemberExpr" and n.get("name") == "m":
                return MADDR
            if k == "UnaryExprOrTypeTraitExpr" and n.get("name") == "sizeof" and A.kids(n) and A.strip(A.kids(n)[0]).get("kind") == "MemberExpr" and A.strip(A.kids(n)[0]).get("name") == "m":
                return 4
            return NotImplemented

        def call(nm, vals, n, mbytes=mbytes):
            if nm in ("memcpy", "memmove") and MADDR <= vals[0] < MADDR + 4:
                for k_ in range(vals[2]):
                    mbytes[vals[0] - MADDR + k_] = deref(vals[1] + k_, n)
                return vals[0]
            fns_ = [f_ for f_ in unit.functions.get(nm, []) if unit.body(f_) is not None]
            if len(fns_) == 1:
                return ev.call_function(unit, fns_[0], vals)
            raise FD.Unknown("call to %s" % nm, n)
        env0 = {k_: 0 for k_ in keys}
        env0[ps[0]["id"]] = BASE
        env0[ps[1]["id"]] = ord(tag)
        ev = FD.Eval(env=env0, deref=deref, store=store, node_hook=hook, call=call, max_steps=6000)
        try:
            try:
                ev.run(unit.body(fn))          # (not call_function: the member writes are read from the frame afterwards)
            except FD._Return:
                pass
        except FD.Unknown as e:
            raise AnalysisBroken("extract_arg not evaluable for tag '%s': %s" % (tag, e))
        got = {k_[len("member:"):].split(".", 1)[1]: v for k_, v in ev.env.items() if isinstance(k_, str) and k_.startswith("member:") and v}
        w32 = lambda v: v & 0xffffffff
        if got.get("s") == BASE and len(got) == 1:
            c = "string"
        elif got.get("b.data") == BASE + 4 and w32(got.get("b.len", 0)) == be(4) and set(got) == {"b.data", "b.len"}:
            c = "blob"
        elif len(got) == 1 and list(got)[0] in ("t", "h", "d") and (list(got.values())[0] & ((1 << 64) - 1)) == be(8):
            c = "8"
        elif len(got) == 1 and list(got)[0] in ("i", "f", "c", "r") and w32(list(got.values())[0]) == be(4):
            c = "4"
        elif not got and [mbytes.get(i_) for i_ in range(4)] == pat[:4]:
            c = "4"
        elif (not got or set(got) == {"T"}) and not mbytes:
            c = "none"
        else:
            c = "?%s%s" % (sorted(got.items()), sorted(mbytes.items()) if mbytes else "")
        out[tag] = c
    return out, fn
