"""SECOND-VALUE: when the printer writes a run as `a [b] ... c` (rtosc_print_range), it leaves the second value out only
if the readers will assume the same step: the delta is exactly +1 or -1 *in the range's own type* and no value of that
type stands in front of the range (which the readers would take as the step's other end).

rtosc_print_range is evaluated (finite-domain, on the AST, unit helpers in place) up to the point where it writes the
` ... ` literal, on symbolic slots: the argument values are (type, value) pairs, rtosc_arg_val_from_int builds such a
pair, rtosc_arg_vals_eq_single compares pairs, rtosc_arg_val_to_int / _to_float narrow like the C conversions.  What is
observed is whether the second value was produced (rtosc_arg_val_range_arg(.., 1, ..) / a second rtosc_print_arg_val).
"""
from .. import astlib as A
from .. import fdeval as FD

ABASE, PBASE, OBASE, BBASE = 1 << 20, 1 << 21, 1 << 22, 1 << 23
SLOT = 24


class _Stop(Exception):
    pass


def _c_int(v):
    v = int(v)
    v &= 0xffffffff
    return v - (1 << 32) if v >> 31 else v


def second_printed(unit, typ, first, delta, num, prev):
    """prev: None or (type, value).  -> True/False"""
    fn = unit.function("rtosc_print_range")
    ps = unit.params(fn)
    role = {}
    for p in ps:
        t = (A.qtype(p) or "").replace(" ", "")
        nm = p.get("name")
        if "rtosc_arg_val_t*" in t and not role.get("arg"):
            role["arg"] = p
        elif "rtosc_arg_val_t*" in t:
            role["prev"] = p
        elif "rtosc_print_options" in t:
            role["opt"] = p
        elif t in ("char*",):
            role["buf"] = p
        elif "int*" in t:
            role["cols"] = p
        else:
            role["bs"] = p
    if not {"arg", "prev", "opt", "buf"} <= set(role):
        raise FD.Unknown("rtosc_print_range: parameters not recognised", fn)
    slots = {ABASE: ("-", {"num": num, "delta": 1}), ABASE + SLOT: (typ, delta), ABASE + 2 * SLOT: (typ, first)}
    if prev is not None:
        slots[PBASE] = prev
    trace = {"prints": 0, "second": False}
    holder = {}

    def av_of(p, n):
        if isinstance(p, tuple) and p[0] == "addr":
            v = holder["ev"].env.get(p[1])
            if not (isinstance(v, tuple) and v[0] == "av"):
                raise FD.Unknown("argument value read before it was built", n)
            return (v[1], v[2])
        if p in slots:
            return slots[p]
        raise FD.Unknown("argument value at %r" % (p,), n)

    def hook(n, ev):
        k = n.get("kind")
        ks = A.kids(n)
        if k == "UnaryOperator" and n.get("opcode") == "&":
            o = A.strip_casts(ks[0])
            if o.get("kind") == "DeclRefExpr":
                return ("addr", o["referencedDecl"]["id"])
            if o.get("kind") == "MemberExpr" and o.get("name") == "val":
                return ("val", ev.ev(A.kids(o)[0]))
        if k == "MemberExpr":
            nm = n.get("name")
            if nm == "type" and ks:
                b = ev.ev(ks[0])
                return ord(av_of(b, n)[0])
            if nm in ("compress_ranges",):
                return 1
            if nm in ("linelength",):
                return 80
            if nm in ("sep",):
                return OBASE + 64
        if k == "CallExpr":
            nm = A.callee_name(n)
            args = ks[1:]
            if nm in ("rtosc_arg_rep_num", "rtosc_arg_rep_has_delta", "rtosc_av_rep_num", "rtosc_av_rep_has_delta"):
                v = ev.ev(args[0])
                base = v[1] if isinstance(v, tuple) and v[0] == "val" else v
                t, info = slots.get(base, (None, None))
                if t != "-":
                    raise FD.Unknown("%s asked of a slot that is no range" % nm, n)
                return info["num"] if nm.endswith("num") else info["delta"]
            if nm == "rtosc_print_arg_val":
                ev.ev(args[0])
                trace["prints"] += 1
                return 3
            if nm == "rtosc_arg_val_range_arg":
                if ev.ev(args[1]) == 1:
                    trace["second"] = True
                tgt = ev.ev(args[2])
                if isinstance(tgt, tuple) and tgt[0] == "addr":
                    ev.env[tgt[1]] = ("av", typ, first + delta * ev.ev(args[1]))
                return 0
            if nm == "rtosc_arg_val_from_int":
                tgt, t, v = ev.ev(args[0]), ev.ev(args[1]), ev.ev(args[2])
                if not (isinstance(tgt, tuple) and tgt[0] == "addr"):
                    raise FD.Unknown("rtosc_arg_val_from_int into %r" % (tgt,), n)
                ev.env[tgt[1]] = ("av", chr(t), float(v) if chr(t) in "fd" else v)
                return 1
            if nm in ("rtosc_arg_vals_eq_single",):
                a, b = av_of(ev.ev(args[0]), n), av_of(ev.ev(args[1]), n)
                return 1 if (a[0] == b[0] and a[1] == b[1]) else 0
            if nm in ("rtosc_arg_vals_cmp_single",):
                a, b = av_of(ev.ev(args[0]), n), av_of(ev.ev(args[1]), n)
                if a[0] != b[0]:
                    return 1 if a[0] > b[0] else -1
                return (a[1] > b[1]) - (a[1] < b[1])
            if nm in ("rtosc_arg_val_to_int",):
                a = av_of(ev.ev(args[0]), n)
                tgt = ev.ev(args[1])
                if a[0] not in "ihcfdTF":
                    return 0
                if isinstance(tgt, tuple) and tgt[0] == "addr":
                    ev.env[tgt[1]] = _c_int(a[1])
                return 1
            if nm in ("asnprintf", "snprintf"):
                lit = A.string_literal(args[2]) if len(args) > 2 else None
                if lit is not None and "..." in lit:
                    raise _Stop()
                return len(lit) if lit is not None else 1
            if nm in ("__assert_fail",):
                return 0
            fns = [f for f in unit.functions.get(nm, []) if unit.body(f) is not None]
            if len(fns) == 1:
                return ev.call_function(unit, fns[0], [ev.ev(a) for a in args])
            raise FD.Unknown("call to %s" % nm, n)
        return NotImplemented

    def deref(addr, n):
        return 0

    def store(addr, v, n):
        return None
    env = {role["arg"]["id"]: ABASE, role["prev"]["id"]: PBASE if prev is not None else 0, role["opt"]["id"]: OBASE, role["buf"]["id"]: BBASE}
    if "bs" in role:
        env[role["bs"]["id"]] = 4096
    if "cols" in role:
        env[role["cols"]["id"]] = OBASE + 128
    ev = FD.Eval(env=env, node_hook=hook, deref=deref, store=store, max_steps=4000)
    holder["ev"] = ev
    try:
        ev.run(unit.body(fn))
    except _Stop:
        return trace["second"] or trace["prints"] >= 2
    except FD._Return:
        pass
    raise FD.Unknown("rtosc_print_range: the ` ... ` literal was not reached", fn)


def cases():
    out = []
    for typ, deltas in (("i", [1, -1, 2, -3, 0x10001]), ("h", [1, -1, 2, (1 << 32) + 1, (1 << 32) - 1, -((1 << 32) + 1), 1 << 32]),
                        ("f", [1.0, -1.0, 1.5, -1.5, 0.5, 2.0]), ("d", [1.0, -1.0, 1.25, 3.0]), ("c", [1, -1, 2])):
        for d in deltas:
            first = 10 if typ in "ihc" else 10.0
            for prev in (None, (typ, first), (typ, first - (3 if typ in "ihc" else 3.0)), ("s" if typ != "s" else "i", 0)):
                out.append((typ, first, d, 5, prev))
    return out


def expected(typ, first, delta, num, prev):
    unit_step = delta in (1, -1)
    confusing = prev is not None and prev[0] == typ and prev[1] != first
    return not (unit_step and not confusing)
