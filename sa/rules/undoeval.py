"""Token evaluation of the undo history's message handling (rewind, replay, mergeEvent).

The functions are evaluated - finite-domain, on the AST, helpers of the unit inlined - over symbolic tokens instead of
bytes: an event is ("msg", X), its K-th argument ("arg", X, K), its type string at offset O ("types", X, O), the
I-th history entry ("elem", I) with members first = ("time", I) and second = ("msg", I).  The model fixes what the
library calls would answer (difftime from a table of ages, strcmp by the addresses of the model) and records what the
function does: rtosc_amessage calls (buffer, address, type string, arguments), callback invocations, stores into
history entries, and the value returned.  No spelling is matched: a rewrite through helpers, references, renamed
locals or inverted conditions evaluates to the same record.
"""
from .. import astlib as A
from .. import fdeval as FD

PASS = ("ExprWithCleanups", "MaterializeTemporaryExpr", "CXXBindTemporaryExpr")


class Run:
    def __init__(self, unit, pos=0, ages=(), addrs=(), own_address="A", world=None):
        self.u = unit
        # the world the tokens live in: {"tag": the event's value tag ('i', 'f', 'c') or None for "some tag", "same": whether
        # the event's old and new value are equal}.  Without a world, different tokens compare unequal.
        self.world = world or {"tag": None, "same": False}
        self.pos = pos
        self.ages = list(ages)
        self.addrs = list(addrs)
        self.own = own_address
        self.amessages = []      # {"buf", "address", "types", "args"}
        self.callbacks = []      # buffers handed to the callback, with the number of amessage calls before
        self.stores = {}         # ("first"|"second", i) -> token
        self.arrays = {}         # (decl id, index) -> token
        self.bufs = {}           # buffer token -> content token (what was last built / copied into it)
        self.oob = []
        self.ev = None

    # ------------------------------------------------------------------ model
    def value_of(self, t):
        if isinstance(t, tuple) and t and t[0] == "arg" and t[2] == 0:
            x = t[1]
            if isinstance(x, int):
                return ("address", self.addrs[x] if 0 <= x < len(self.addrs) else "?")
            return ("address", self.own)
        return t

    def _elem(self, i, n):
        if not isinstance(i, int) or i < 0 or i >= len(self.ages):
            self.oob.append(i)
        return ("elem", i)

    def _member(self, name, i):
        if (name, i) in self.stores:
            return self.stores[(name, i)]
        return ("time", i) if name == "first" else ("msg", i)

    def _age(self, a, b, n):
        def t(x):
            if x == ("time", "now"):
                return 0.0
            if isinstance(x, tuple) and x[0] == "time" and isinstance(x[1], int):
                return -float(self.ages[x[1]]) if 0 <= x[1] < len(self.ages) else 0.0
            raise FD.Unknown("difftime of %r" % (x,), n)
        return t(a) - t(b)

    # ------------------------------------------------------------------ hooks
    def hook(self, n, ev):
        k = n.get("kind")
        ks = A.kids(n)
        if k in PASS and ks:
            return ev.ev(ks[0])
        if k in ("CXXConstructExpr", "CXXTemporaryObjectExpr") and len(ks) == 1:
            return ev.ev(ks[0])          # copy of a pair / rtosc_arg_t
        if k == "CXXConstructExpr" and not ks:
            return ("default",)          # `rtosc_arg_t args[3];`
        if k in ("CXXConstructExpr", "CXXTemporaryObjectExpr", "CXXFunctionalCastExpr") and len(ks) == 2 and "pair" in (A.qtype(n) or ""):
            return ("pair", ev.ev(ks[0]), ev.ev(ks[1]))      # Event(time, message)
        if k == "CXXDeleteExpr":
            return 0
        if k == "CallExpr":
            return self._call(n, ev)
        if k == "CXXMemberCallExpr":
            cal = A.strip_casts(ks[0])
            nm = cal.get("name")
            if nm == "size":
                return self.pos
            if nm in ("front", "back") and not ks[1:]:
                return self._elem(0 if nm == "front" else self.pos - 1, n)
            if nm == "at" and len(ks) == 2:
                return self._elem(ev.ev(ks[1]), n)
            # a method of the same class, called on this object: evaluated in place
            base_ = A.strip_casts(A.kids(cal)[0]) if A.kids(cal) else None
            if base_ is None or base_.get("kind") == "CXXThisExpr":
                cands = [f for q, fl in self.u.functions.items() if q.split("::")[-1] == nm for f in fl if self.u.body(f) is not None]
                if len(cands) == 1:
                    return ev.call_function(self.u, cands[0], [ev.ev(a) for a in ks[1:]])
            raise FD.Unknown("member call %s" % nm, n)
        if k == "CXXOperatorCallExpr":
            op = A.src(ks[0]) if ks else ""
            if "operator[]" in op:
                return self._elem(ev.ev(ks[2]), n)
            if "operator=" in op and len(ks) == 3:
                return self._assign(ks[1], ks[2], ev, n)
            if "operator()" in op:
                args = [ev.ev(a) for a in ks[2:]]
                self.callbacks.append({"buffer": args[0] if args else None, "messages_built_before": len(self.amessages)})
                return 0
            raise FD.Unknown("operator call %s" % op, n)
        if k == "BinaryOperator" and n.get("opcode") == "=":
            l = A.strip_casts(ks[0])
            if (l.get("kind") == "MemberExpr" and l.get("name") in ("first", "second")) or l.get("kind") == "ArraySubscriptExpr":
                return self._assign(ks[0], ks[1], ev, n)
            return NotImplemented
        if k == "BinaryOperator" and n.get("opcode") in ("+", "-") and "char" in (A.qtype(n) or "") and "*" in (A.qtype(n) or ""):
            a, b = ev.ev(ks[0]), ev.ev(ks[1])
            sgn = 1 if n.get("opcode") == "+" else -1
            if isinstance(a, tuple) and a[0] == "types" and isinstance(b, int):
                return ("types", a[1], a[2] + sgn * b)
            if isinstance(b, tuple) and b[0] == "types" and isinstance(a, int) and sgn == 1:
                return ("types", b[1], b[2] + a)
            if isinstance(a, int) and isinstance(b, int):
                return a + sgn * b
            raise FD.Unknown("pointer arithmetic on %r, %r" % (a, b), n)
        if k == "ArraySubscriptExpr":
            b = ev.ev(ks[0])
            i = ev.ev(ks[1])
            if isinstance(b, tuple) and b[0] == "arr":
                return self.arrays.get((b[1], i), ("unset", b[1], i))
            if isinstance(b, tuple) and b[0] == "types" and isinstance(i, int):
                if self.world["tag"] and b[2] + i in (1, 2):
                    return ord(self.world["tag"])         # `s<t><t>`: both value tags are the event's tag
                if b[2] + i == 0 and self.world["tag"]:
                    return ord("s")
                return ("typechar", b[1], b[2] + i)
            return NotImplemented
        if k == "BinaryOperator" and n.get("opcode") in ("==", "!="):
            a, b = ev.ev(ks[0]), ev.ev(ks[1])
            if isinstance(a, tuple) and isinstance(b, tuple) and a[0] == "arg" and b[0] == "arg" and a[1] == b[1] and {a[2], b[2]} == {1, 2}:
                eq = bool(self.world["same"])             # old value against new value of one event
            elif isinstance(a, tuple) and isinstance(b, tuple) and a[0] == "typechar" and b[0] == "typechar" and a[1] == b[1] and {a[2], b[2]} == {1, 2}:
                eq = True                                 # the two value tags of an event are the same tag
            else:
                eq = (a == b)
            return int(eq == (n.get("opcode") == "=="))
        if k == "UnaryOperator" and n.get("opcode") == "&":
            o = A.strip_casts(ks[0])
            if o.get("kind") == "DeclRefExpr":
                d = self.u.by_id.get((o.get("referencedDecl") or {}).get("id")) or {}
                if "[" in (A.qtype(o) or ""):
                    return ("arr", o["referencedDecl"]["id"])
                return ("addr", o["referencedDecl"]["id"])
            if o.get("kind") == "ArraySubscriptExpr":
                b = ev.ev(A.kids(o)[0])
                i = ev.ev(A.kids(o)[1])
                if isinstance(b, tuple) and b[0] == "arr" and i == 0:
                    return b
            return NotImplemented
        if k == "MemberExpr":
            nm = n.get("name")
            base = A.strip_casts(ks[0]) if ks else None
            if nm == "history_pos":
                return self.pos
            if nm in ("history", "cb"):
                return nm.upper()
            if nm in ("first", "second") and ks:
                b = ev.ev(ks[0])
                if isinstance(b, tuple) and b[0] == "elem":
                    return self._member(nm, b[1])
                raise FD.Unknown("member .%s of %r" % (nm, b), n)
            if ks and "rtosc_arg_t" in (A.qtype(ks[0]) or ""):
                b = ev.ev(ks[0])
                if isinstance(b, tuple) and b[0] == "arg":
                    return b             # the union member read is the argument's value
                raise FD.Unknown("member .%s of %r" % (nm, b), n)
            return NotImplemented
        if k == "DeclRefExpr":
            rid = (n.get("referencedDecl") or {}).get("id")
            if "[" in (A.qtype(n) or "") and (n.get("referencedDecl") or {}).get("kind") == "VarDecl":
                return ("arr", rid)
            if rid in ev.env:
                return NotImplemented
            d = self.u.by_id.get(rid)
            if d is not None and d.get("kind") == "VarDecl" and A.kids(d) and "const" in (A.qtype(d) or ""):
                return ev.ev(A.kids(d)[-1])      # named constant of the unit
            return NotImplemented
        if k == "ImplicitCastExpr" and n.get("castKind") == "ArrayToPointerDecay":
            return ev.ev(ks[0])
        return NotImplemented

    def _assign(self, lhs, rhs, ev, n):
        l = A.strip_casts(lhs)
        v = ev.ev(rhs)
        if l.get("kind") == "MemberExpr" and l.get("name") in ("first", "second"):
            b = ev.ev(A.kids(l)[0])
            if isinstance(b, tuple) and b[0] == "elem":
                self.stores[(l.get("name"), b[1])] = v
                return v
            raise FD.Unknown("store to .%s of %r" % (l.get("name"), b), n)
        if l.get("kind") == "ArraySubscriptExpr":
            b = ev.ev(A.kids(l)[0])
            i = ev.ev(A.kids(l)[1])
            if isinstance(b, tuple) and b[0] == "arr":
                self.arrays[(b[1], i)] = v
                return v
            raise FD.Unknown("store to element of %r" % (b,), n)
        if l.get("kind") == "DeclRefExpr":
            cur = ev.env.get(l["referencedDecl"]["id"])
            if isinstance(cur, tuple) and cur[0] == "elem" and isinstance(v, tuple) and v[0] == "pair":
                self.stores[("first", cur[1])] = v[1]          # a whole entry assigned through a reference to it
                self.stores[("second", cur[1])] = v[2]
                return v
            ev.env[l["referencedDecl"]["id"]] = v
            return v
        if l.get("kind") == "CXXOperatorCallExpr":
            tgt = ev.ev(l)
            if isinstance(tgt, tuple) and tgt[0] == "elem" and isinstance(v, tuple) and v[0] == "pair":
                self.stores[("first", tgt[1])] = v[1]
                self.stores[("second", tgt[1])] = v[2]
                return v
        raise FD.Unknown("assignment to %s" % l.get("kind"), n)

    def _call(self, n, ev):
        name = A.callee_name(n)
        args = A.kids(n)[1:]
        if name in ("printf", "fprintf", "assert", "__assert_fail"):
            return 0
        if name in ("memset", "memcpy", "memmove", "memcmp", "__builtin_memset", "__builtin_memcpy", "__builtin_memcmp"):
            # buffers carry a content token: what the last rtosc_amessage built into them (statics start zeroed)
            nm_ = name.replace("__builtin_", "")
            v = [ev.ev(a) for a in args]
            if not (isinstance(v[0], tuple) and v[0][0] in ("arr", "addr")):
                return 0 if nm_ != "memcmp" else 1
            if nm_ == "memset":
                self.bufs[v[0]] = ("zero",) if v[1] == 0 else ("filled", v[1])
                return 0
            if nm_ in ("memcpy", "memmove"):
                self.bufs[v[0]] = self.bufs.get(v[1], ("zero",)) if isinstance(v[1], tuple) else ("unknown", id(n))
                return 0
            a_, b_ = self.bufs.get(v[0], ("zero",)), (self.bufs.get(v[1], ("zero",)) if isinstance(v[1], tuple) else ("unknown", id(n)))
            return 0 if a_ == b_ else 1
        if name == "make_pair" and len(args) == 2:
            return ("pair", ev.ev(args[0]), ev.ev(args[1]))
        if name == "rtosc_argument":
            m, k_ = ev.ev(args[0]), ev.ev(args[1])
            if isinstance(m, tuple) and m[0] == "msg" and isinstance(k_, int):
                return ("arg", m[1], k_)
            raise FD.Unknown("rtosc_argument of %r" % (m,), n)
        if name == "rtosc_argument_string":
            m = ev.ev(args[0])
            if isinstance(m, tuple) and m[0] == "msg":
                return ("types", m[1], 0)
            raise FD.Unknown("rtosc_argument_string of %r" % (m,), n)
        if name == "rtosc_amessage":
            v = [ev.ev(a) for a in args]
            ap = v[4]
            if isinstance(ap, tuple) and ap[0] == "addr":
                av = [ev.env.get(ap[1], ("unset", ap[1]))]
            elif isinstance(ap, tuple) and ap[0] == "arr":
                idx = sorted(i for (d, i) in self.arrays if d == ap[1])
                av = [self.arrays.get((ap[1], i), ("unset", ap[1], i)) for i in range((idx[-1] + 1) if idx else 0)]
            else:
                raise FD.Unknown("argument array %r of rtosc_amessage" % (ap,), n)
            self.amessages.append({"buf": v[0], "size": v[1], "address": v[2], "types": v[3], "args": av})
            if isinstance(v[0], tuple):
                self.bufs[v[0]] = ("built", v[2], v[3], tuple(av))
            return 16
        if name in ("min", "max") and len(args) == 2:
            a, b = ev.ev(args[0]), ev.ev(args[1])
            if isinstance(a, int) and isinstance(b, int) and not isinstance(a, bool):
                return min(a, b) if name == "min" else max(a, b)
            raise FD.Unknown("%s of %r and %r" % (name, a, b), n)
        if name == "difftime":
            return self._age(ev.ev(args[0]), ev.ev(args[1]), n)
        if name in ("strcmp", "strncmp"):
            a, b = self.value_of(ev.ev(args[0])), self.value_of(ev.ev(args[1]))
            if not (isinstance(a, tuple) and a[0] == "address" and isinstance(b, tuple) and b[0] == "address"):
                raise FD.Unknown("strcmp of %r and %r" % (a, b), n)
            return 0 if a == b else (1 if a > b else -1)
        fn = None
        d = A.callee_decl(n)
        if d is not None:
            for q, fl in self.u.functions.items():
                for f in fl:
                    if f.get("id") == d.get("id") or (q.split("::")[-1] == name and self.u.body(f) is not None):
                        if self.u.body(f) is not None:
                            fn = f
        if fn is not None:
            return ev.call_function(self.u, fn, [ev.ev(a) for a in args])
        raise FD.Unknown("call %s" % name, n)

    # ------------------------------------------------------------------ entry
    def stmt_hook(self, n, ev):
        """`const rtosc_arg_t args[3] = { a, b, c };` - the elements go to the array model"""
        if n.get("kind") != "DeclStmt":
            return None
        done = False
        for d in A.kids(n):
            if d.get("kind") == "VarDecl" and "[" in (A.qtype(d) or "") and A.kids(d) and A.strip_casts(A.kids(d)[-1]).get("kind") == "InitListExpr":
                for i, e in enumerate(A.kids(A.strip_casts(A.kids(d)[-1]))):
                    self.arrays[(d["id"], i)] = ev.ev(e)
                done = True
            elif done:
                raise FD.Unknown("mixed declaration statement", n)
        return True if done else None

    def run(self, fn, env, max_steps=6000):
        ev = FD.Eval(env=env, node_hook=self.hook, stmt_hook=self.stmt_hook, max_steps=max_steps)
        self.ev = ev
        try:
            ev.run(self.u.body(fn))
        except FD._Return as r:
            return r.v
        return None


def bind_merge_params(unit, fn):
    """mergeEvent(time_t now, const char *msg, char *buf, size_t N): roles by type"""
    env = {}
    roles = {}
    for p in unit.params(fn):
        t = (A.qtype(p) or "").replace(" ", "")
        if "char*" in t and "const" in t:
            env[p["id"]] = ("msg", "IN")
            roles["msg"] = p
        elif "char*" in t:
            env[p["id"]] = ("buf",)
            roles["buf"] = p
        elif "time_t" in t or t in ("long", "__time_t"):
            env[p["id"]] = ("time", "now")
            roles["now"] = p
        else:
            env[p["id"]] = 64
            roles["n"] = p
    return env, roles
