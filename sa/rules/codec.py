"""G1 - codec tables: size summaries of the hand-written OSC encoders / decoders.

A *summary* is the ordered list of what a straight-line piece of codec code does
to its position cursor:
    int n          constant advance (adjacent constants merged)
    'strlen'       advance to the terminating NUL of a C string (strlen call, or a
                   byte-wise loop whose exit test is the byte just passed)
    'len'          advance by a run-time length variable (blob payload)
    'pad+'         alignment step {0->4,1->3,2->2,3->1}   (always at least one NUL)
    'pad'          alignment step {0->0,1->3,2->2,3->1}   (only if needed)
Alignment steps are recognised by *evaluating* the statement over pos = 0..11
(fdeval), not by their spelling.  Everything else is 'unknown' and makes the
check exit 2 (no verdict).
"""
from .. import astlib as A
from .. import fdeval as FD
from ..facts import AnalysisBroken


class Unrecognised(AnalysisBroken):
    pass


def var_id(n):
    n = A.strip_casts(n)
    if n.get("kind") == "DeclRefExpr":
        return n["referencedDecl"]["id"]
    return None


def is_inc(n, ids):
    """n is ++x / x++ on a variable in ids -> id"""
    if n.get("kind") == "UnaryOperator" and n.get("opcode") == "++":
        v = var_id(A.kids(n)[0])
        if v in ids:
            return v
    return None


def count_incs(n, ids):
    c = 0
    for x in A.walk(n):
        if is_inc(x, ids):
            c += 1
    return c


def refs(n):
    out = set()
    for x in A.walk(n):
        if x.get("kind") == "DeclRefExpr" and (x.get("referencedDecl") or {}).get("kind") in ("VarDecl", "ParmVarDecl"):
            out.add(x["referencedDecl"]["id"])
    return out


def assigned_var(stmt):
    """For `X += E` / `X = E` (possibly under `if(C)` without else) return (id of X, core stmt)."""
    s = stmt
    if s.get("kind") == "IfStmt":
        ks = A.kids(s)
        if len(ks) != 2:
            return None, None
        s = ks[1]
        if s.get("kind") == "CompoundStmt":
            kk = A.kids(s)
            if len(kk) != 1:
                return None, None
            s = kk[0]
    s = A.strip(s)
    if s.get("kind") == "CompoundAssignOperator" and s.get("opcode") == "+=":
        return var_id(A.kids(s)[0]), s
    if s.get("kind") == "BinaryOperator" and s.get("opcode") == "=":
        return var_id(A.kids(s)[0]), s
    return None, None


def pad_kind(stmt, unit=None):
    """If stmt is an alignment step on some variable X, return (kind, X id, table) with kind 'pad+' / 'pad';
    None otherwise.  Decided by evaluation over X = 0..11 with every other variable = 0; an alignment helper of the unit
    (`pos = pad(pos)`) is evaluated through its body."""
    x, core = assigned_var(stmt)
    if x is None:
        return None
    helpers = {}
    if unit is not None:
        for c in A.calls_in(stmt):
            n = A.callee_name(c)
            fns = [f for f in unit.functions.get(n, []) if unit.body(f) is not None] if n else []
            if len(fns) == 1:
                helpers[n] = fns[0]
    # must mention a modulo or mask by 4 somewhere: cheap pre-filter only, the table decides
    txt = A.src(stmt)
    if "%" not in txt and "&" not in txt and not helpers:
        return None
    others = refs(stmt) - {x} - {(A.strip_casts(A.kids(c)[0]).get("referencedDecl") or {}).get("id") for c in A.calls_in(stmt)}
    table = {}
    for v in range(0, 12):
        def call(name, vals, n):
            if name in helpers:
                return ev.call_function(unit, helpers[name], vals)
            raise FD.Unknown("call to %s" % name, n)
        ev = FD.Eval(env={x: v, **{o: 0 for o in others}}, call=call)
        try:
            ev.run(stmt)
        except FD.Unknown:
            return None
        except (FD._Break, FD._Continue, FD._Return):
            return None
        table[v] = ev.env[x] - v
    m4 = {v % 4: d for v, d in table.items()}
    consistent = all(table[v] == m4[v % 4] for v in table)
    if not consistent:
        return ("other", x, table)
    t = tuple(m4[i] for i in range(4))
    if t == (4, 3, 2, 1):
        return ("pad+", x, t)
    if t == (0, 3, 2, 1):
        return ("pad", x, t)
    return ("other", x, t)


class Summ:
    def __init__(self):
        self.items = []
        self.counters = {}
        self.ret = None
        self.members = set()     # union members read/written: names
        self.va_types = []
        self.notes = []
        self.scan_forms = []

    def add(self, it):
        if isinstance(it, int):
            if it == 0:
                return
            if self.items and isinstance(self.items[-1], int):
                self.items[-1] += it
                return
        self.items.append(it)

    def key(self):
        return tuple(self.items)

    def as_json(self):
        return {"advance": list(self.items), "counters": dict(self.counters), "ret": self.ret}


def _additive_terms(e):
    """Flatten a +-expression into terms; returns list of (sign, node)."""
    e = A.strip_casts(e)
    if e.get("kind") == "BinaryOperator" and e.get("opcode") in ("+", "-"):
        l, r = A.kids(e)
        out = _additive_terms(l)
        rt = _additive_terms(r)
        if e.get("opcode") == "-":
            rt = [(-s, n) for s, n in rt]
        return out + rt
    return [(1, e)]


class Summariser:
    """pos_ids: decl ids of position cursors (integers or byte pointers).
    len_ids: decl ids of variables that hold a run-time length (blob).
    counter_ids: {decl id: name} of counters whose ++/-- are tallied (toparse, arg_pos)."""

    def __init__(self, unit, pos_ids, counter_ids=None, scan_calls=("deref",), byte_ptr_ids=()):
        self.u = unit
        self.pos = set(pos_ids)
        self.counters = dict(counter_ids or {})
        self.scan_calls = scan_calls
        self.byte_ptrs = set(byte_ptr_ids)
        self.len_calls = ()

    # -- expression level ----------------------------------------------------
    def expr_effects(self, e, S):
        """Tally cursor increments / counter changes inside an expression (no loops)."""
        for x in A.walk(e):
            k = x.get("kind")
            if k == "UnaryOperator" and x.get("opcode") in ("++", "--"):
                v = var_id(A.kids(x)[0])
                if v in self.pos:
                    if x.get("opcode") == "--":
                        raise Unrecognised("cursor decremented at " + A.where(x))
                    S.add(1)
                elif v in self.counters:
                    S.counters[self.counters[v]] = S.counters.get(self.counters[v], 0) + (1 if x.get("opcode") == "++" else -1)
            elif k == "CompoundAssignOperator":
                v = var_id(A.kids(x)[0])
                if v in self.pos:
                    if x.get("opcode") != "+=":
                        raise Unrecognised("cursor updated with %s at %s" % (x.get("opcode"), A.where(x)))
                    for sign, t in _additive_terms(A.kids(x)[1]):
                        lit = A.int_literal(t)
                        if lit is not None:
                            S.add(sign * lit)
                        elif t.get("kind") == "CallExpr" and A.callee_name(t) == "strlen" and sign == 1:
                            S.add("strlen")
                        elif t.get("kind") == "DeclRefExpr" and sign == 1:
                            S.add("strlen" if self._is_strlen_local(t) else "len")
                        elif t.get("kind") == "CallExpr" and A.callee_name(t) in self.len_calls and sign == 1:
                            S.add("len")
                        else:
                            raise Unrecognised("cursor advanced by unrecognised term `%s` at %s" % (A.src(t), A.where(x)))
            elif k == "BinaryOperator" and x.get("opcode") == "=":
                v = var_id(A.kids(x)[0])
                if v in self.pos:
                    if self._helper_advance(x, v, S):
                        continue
                    raise Unrecognised("cursor assigned at " + A.where(x))
            elif k == "MemberExpr":
                S.members.add(x.get("name"))
            elif k == "VAArgExpr":
                S.va_types.append(A.qtype(x))

    # -- loops ----------------------------------------------------------------
    def _helper_advance(self, assign, v, S, depth=0):
        """`pos = helper(..., pos, ...)` where the helper of the unit moves the position it is given and returns it:
        the helper's own cursor summary is the effect of the statement"""
        rhs = A.strip_casts(A.kids(assign)[1])
        if rhs.get("kind") != "CallExpr" or depth > 2:
            return False
        name = A.callee_name(rhs)
        fns = [f for f in self.u.functions.get(name or "", []) if self.u.body(f) is not None]
        if len(fns) != 1:
            return False
        g = fns[0]
        args = A.kids(rhs)[1:]
        ps = self.u.params(g)
        hits = [i for i, a in enumerate(args) if var_id(a) == v]
        if len(hits) != 1 or len(ps) != len(args):
            return False
        pid = ps[hits[0]]["id"]
        body = self.u.body(g)
        rets = [r for r in A.walk(body) if r.get("kind") == "ReturnStmt"]
        if not rets or not all(A.kids(r) and var_id(A.kids(r)[0]) == pid for r in rets):
            return False
        sub = Summariser(self.u, {pid}, {}, self.scan_calls, ())
        sub.len_calls = self.len_calls
        try:
            S2 = sub.summarise([st for st in A.kids(body) if st.get("kind") != "ReturnStmt"])
        except Unrecognised:
            return False
        for it in S2.items:
            S.add(it)
        S.members |= S2.members
        S.notes += S2.notes
        return True

    def _is_strlen_local(self, ref):
        """a local initialised with strlen(...) and never written again stands for that strlen"""
        d = self.u.by_id.get((ref.get("referencedDecl") or {}).get("id"))
        if d is None or d.get("kind") != "VarDecl" or not A.kids(d):
            return False
        init = A.strip_casts(A.kids(d)[-1])
        if not (init.get("kind") == "CallExpr" and A.callee_name(init) == "strlen"):
            return False
        fn = None
        for a in self.u.ancestors(d):
            if a.get("kind") in ("FunctionDecl", "CXXMethodDecl"):
                fn = a
                break
        if fn is None:
            return False
        for y in A.walk(fn):
            if y.get("kind") in ("BinaryOperator", "CompoundAssignOperator") and y.get("opcode", "").endswith("=") and y.get("opcode") not in ("==", "!=", "<=", ">=") and var_id(A.kids(y)[0]) == d["id"]:
                return False
            if y.get("kind") == "UnaryOperator" and y.get("opcode") in ("++", "--", "&") and var_id(A.kids(y)[0]) == d["id"]:
                return False
        return True

    def loop_effect(self, loop, S):
        k = loop.get("kind")
        ks = A.kids(loop)
        if k == "WhileStmt":
            cond, body = ks[0], ks[-1]
        elif k == "DoStmt":
            body, cond = ks[0], ks[1]
        elif k == "ForStmt":
            raw = loop.get("inner", [])
            init, cond, inc, fbody = raw[0], raw[2], raw[3], raw[4]
            if not cond.get("kind"):
                raise Unrecognised("for loop without a condition at " + A.where(loop))
            if init.get("kind") and (refs(init) & self.pos) and init.get("kind") != "DeclStmt":
                raise Unrecognised("for loop initialises the cursor at " + A.where(loop))
            # for(init; cond; inc) body  ==  init; while(cond) { body; inc; }
            body = {"kind": "CompoundStmt", "inner": [fbody] + ([inc] if inc.get("kind") else []), "id": "for-body", "range": loop.get("range")}
        else:
            raise Unrecognised("loop form %s at %s" % (k, A.where(loop)))
        n_pos = count_incs(cond, self.pos) + count_incs(body, self.pos)
        for x in A.walk(loop):
            if x.get("kind") == "CompoundAssignOperator" and var_id(A.kids(x)[0]) in self.pos:
                raise Unrecognised("cursor compound-assigned inside a loop at " + A.where(x))
        if n_pos != 1:
            if n_pos == 0:
                # loop not touching the cursor: only counters allowed
                tmp = Summ()
                self.expr_effects(cond, tmp)
                self.stmts_effects([body], tmp)
                if tmp.items:
                    raise Unrecognised("loop with cursor effect not understood at " + A.where(loop))
                return
            raise Unrecognised("loop advances the cursor %d times per iteration at %s" % (n_pos, A.where(loop)))
        c = A.strip_casts(cond)
        # (a) NUL scan: the exit test is a loaded byte: *p, *++p, *p++ , deref(pos..), deref(++pos..)
        if c.get("kind") == "UnaryOperator" and c.get("opcode") == "*":
            S.add("strlen")
            S.scan_forms.append(self._scan_form(A.kids(c)[0], body))
            return
        if c.get("kind") == "CallExpr" and A.callee_name(c) in self.scan_calls:
            S.add("strlen")
            S.scan_forms.append(self._scan_form(A.kids(c)[1], body))
            return
        # (b) counted copy: while(i--) ...
        if c.get("kind") == "UnaryOperator" and c.get("opcode") == "--" and c.get("isPostfix"):
            S.add("len")
            return
        raise Unrecognised("loop condition `%s` not understood at %s" % (A.src(cond), A.where(loop)))

    def _scan_form(self, addr, body):
        """'skip-first' when the cursor is advanced before the byte is tested (`*++p`), 'test-first' when the byte
        under the cursor is tested before advancing (`*p` ... p++ / `*p++`)"""
        a = A.strip_casts(addr)
        if a.get("kind") == "UnaryOperator" and a.get("opcode") == "++" and not a.get("isPostfix"):
            return "skip-first"
        return "test-first"

    # -- statements -------------------------------------------------------------
    def stmts_effects(self, stmts, S):
        for s in stmts:
            k = s.get("kind")
            if k == "CompoundStmt":
                self.stmts_effects(A.kids(s), S)
                continue
            if k in ("BreakStmt", "NullStmt"):
                continue
            if k == "ReturnStmt":
                ks = A.kids(s)
                if ks:
                    lit = A.int_literal(ks[0])
                    if lit is not None:
                        S.ret = lit
                    else:
                        e = A.strip_casts(ks[0])
                        S.ret = A.src(e)
                        self.expr_effects(ks[0], S)
                continue
            pk = pad_kind(s, self.u)
            if pk is not None:
                kind, x, table = pk
                if kind == "other":
                    S.add("pad?%s" % (list(table) if not isinstance(table, dict) else sorted(table.items()),))
                else:
                    S.add(kind)
                S.notes.append((kind, x, A.where(s)))
                continue
            if k in ("WhileStmt", "DoStmt", "ForStmt"):
                self.loop_effect(s, S)
                continue
            if k == "IfStmt":
                ks = A.kids(s)
                a, b = Summ(), Summ()
                self.expr_effects(ks[0], S)
                self.stmts_effects([ks[1]], a)
                if len(ks) > 2:
                    self.stmts_effects([ks[2]], b)
                if a.key() != b.key() or a.counters != b.counters:
                    # the two branches advance the cursor differently: recorded as such (never equal to a payload class)
                    S.add("if(%s){%s}else{%s}" % (A.src(ks[0]), ",".join(map(str, a.items)), ",".join(map(str, b.items))))
                    S.members |= a.members | b.members
                    continue
                for it in a.items:
                    S.add(it)
                for c, v in a.counters.items():
                    S.counters[c] = S.counters.get(c, 0) + v
                S.members |= a.members | b.members
                continue
            if k == "DeclStmt":
                for d in A.kids(s):
                    for e in A.kids(d):
                        self.expr_effects(e, S)
                continue
            if k == "SwitchStmt":
                raise Unrecognised("nested switch at " + A.where(s))
            # expression statement
            self.expr_effects(s, S)

    def summarise(self, stmts):
        S = Summ()
        self.stmts_effects(stmts, S)
        return S


# ---------------------------------------------------------------------------

def find_switches(fn_body):
    return [x for x in A.walk(fn_body) if x.get("kind") == "SwitchStmt"]


def case_table(sw):
    """{label value or 'default': [statements executed for that label up to break/return]}"""
    ev = FD.Eval()
    flat = []
    ev._flatten_switch(A.kids(sw)[-1], flat)
    out = {}
    for i, (lab, st) in enumerate(flat):
        if lab is None:
            continue
        stmts = []
        for lab2, st2 in flat[i + 1:]:
            if st2 is None:
                continue
            stmts.append(st2)
            if _terminates(st2):
                break
        out[lab] = stmts
    return out


def _terminates(st):
    """statement ends the case: break / return, possibly as the last statement of a `{ ... }` block"""
    k = st.get("kind")
    if k in ("BreakStmt", "ReturnStmt"):
        return True
    if k == "CompoundStmt":
        ks = A.kids(st)
        return bool(ks) and _terminates(ks[-1])
    return False


def classify(items):
    """Map a cursor summary to a payload class."""
    t = tuple(items)
    if t == ():
        return "none"
    if t == (8,):
        return "8"
    if t == (4,):
        return "4"
    if t == ("strlen", "pad+"):
        return "string"
    if t in ((4, "len", "pad"), (4, "pad", "len")):
        return "blob"
    return "?" + repr(list(t))


def local_decl(unit, fn, name, required=True):
    for x in A.walk(fn):
        if x.get("kind") in ("VarDecl", "ParmVarDecl") and x.get("name") == name:
            return x
    if required:
        raise AnalysisBroken("anchor vanished: variable `%s` in %s" % (name, fn.get("name")))
    return None
