"""A model of the sscanf directives the pretty-format readers use, with assignments.

scan(text, fmt) -> (assigned, matched_all)
  assigned: list of (conversion letter, value) for every non-suppressed conversion that was performed, in order
            (%n included, value = characters consumed so far); scanning stops at the first failing directive, exactly
            like sscanf: earlier conversions stay assigned, later ones (and a trailing %n) are not.
The model follows C11 7.21.6.2 / glibc: white space in the format skips any white space; every conversion except %c, %[
and %n skips leading white space; a field width bounds the characters of one conversion; %x takes an optional 0x prefix;
the floating conversions take the strtod grammar including hexadecimal floats, inf and nan.
"""
import re

from .. import fdeval as FD

_DIRECTIVE = re.compile(r'%(\*?)(\d*)(hh|h|ll|l|j|z|t|L)?([diouxXfFeEgGaAcsn%]|\[\^?\]?[^\]]*\])')


def _skip_ws(s, i):
    while i < len(s) and s[i].isspace():
        i += 1
    return i


def _int(s, i, width, base):
    w = width if width else 10 ** 9
    k = i
    neg = False
    if k < len(s) and s[k] in "+-" and w > 0:
        neg = s[k] == "-"
        k += 1
        w -= 1
    if base in (16, 0) and s[k:k + 2].lower() == "0x" and w >= 2 and k + 2 < len(s) and s[k + 2] in "0123456789abcdefABCDEF":
        k += 2
        w -= 2
        b = 16
    elif base == 0 and s[k:k + 1] == "0":
        b = 8
    else:
        b = 10 if base == 0 else base
    digits = "0123456789abcdefABCDEF"[:b] if b <= 10 else "0123456789abcdefABCDEF"
    d0 = k
    while k < len(s) and s[k] in digits and w > 0:
        k += 1
        w -= 1
    if k == d0:
        # "0x" followed by a non-hex digit: the "0" alone is the number
        if b == 16 and d0 >= 2 and s[d0 - 2:d0].lower() == "0x":
            return d0 - 1, 0
        return None
    v = int(s[d0:k], b)
    return k, -v if neg else v


def _float(s, i, width):
    w = width if width else 10 ** 9
    t = s[i:i + w]
    m = re.match(r'[+-]?(?:0[xX](?:[0-9a-fA-F]+\.?[0-9a-fA-F]*|\.[0-9a-fA-F]+)(?:[pP][+-]?\d+)?|(?:\d+\.?\d*|\.\d+)(?:[eE][+-]?\d+)?|[iI][nN][fF](?:[iI][nN][iI][tT][yY])?|[nN][aA][nN])', t)
    if not m:
        return None
    txt = m.group(0)
    try:
        v = float.fromhex(txt) if re.match(r'[+-]?0[xX]', txt) else float(txt)
    except ValueError:
        return None
    return i + len(txt), v


def scan(text, fmt):
    s = text
    i = 0
    j = 0
    out = []
    while j < len(fmt):
        ch = fmt[j]
        if ch.isspace():
            i = _skip_ws(s, i)
            j += 1
            continue
        if ch != "%":
            if i < len(s) and s[i] == ch:
                i += 1
                j += 1
                continue
            return out, False
        m = _DIRECTIVE.match(fmt, j)
        if not m:
            raise FD.Unknown("sscanf directive not modelled: " + fmt[j:j + 8])
        star, width, _len, conv = m.groups()
        width = int(width) if width else 0
        j = m.end()
        if conv == "%":
            i = _skip_ws(s, i)
            if i < len(s) and s[i] == "%":
                i += 1
                continue
            return out, False
        if conv == "n":
            if not star:
                out.append(("n", i))
            continue
        if conv[0] == "[":
            neg = conv[1:2] == "^"
            body = conv[2 if neg else 1:-1]
            w = width if width else 10 ** 9
            k = i
            while k < len(s) and ((s[k] in body) != neg) and w > 0:
                k += 1
                w -= 1
            if k == i:
                return out, False
            if not star:
                out.append(("[", s[i:k]))
            i = k
            continue
        if conv == "c":
            w = width if width else 1
            if i + w > len(s):
                return out, False
            if not star:
                out.append(("c", s[i:i + w]))
            i += w
            continue
        i = _skip_ws(s, i)
        if i >= len(s):
            return out, False
        if conv == "s":
            w = width if width else 10 ** 9
            k = i
            while k < len(s) and not s[k].isspace() and w > 0:
                k += 1
                w -= 1
            if not star:
                out.append(("s", s[i:k]))
            i = k
            continue
        if conv in "diouxX":
            r = _int(s, i, width, {"d": 10, "u": 10, "i": 0, "o": 8, "x": 16, "X": 16}[conv])
        else:
            r = _float(s, i, width)
        if r is None:
            return out, False
        i, v = r
        if not star:
            out.append((conv, v))
    return out, True


def consumed(text, fmt):
    """value of the trailing %n (0 when the match fails before it) - what skip_fmt() adds to the cursor"""
    out, _ = scan(text, fmt)
    for c, v in reversed(out):
        if c == "n":
            return v
    return 0
