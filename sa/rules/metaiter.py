"""READER = WRITER for port metadata: the metadata iterator (MetaContainer::begin, MetaIterator's constructor and
operator++, metaiterator_advance) is evaluated - finite-domain, on the AST - over the metadata blocks that the library's
own macros produce (read off the witness units as string literals, embedded NULs included) and must yield, in order,
exactly the (key, value) pairs each block spells:  `:key` entries separated by NUL, an optional value in the next
NUL-separated piece if that piece starts with '='.  MetaContainer::length must return the byte length of the block
including its terminator.
"""
from .. import astlib as A
from .. import fdeval as FD
from ..facts import AnalysisBroken

BASE = 1 << 19


class _Mem:
    def __init__(self, block):
        self.b = block          # str with embedded NULs; C adds one more NUL at the end

    def deref(self, addr, n):
        k = addr - BASE
        if k < 0 or k > len(self.b) + 1:
            raise FD.Unknown("read outside the metadata block (offset %d of %d)" % (k, len(self.b)), n)
        return ord(self.b[k]) if k < len(self.b) else 0

    def cstr(self, addr):
        k = addr - BASE
        e = self.b.find("\0", k)
        return self.b[k:e if e >= 0 else len(self.b)]

    def call(self, name, args, n):
        """the C string functions a rewrite of the scan may use, on the block"""
        if name in ("strlen", "__builtin_strlen") and len(args) == 1 and isinstance(args[0], int) and args[0] >= BASE:
            return len(self.cstr(args[0]))
        if name in ("strchr", "__builtin_strchr", "rawmemchr") and len(args) == 2 and isinstance(args[0], int) and args[0] >= BASE:
            c = args[1] & 0xff
            s = self.cstr(args[0])
            if c == 0:
                return args[0] + len(s)
            i = s.find(chr(c))
            return args[0] + i if i >= 0 else 0
        if name in ("strnlen",) and len(args) == 2 and isinstance(args[0], int) and args[0] >= BASE:
            return min(len(self.cstr(args[0])), args[1])
        if name in ("memchr", "__builtin_memchr") and len(args) == 3 and isinstance(args[0], int) and args[0] >= BASE:
            k = args[0] - BASE
            for i in range(args[2]):
                if self.deref(args[0] + i, n) == (args[1] & 0xff):
                    return args[0] + i
            return 0
        raise FD.Unknown("call to %s" % name, n)


def _members(fn_unit, node):
    return node


def _run_advance(unit, adv, mem, title, value):
    """metaiterator_advance(const char *&title, const char *&value): by-reference parameters are locals that are read back"""
    ps = unit.params(adv)
    ev = FD.Eval(env={ps[0]["id"]: title, ps[1]["id"]: value}, deref=mem.deref, call=mem.call, max_steps=4000)
    try:
        ev.run(unit.body(adv))
    except FD._Return:
        pass
    return ev.env[ps[0]["id"]], ev.env[ps[1]["id"]]


def _member_key(n):
    return "member:" + A.src(n).replace(" ", "")


def iterate(unit, block):
    """-> list of (key, value or None) the iterator yields for the block"""
    mem = _Mem(block)
    adv = unit.function("metaiterator_advance")
    inc = unit.function("MetaIterator::operator++")
    beg = unit.function("MetaContainer::begin")
    # begin(): which pointer goes into the iterator
    st = {}

    def bhook(n, ev):
        if n.get("kind") == "MemberExpr" and n.get("name") == "str_ptr":
            return BASE
        if n.get("kind") in ("CXXConstructExpr", "CXXTemporaryObjectExpr", "CXXFunctionalCastExpr") and "MetaIterator" in (A.qtype(n) or ""):
            ks = [k for k in A.kids(n)]
            inner = ks[-1] if ks else None
            if inner is not None and inner.get("kind") in ("CXXConstructExpr", "CXXTemporaryObjectExpr", "CXXFunctionalCastExpr", "MaterializeTemporaryExpr", "CXXBindTemporaryExpr", "ImplicitCastExpr") and "MetaIterator" in (A.qtype(inner) or ""):
                return ev.ev(inner)      # copy / move construction of the temporary
            st["start"] = ev.ev(inner)
            return ("iter", st["start"])
        return NotImplemented
    ev = FD.Eval(deref=mem.deref, call=mem.call, node_hook=bhook, max_steps=2000)
    try:
        ev.run(unit.body(beg))
    except FD._Return:
        pass
    if "start" not in st:
        raise FD.Unknown("MetaContainer::begin: iterator construction not recognised", beg)
    # constructor: title(str), value(NULL); metaiterator_advance(title, value)
    title, value = _run_advance(unit, adv, mem, st["start"], 0)
    out = []
    guard = 0
    while title:
        guard += 1
        if guard > 64:
            raise FD.Unknown("iteration does not end", inc)
        out.append((mem.cstr(title), mem.cstr(value) if value else None))
        # operator++ on members title/value
        state = {"title": title, "value": value}

        def hook(n, ev2):
            k = n.get("kind")
            if k == "MemberExpr" and n.get("name") in ("title", "value") and A.strip_casts(A.kids(n)[0]).get("kind") == "CXXThisExpr" if A.kids(n) else False:
                return state[n.get("name")]
            if k in ("BinaryOperator",) and n.get("opcode") == "=":
                l = A.strip_casts(A.kids(n)[0])
                if l.get("kind") == "MemberExpr" and l.get("name") in ("title", "value"):
                    state[l.get("name")] = ev2.ev(A.kids(n)[1])
                    return state[l.get("name")]
            if k == "UnaryOperator" and n.get("opcode") in ("++", "--"):
                l = A.strip_casts(A.kids(n)[0])
                if l.get("kind") == "MemberExpr" and l.get("name") in ("title", "value"):
                    old = state[l.get("name")]
                    state[l.get("name")] = old + (1 if n.get("opcode") == "++" else -1)
                    return old if n.get("isPostfix") else state[l.get("name")]
            if k == "CallExpr" and A.callee_name(n) == "metaiterator_advance":
                state["title"], state["value"] = _run_advance(unit, adv, mem, state["title"], state["value"])
                return 0
            if k == "UnaryOperator" and n.get("opcode") == "*" and A.strip_casts(A.kids(n)[0]).get("kind") == "CXXThisExpr":
                return 0                 # `return *this`
            if k == "CXXThisExpr":
                return 1
            return NotImplemented
        ev2 = FD.Eval(deref=mem.deref, call=mem.call, node_hook=hook, max_steps=6000)
        try:
            ev2.run(unit.body(inc))
        except FD._Return:
            pass
        title, value = state["title"], state["value"]
    return out


def length(unit, block, skip=0):
    """MetaContainer::length evaluated on a container built on the block's byte `skip` (0: as written, 1: after the
    leading ':' that Port::meta() strips)"""
    mem = _Mem(block)
    fn = unit.function("MetaContainer::length")

    def hook(n, ev):
        if n.get("kind") == "MemberExpr" and n.get("name") == "str_ptr":
            return BASE + skip
        return NotImplemented
    ev = FD.Eval(deref=mem.deref, call=mem.call, node_hook=hook, max_steps=8000)
    try:
        ev.run(unit.body(fn))
    except FD._Return as r:
        return r.v
    return None
