"""READER = WRITER for port metadata: the metadata iterator (MetaContainer::begin, MetaIterator's constructor and
operator++, metaiterator_advance) is evaluated - finite-domain, on the AST - over the metadata blocks that the library's
own macros produce (read off the witness units as string literals, embedded NULs included) and must yield, in order,
exactly the (key, value) pairs each block spells:  `:key` entries separated by NUL, an optional value in the next
NUL-separated piece if that piece starts with '='.  MetaContainer::length must return the byte length of the block
including its terminator.
"""
from .. import astlib as A
from .. import fdeval as FD
from ..facts import AnalysisBroken

BASE = 1 << 19


class _Mem:
    def __init__(self, block, unit=None):
        self.b = block          # str with embedded NULs; C adds one more NUL at the end
        self.unit = unit
        self.ev = None          # the evaluator in use (helpers of the unit are evaluated in place through it)

    def deref(self, addr, n):
        k = addr - BASE
        if k < 0 or k > len(self.b) + 1:
            raise FD.Unknown("read outside the metadata block (offset %d of %d)" % (k, len(self.b)), n)
        return ord(self.b[k]) if k < len(self.b) else 0

    def cstr(self, addr):
        k = addr - BASE
        e = self.b.find("\0", k)
        return self.b[k:e if e >= 0 else len(self.b)]

    def call(self, name, args, n):
        """the C string functions a rewrite of the scan may use, on the block"""
        if name in ("strlen", "__builtin_strlen") and len(args) == 1 and isinstance(args[0], int) and args[0] >= BASE:
            return len(self.cstr(args[0]))
        if name in ("strchr", "__builtin_strchr", "rawmemchr") and len(args) == 2 and isinstance(args[0], int) and args[0] >= BASE:
            c = args[1] & 0xff
            s = self.cstr(args[0])
            if c == 0:
                return args[0] + len(s)
            i = s.find(chr(c))
            return args[0] + i if i >= 0 else 0
        if name in ("strnlen",) and len(args) == 2 and isinstance(args[0], int) and args[0] >= BASE:
            return min(len(self.cstr(args[0])), args[1])
        if name in ("memchr", "__builtin_memchr") and len(args) == 3 and isinstance(args[0], int) and args[0] >= BASE:
            k = args[0] - BASE
            for i in range(args[2]):
                if self.deref(args[0] + i, n) == (args[1] & 0xff):
                    return args[0] + i
            return 0
        if self.unit is not None and self.ev is not None:
            fns = [f for f in self.unit.functions.get(name, []) if self.unit.body(f) is not None]
            if not fns:
                fns = [f for q, fl in self.unit.functions.items() if q.split("::")[-1] == name for f in fl if self.unit.body(f) is not None]
            if len(fns) == 1:
                return self.ev.call_function(self.unit, fns[0], args)
        raise FD.Unknown("call to %s" % name, n)


def _members(fn_unit, node):
    return node


def _run_advance(unit, adv, mem, title, value):
    """metaiterator_advance(const char *&title, const char *&value): by-reference parameters are locals that are read back"""
    ps = unit.params(adv)
    ev = FD.Eval(env={ps[0]["id"]: title, ps[1]["id"]: value}, deref=mem.deref, call=mem.call, max_steps=4000)
    mem.ev = ev
    try:
        ev.run(unit.body(adv))
    except FD._Return:
        pass
    return ev.env[ps[0]["id"]], ev.env[ps[1]["id"]]


def _member_key(n):
    return "member:" + A.src(n).replace(" ", "")


def iterate(unit, block, raw=None):
    """-> list of (key, value or None) the iterator yields for the block; `raw` (a list) receives the iterator's
    (title, value) pointers state by state, the last one being the exhausted state"""
    mem = _Mem(block, unit)
    adv = unit.function("metaiterator_advance")
    inc = unit.function("MetaIterator::operator++")
    beg = unit.function("MetaContainer::begin")
    # begin(): which pointer goes into the iterator
    st = {}

    def bhook(n, ev):
        if n.get("kind") == "MemberExpr" and n.get("name") == "str_ptr":
            return BASE
        if n.get("kind") in ("CXXConstructExpr", "CXXTemporaryObjectExpr", "CXXFunctionalCastExpr") and "MetaIterator" in (A.qtype(n) or ""):
            ks = [k for k in A.kids(n)]
            inner = ks[-1] if ks else None
            if inner is not None and inner.get("kind") in ("CXXConstructExpr", "CXXTemporaryObjectExpr", "CXXFunctionalCastExpr", "MaterializeTemporaryExpr", "CXXBindTemporaryExpr", "ImplicitCastExpr") and "MetaIterator" in (A.qtype(inner) or ""):
                return ev.ev(inner)      # copy / move construction of the temporary
            st["start"] = ev.ev(inner)
            return ("iter", st["start"])
        return NotImplemented
    ev = FD.Eval(deref=mem.deref, call=mem.call, node_hook=bhook, max_steps=2000)
    mem.ev = ev
    try:
        ev.run(unit.body(beg))
    except FD._Return:
        pass
    if "start" not in st:
        raise FD.Unknown("MetaContainer::begin: iterator construction not recognised", beg)
    # constructor: title(str), value(NULL); metaiterator_advance(title, value)
    title, value = _run_advance(unit, adv, mem, st["start"], 0)
    out = []
    guard = 0
    if raw is not None:
        raw.append((title, value))
    while title:
        guard += 1
        if guard > 64:
            raise FD.Unknown("iteration does not end", inc)
        out.append((mem.cstr(title), mem.cstr(value) if value else None))
        # operator++ on members title/value
        state = {"title": title, "value": value}

        def hook(n, ev2):
            k = n.get("kind")
            if k == "MemberExpr" and n.get("name") in ("title", "value") and A.strip_casts(A.kids(n)[0]).get("kind") == "CXXThisExpr" if A.kids(n) else False:
                return state[n.get("name")]
            if k in ("BinaryOperator",) and n.get("opcode") == "=":
                l = A.strip_casts(A.kids(n)[0])
                if l.get("kind") == "MemberExpr" and l.get("name") in ("title", "value"):
                    state[l.get("name")] = ev2.ev(A.kids(n)[1])
                    return state[l.get("name")]
            if k == "UnaryOperator" and n.get("opcode") in ("++", "--"):
                l = A.strip_casts(A.kids(n)[0])
                if l.get("kind") == "MemberExpr" and l.get("name") in ("title", "value"):
                    old = state[l.get("name")]
                    state[l.get("name")] = old + (1 if n.get("opcode") == "++" else -1)
                    return old if n.get("isPostfix") else state[l.get("name")]
            if k == "CompoundAssignOperator" and n.get("opcode") in ("+=", "-="):
                l = A.strip_casts(A.kids(n)[0])
                if l.get("kind") == "MemberExpr" and l.get("name") in ("title", "value"):
                    d_ = ev2.ev(A.kids(n)[1])
                    if not isinstance(d_, int) or not isinstance(state[l.get("name")], int):
                        raise FD.Unknown("pointer step %r" % (d_,), n)
                    state[l.get("name")] += d_ if n.get("opcode") == "+=" else -d_      # (const char *: one byte per step)
                    return state[l.get("name")]
            if k == "CallExpr" and A.callee_name(n) == "metaiterator_advance":
                state["title"], state["value"] = _run_advance(unit, adv, mem, state["title"], state["value"])
                return 0
            if k == "UnaryOperator" and n.get("opcode") == "*" and A.strip_casts(A.kids(n)[0]).get("kind") == "CXXThisExpr":
                return 0                 # `return *this`
            if k == "CXXThisExpr":
                return 1
            return NotImplemented
        ev2 = FD.Eval(deref=mem.deref, call=mem.call, node_hook=hook, max_steps=6000)
        mem.ev = ev2
        try:
            ev2.run(unit.body(inc))
        except FD._Return:
            pass
        title, value = state["title"], state["value"]
        if raw is not None:
            raw.append((title, value))
    return out


def length(unit, block, skip=0):
    """MetaContainer::length evaluated on a container built on the block's byte `skip` (0: as written, 1: after the
    leading ':' that Port::meta() strips)"""
    mem = _Mem(block, unit)
    fn = unit.function("MetaContainer::length")

    def hook(n, ev):
        if n.get("kind") == "MemberExpr" and n.get("name") == "str_ptr":
            return BASE + skip
        return NotImplemented
    ev = FD.Eval(deref=mem.deref, call=mem.call, node_hook=hook, max_steps=8000)
    mem.ev = ev
    try:
        ev.run(unit.body(fn))
    except FD._Return as r:
        return r.v
    return None


class _Stop(Exception):
    pass


def lookup(unit, block, qname, key, depth=0, fn=None, env=None, raw_result=False):
    """MetaContainer::find / operator[] evaluated on the block: the container's iteration is the evaluated iterator (its
    states in order), an iterator object is the token ("it", index of the state); range-for, begin()/end(), operator++,
    operator bool / != and the members title / value are given their meaning on that token.
    -> ("entry", index) / ("none",) for an iterator result, a Python string / None for a char pointer result"""
    raw = []
    iterate(unit, block, raw)
    n_entries = len(raw) - 1                      # the last state is the exhausted one
    mem = _Mem(block, unit)
    fn = fn or unit.function(qname)
    keyp = unit.params(fn)[0]

    def text(v, n):
        if isinstance(v, str):
            return v
        if isinstance(v, int) and v >= BASE:
            return mem.cstr(v)
        raise FD.Unknown("string operand %r" % (v,), n)

    def field(tok, name, n):
        if tok == ("null",):
            return 0
        if isinstance(tok, tuple) and tok[0] == "it":
            t, v = raw[min(tok[1], n_entries)]
            return t if name == "title" else v
        raise FD.Unknown("member %s of %r" % (name, tok), n)

    def hook(n, ev):
        k = n.get("kind")
        ks = A.kids(n)
        if k in ("ExprWithCleanups", "MaterializeTemporaryExpr", "CXXBindTemporaryExpr") and ks:
            return ev.ev(ks[0])
        if k in ("CXXConstructExpr", "CXXTemporaryObjectExpr") and "MetaContainer" in (A.qtype(n) or "") and len(ks) == 1:
            v_ = ev.ev(ks[0])
            if v_ == ("this",):
                return v_                          # the container handed on by value
            raise FD.Unknown("container constructed from %r" % (v_,), n)
        if k in ("CXXConstructExpr", "CXXTemporaryObjectExpr", "CXXFunctionalCastExpr") and "MetaIterator" in (A.qtype(n) or ""):
            if len(ks) == 1:
                v = ev.ev(ks[-1])
                if isinstance(v, tuple):
                    return v                       # copy of an iterator
                if v == 0:
                    return ("null",)               # MetaIterator(NULL)
                raise FD.Unknown("iterator constructed on %r" % (v,), n)
            raise FD.Unknown("iterator construction", n)
        if k == "CXXMemberCallExpr":
            cal = A.strip_casts(ks[0])
            nm = cal.get("name") or ""
            if nm == "begin":
                return ("it", 0)
            if nm == "end":
                return ("it", n_entries)
            if nm.startswith("operator bool") or nm == "operator bool":
                tok = ev.ev(A.kids(cal)[0])
                return 1 if field(tok, "title", n) else 0
            if nm in ("find", "operator[]") and depth < 2:
                arg = ev.ev(ks[1])
                q2 = "MetaContainer::" + nm
                return lookup(unit, block, q2, arg if isinstance(arg, str) else mem.cstr(arg), depth + 1)
            raise FD.Unknown("member call %s" % nm, n)
        if k == "CXXOperatorCallExpr":
            op = A.src(ks[0]) if ks else ""
            if "operator++" in op:
                tgt = A.strip_casts(ks[1])
                tok = ev.ev(tgt)
                if not (isinstance(tok, tuple) and tok[0] == "it"):
                    raise FD.Unknown("++ on %r" % (tok,), n)
                new = ("it", min(tok[1] + 1, n_entries))
                if tgt.get("kind") == "DeclRefExpr":
                    ev.env[tgt["referencedDecl"]["id"]] = new
                return tok if len(ks) > 2 else new
            if "operator!=" in op or "operator==" in op:
                a, b = ev.ev(ks[1]), ev.ev(ks[2])
                same = field(a, "title", n) == field(b, "title", n)
                return int(same == ("operator==" in op))
            if "operator*" in op:
                return ev.ev(ks[1])
            if "operator[]" in op and depth < 2 and "MetaContainer" in (A.qtype(ks[1]) or ""):
                arg = ev.ev(ks[2])
                return lookup(unit, block, "MetaContainer::operator[]", text(arg, n), depth + 1)
            raise FD.Unknown("operator call %s" % op, n)
        if k == "MemberExpr" and n.get("name") in ("title", "value") and ks:
            base = ev.ev(ks[0])
            if isinstance(base, tuple):
                return field(base, n.get("name"), n)
            return NotImplemented
        if k == "CXXThisExpr":
            return ("this",)
        if k == "UnaryOperator" and n.get("opcode") == "*" and A.strip_casts(ks[0]).get("kind") == "CXXThisExpr":
            return ("this",)
        if k == "ImplicitCastExpr" and n.get("castKind") == "UserDefinedConversion" and ks:
            return ev.ev(ks[0])
        if k == "CallExpr" and A.callee_name(n) == "strcmp":
            a, b = ev.ev(ks[1]), ev.ev(ks[2])
            sa = a if isinstance(a, str) else mem.cstr(a)
            sb = b if isinstance(b, str) else mem.cstr(b)
            return 0 if sa == sb else (1 if sa > sb else -1)
        if k == "CallExpr" and A.callee_name(n) in ("strncmp", "memcmp") and len(ks) == 4:
            sa, sb, cnt = text(ev.ev(ks[1]), n), text(ev.ev(ks[2]), n), ev.ev(ks[3])
            if A.callee_name(n) == "memcmp" and cnt > min(len(sa), len(sb)) + 1:
                raise FD.Unknown("memcmp beyond a terminator", n)
            sa, sb = (sa + "\0")[:cnt], (sb + "\0")[:cnt]
            return 0 if sa == sb else (1 if sa > sb else -1)
        if k == "CallExpr" and A.callee_name(n) == "strstr" and len(ks) == 3:
            hay, needle = ev.ev(ks[1]), text(ev.ev(ks[2]), n)
            i_ = text(hay, n).find(needle)
            if i_ < 0:
                return 0
            return hay + i_ if isinstance(hay, int) else hay[i_:]
        if k == "CallExpr" and A.callee_name(n) in ("atoi", "atol") and len(ks) == 2:
            m_ = __import__("re").match(r"\s*([+-]?\d+)", text(ev.ev(ks[1]), n))
            return int(m_.group(1)) if m_ else 0
        if k == "CallExpr" and A.callee_name(n) in ("isdigit", "isalpha", "isspace", "isalnum", "isupper", "islower") and len(ks) == 2:
            c_ = ev.ev(ks[1])
            if not isinstance(c_, int) or not -1 <= c_ <= 255:
                raise FD.Unknown("character class of %r" % (c_,), n)
            ch_ = chr(c_) if 0 <= c_ < 128 else ""
            return int({"isdigit": ch_.isdigit(), "isalpha": ch_.isalpha(), "isspace": ch_ in " \t\n\r\v\f" and ch_ != "", "isalnum": ch_.isalnum(),
                        "isupper": ch_.isupper(), "islower": ch_.islower()}[A.callee_name(n)])
        if k == "CallExpr" and A.callee_name(n) in ("min", "max", "lowest") and len(ks) == 1:
            # std::numeric_limits<int>::min(): a static member function without arguments that returns int
            cd_ = A.callee_decl(n) or {}
            if cd_.get("kind") == "CXXMethodDecl" and (A.qtype(ks[0]) or "").replace(" ", "").startswith("int(*)()"):
                return 2**31 - 1 if A.callee_name(n) == "max" else -2**31
        if k == "StringLiteral":
            return A.string_literal(n)
        if k == "ImplicitCastExpr" and n.get("castKind") == "ArrayToPointerDecay" and ks and A.string_literal(ks[0]) is not None:
            return A.string_literal(ks[0])
        if k in ("GNUNullExpr", "CXXNullPtrLiteralExpr"):
            return 0
        return NotImplemented

    def stmt_hook(n, ev):
        if n.get("kind") != "CXXForRangeStmt":
            return None
        ks = A.kids(n)
        body = ks[-1]
        decls = [d for s_ in ks for d in (A.kids(s_) if s_.get("kind") == "DeclStmt" else []) if d.get("kind") == "VarDecl" and not (d.get("name") or "").startswith("__")]
        if len(decls) != 1:
            raise FD.Unknown("range-for: loop variable not recognised", n)
        rng = [d for s_ in ks for d in (A.kids(s_) if s_.get("kind") == "DeclStmt" else []) if d.get("kind") == "VarDecl" and (d.get("name") or "").startswith("__range")]
        if not rng or not any(y.get("kind") == "CXXThisExpr" or (y.get("kind") == "DeclRefExpr" and "MetaContainer" in (A.qtype(y) or "") and
                                                                     (y.get("referencedDecl") or {}).get("kind") == "ParmVarDecl") for y in A.walk(rng[0])):
            raise FD.Unknown("range-for over something else than the container itself", n)
        for i in range(n_entries):
            ev.env[decls[0]["id"]] = ("it", i)
            try:
                ev.run(body)
            except FD._Break:
                break
            except FD._Continue:
                continue
        return True
    ev = FD.Eval(env=dict(env) if env is not None else {keyp["id"]: key}, deref=mem.deref, call=mem.call, node_hook=hook, stmt_hook=stmt_hook, max_steps=6000)
    mem.ev = ev
    try:
        ev.run(unit.body(fn))
        rv = None
    except FD._Return as r:
        rv = r.v
    if depth > 0 or raw_result:
        return rv                                  # the caller (operator[] forwarding to find) goes on with the token
    if isinstance(rv, tuple):
        if rv == ("null",) or (rv[0] == "it" and rv[1] >= n_entries):
            return ("none",)
        if rv[0] == "it":
            return ("entry", rv[1])
        if rv[0] in ("entry", "none"):
            return rv
        raise FD.Unknown("result %r" % (rv,), fn)
    if rv is None or rv == 0:
        return None
    if isinstance(rv, str):
        return rv
    return mem.cstr(rv)


def enum_key(unit, block, symbol):
    """rtosc::enum_key(MetaContainer meta, const char *value) evaluated with meta standing on the block -> int"""
    fn = unit.function("enum_key")
    ps = unit.params(fn)
    cont = [p for p in ps if "MetaContainer" in (A.qtype(p) or "")]
    sym = [p for p in ps if "char" in (A.qtype(p) or "")]
    if len(ps) != 2 or len(cont) != 1 or len(sym) != 1:
        raise FD.Unknown("enum_key: parameters (container, symbol) not recognised", fn)
    rv = lookup(unit, block, None, None, fn=fn, env={sym[0]["id"]: symbol, cont[0]["id"]: ("this",)}, raw_result=True)
    if not isinstance(rv, int):
        raise FD.Unknown("enum_key returns %r" % (rv,), fn)
    return rv
