"""G2 - OSC format rule: at every call of a variadic OSC constructor / reply with a
literal type string, the (default-promoted) C type of each actual argument must
be the type rtosc_v2args takes with va_arg for that tag.  The tag -> va_arg
table is extracted from rtosc_v2args itself (codec_tables.v2args_table).
"""
import re

from .. import astlib as A
from .. import fdeval as FD
from . import codec_tables as T

# callee name -> index of the type-string argument among the call's explicit arguments
VARIADIC = {"rtosc_message": 3, "reply": 1, "broadcast": 1, "chain": 1, "write": 1}


def va_table(unit_rtosc):
    """{tag: [class,...]} classes: 'i32','i64','f64','cstr','ptr'"""
    tab, dflt, sw, fn = T.v2args_table(unit_rtosc)
    out = {}
    for tag, S in tab.items():
        cls = []
        for t in S.va_types:
            cls.append(type_class(t))
        out[tag] = cls
    return out


def enum_underlying(unit, name):
    for n in unit.records.get(name.split("::")[-1], []):
        if n.get("kind") == "EnumDecl":
            fu = (n.get("fixedUnderlyingType") or {})
            return fu.get("desugaredQualType") or fu.get("qualType") or "int"
    return None


def type_class(qt, unit=None):
    t = FD._clean(qt)
    ct = FD.ctype(t)
    if ct[0] == "int":
        if ct[1] <= 32:
            return "i32"
        return "i64"
    if ct[0] == "float":
        return "f64" if t != "float" else "f32"
    if ct[0] == "ptr":
        el = FD._clean(t[:-1]) if t.endswith("*") else ""
        if el in ("char", "signed char"):
            return "cstr"
        return "ptr"
    if unit is not None:
        un = enum_underlying(unit, t)
        if un:
            return type_class(un)
    return "other:" + t


def format_literals(e):
    """All string literals a format expression can evaluate to (literal, or ?: of literals); None if dynamic."""
    e = A.strip_casts(e)
    s = A.string_literal(e)
    if s is not None:
        return [s]
    if e.get("kind") == "ConditionalOperator":
        a = format_literals(A.kids(e)[1])
        b = format_literals(A.kids(e)[2])
        if a is not None and b is not None:
            return a + b
    return None


def variadic_calls(unit, root):
    """(call, name, fmt_expr, [variadic actuals]) for calls under `root` to the OSC variadic entry points."""
    for c in A.calls_in(root):
        n = A.callee_name(c)
        if n not in VARIADIC:
            continue
        ks = A.kids(c)
        callee = A.strip_casts(ks[0])
        # only variadic overloads: the callee's function type ends in ", ...)"
        ft = A.stype(callee)
        if callee.get("kind") == "MemberExpr":
            md = unit.by_id.get(callee.get("referencedMemberDecl"))
            ft = A.stype(md) if md is not None else ""
        if "..." not in ft:
            continue
        args = ks[1:]
        fi = VARIADIC[n]
        if fi >= len(args):
            continue
        yield c, n, args[fi], args[fi + 1:]


def check_call(unit, vtab, call, name, fmt, actuals):
    """-> list of (ok, tolerated, detail) per literal alternative; [] when the format is dynamic"""
    lits = format_literals(fmt)
    if lits is None:
        return None
    out = []
    for lit in lits:
        exp = []
        for ch in lit:
            for cls in vtab.get(ch, []):
                exp.append((ch, cls))
        got = [type_class(A.qtype(a), unit) for a in actuals]
        problems = []
        tolerated = []
        if len(got) != len(exp):
            problems.append("format \"%s\" consumes %d vararg(s), %d passed" % (lit, len(exp), len(got)))
        for k, ((ch, cls), g) in enumerate(zip(exp, got)):
            if cls == g:
                continue
            if cls == "ptr" and g in ("ptr", "cstr"):
                continue
            if cls == "cstr" and g == "cstr":
                continue
            if cls == "i32" and g == "i64" and ch == "b":
                tolerated.append("blob length passed as 64-bit integer (arg %d)" % k)
                continue
            problems.append("tag '%s' takes %s, argument %d `%s` has promoted type %s (%s)" %
                            (ch, cls, k, A.src(actuals[k])[:60], A.qtype(actuals[k]), g))
        out.append((not problems, tolerated, {"format": lit, "expected": ["%s:%s" % e for e in exp], "actual": got, "problems": problems}))
    return out
