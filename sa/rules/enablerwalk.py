"""ENABLER-NAME: when port_is_enabled finds a sub-tree switched off by a toggle that ordinary traversal will not reach
(the toggle lies inside the sub-tree it disables), it applies the walker to that toggle itself.  The walker is handed
the toggle's absolute location and, as `old_end`, the place inside that location where the name relative to the base
ports begins - the savefile writer queries the toggle's value under exactly that name.  port_is_enabled is evaluated
as a whole function on a byte memory for both of its callers:

   walk_ports          (the `self:` port of a tree, enabled by `on`;  loc `/a/sub/`, not relative to the parent)
                       -> walker(`/a/sub/on`, name `on`)
   walk_ports_recurse  (the port `sub/`, enabled by `sub/on`;         loc `/a/sub/`, relative to the parent)
                       -> walker(`/a/sub/on`, name `sub/on`)
   walk_ports_recurse  (the port `sub/`, enabled by the sibling `sub_on`) -> no walker call

with enabling names of one, two, three and seven characters: the name handed over is the `enabled by` value, and it
lies inside the location string.

Model: strings live in a byte memory (strlen / strcpy / strncat / strrchr / fast_strcpy on it), `port->meta()["enabled
by"]` and `port->name` are the probe's, the lookups in the port tables answer with tokens, Ports::collapsePath removes
`x/../` towards the end of the string (the result ends where the input ended), the run-time query answers `false`.
"""
import re
from .. import astlib as A
from .. import fdeval as FD
from .defaultval import Mem, make_libc, HEAP

# (description, loc, port name, enabled by, relative_to_parent, expected walker call (location, name) or None)
CASES = []
for _en in ("e", "on", "on0", "enabled"):
    CASES.append(("self: enabled by `%s`" % _en, "/a/sub/", "self:", _en, 0, ("/a/sub/" + _en, _en)))
    CASES.append(("sub/ enabled by `sub/%s`" % _en, "/a/sub/", "sub/", "sub/" + _en, 1, ("/a/sub/" + _en, "sub/" + _en)))
CASES.append(("self: at the root enabled by `on`", "/", "self:", "on", 0, ("/on", "on")))
CASES.append(("sub/ enabled by the sibling `sub_on`", "/a/sub/", "sub/", "sub_on", 1, None))
# the toggle says true: the port is enabled and nothing is handed to the walker (ordinary traversal reaches the toggle)
ENABLED_CASES = [("self: enabled by `on`, switched on", "/a/sub/", "self:", "on", 0), ("sub/ enabled by `sub/on`, switched on", "/a/sub/", "sub/", "sub/on", 1),
                 ("sub/ enabled by the sibling `sub_on`, switched on", "/a/sub/", "sub/", "sub_on", 1)]


def evaluate(unit, loc, port_name, enabled_by, relative, answer="F"):
    """-> [(location, name or ("outside the location", offset))] : the walker calls port_is_enabled makes when the toggle says false"""
    fn = unit.function("port_is_enabled")
    ps = unit.params(fn)
    if len(ps) != 8:
        raise FD.Unknown("port_is_enabled: parameters (port, loc, loc_size, base, runtime, relative_to_parent, walker, data) not recognised", fn)
    mem = Mem()
    text, libc = make_libc(mem)
    LOC = mem.alloc(64)
    mem.put(LOC, loc)
    NB = mem.literal(port_name)
    EB = mem.literal(enabled_by)
    calls = []
    walker_name = ps[6].get("name")
    h = {}

    def collapse(a, n):
        s_ = mem.cstr(a, n)
        lead = s_.startswith("/")
        parts = []
        for part in s_.split("/"):
            if part == "..":
                if parts:
                    parts.pop()
            elif part and part != ".":
                parts.append(part)
        out = ("/" if lead else "") + "/".join(parts) + ("/" if s_.endswith("/") and parts else "")
        start = a + len(s_) - len(out)
        mem.put(start, out)
        return start

    def stmt_hook(n, ev):
        if n.get("kind") == "DeclStmt":
            done = False
            for d in A.kids(n):
                if d.get("kind") == "VarDecl" and "[" in (A.qtype(d) or "") and "char" in (A.qtype(d) or "") and not [k_ for k_ in A.kids(d) if k_.get("kind") in ("InitListExpr", "StringLiteral")]:
                    ev.env[d["id"]] = mem.alloc(256)          # a local char array (STACKALLOC): an object of its own
                    done = True
            return True if done and len(A.kids(n)) == 1 else None
        return None

    def hook(n, ev):
        k = n.get("kind")
        ks = A.kids(n)
        if k == "CXXOperatorCallExpr":
            if any(A.string_literal(y) == "enabled by" for y in A.walk(n)):
                return EB
            return ("port",)
        if k == "MemberExpr":
            nm = n.get("name")
            if nm == "name":
                return NB
            if nm == "ports":
                return ("ports",)
            if nm == "type" and "rtosc_arg_val_t" in (A.qtype(A.strip_casts(ks[0])) or ""):
                return ord(answer)
            if nm in ("i", "T") and "val" in A.src(n):
                return 1 if answer == "T" else 0
            return NotImplemented
        if k == "UnaryOperator" and n.get("opcode") == "&" and "rtosc_arg_val_t" in (A.qtype(A.strip_casts(ks[0])) or ""):
            return ("rval",)
        if k == "StringLiteral":
            return mem.literal(A.string_literal(n))
        if k in ("CXXMemberCallExpr", "CXXConstructExpr"):
            return ("object",)
        return NotImplemented

    def deref(a, n):
        if isinstance(a, tuple):
            return a
        return mem.byte(a, n)

    def store(a, v, n):
        mem.write(a, v)

    def call(name, vals, n):
        nm = (name or "").split("::")[-1]
        if nm == walker_name:
            locs = mem.cstr(vals[1], n)
            end = vals[1] + len(locs)
            if isinstance(vals[2], int) and vals[1] <= vals[2] <= end:
                calls.append((locs, mem.cstr(vals[2], n)))
            else:
                calls.append((locs, ("outside the location", (vals[2] - end) if isinstance(vals[2], int) else None)))
            return 0
        if nm in ("__assert_fail",):
            return 0
        if nm == "collapsePath":
            return collapse(vals[0], n)
        if nm == "get_value_from_runtime":
            return 0
        if nm == "fast_strcpy":
            s_ = mem.cstr(vals[1], n)[:max(0, vals[2] - 1)]
            for i, c in enumerate(s_.encode("latin-1") + b"\0"):
                mem.write(vals[0] + i, c)
            return vals[0]
        r = libc(nm, vals, n)
        if r is not NotImplemented:
            return r
        fs = [f_ for f_ in unit.functions.get(name, []) if unit.body(f_) is not None]
        if len(fs) == 1 and fs[0] is not fn:
            return h["ev"].call_function(unit, fs[0], vals)
        raise FD.Unknown("call to %s" % name, n)
    ev = FD.Eval(deref=deref, store=store, node_hook=hook, stmt_hook=stmt_hook, call=call, max_steps=6000)
    h["ev"] = ev
    res = ev.call_function(unit, fn, [("port",), LOC, 64, ("base",), 1, relative, ("walker",), 0])
    if bool(res) != (answer == "T"):
        calls.append(("answers `%s` although the toggle says %s" % ("enabled" if res else "disabled", "true" if answer == "T" else "false"), ""))
    return calls


def check(unit):
    bad = []
    for desc, loc, pn, en, rel, want in CASES:
        got = evaluate(unit, loc, pn, en, rel)
        exp = [want] if want else []
        if [tuple(g) if isinstance(g, (list, tuple)) else g for g in got] != exp:
            bad.append({"case": desc, "walker_calls": [[g[0], g[1] if isinstance(g[1], str) else list(g[1])] for g in got], "expected": [list(e) for e in exp]})
    for desc, loc, pn, en, rel in ENABLED_CASES:
        got = evaluate(unit, loc, pn, en, rel, answer="T")
        if got:
            bad.append({"case": desc, "walker_calls": [[g[0], g[1] if isinstance(g[1], str) else list(g[1])] for g in got], "expected": []})
    return bad, len(CASES) + len(ENABLED_CASES)
