"""G6 - shape of the port-macro callbacks expanded in witness/sugar_matrix.cpp."""
import re

from .. import astlib as A
from .. import fdeval as FD
from ..facts import AnalysisBroken

KIND_TAG = {"rParam": "c", "rParamF": "f", "rParamI": "i", "rOption": "i", "rArrayF": "f", "rArrayI": "i", "rArrayOption": "i",
            "rToggle": "T", "rArrayT": "T", "rString": "s"}
NUMERIC = ("rParam", "rParamF", "rParamI", "rArrayF", "rArrayI")
OPTION = ("rOption", "rArrayOption")
TOGGLE = ("rToggle", "rArrayT")
ARRAY = ("rArrayF", "rArrayI", "rArrayT", "rArrayOption")
UNION_MEMBER = {"c": "i", "i": "i", "r": "i", "f": "f", "T": "T", "F": "T", "s": "s", "S": "s", "d": "d", "h": "h", "t": "t"}


class Lam:
    pass


def lambdas(unit, witness_path):
    src = open(witness_path).read().split("\n")
    out = []
    per_line = {}
    for d in unit.decls:
        for x in A.walk(d):
            if x.get("kind") != "LambdaExpr":
                continue
            f, line = A.loc(x)
            if not f or not f.endswith("sugar_matrix.cpp"):
                continue
            body = [c for c in A.kids(x) if c.get("kind") == "CompoundStmt"]
            if not body:
                continue
            L = Lam()
            L.node = x
            L.body = body[0]
            L.line = line
            text = src[line - 1].strip()
            m = re.match(r'^(r\w+)\((\w+)', text)
            L.macro = m.group(1) if m else "?"
            L.field = m.group(2) if m else "?"
            L.text = text.rstrip(",")
            k = per_line.get(line, 0)
            per_line[line] = k + 1
            L.ordinal = k
            # port name literal from the enclosing Port initialiser
            L.portname = None
            for p in unit.ancestors(x):
                if p.get("kind") == "InitListExpr" and "Port" in A.stype(p):
                    ks = A.kids(p)
                    if ks:
                        L.portname = A.string_literal(ks[0])
                    break
            L.params = None
            for mth in A.walk(x):
                if mth.get("kind") == "CXXMethodDecl" and mth.get("name") == "operator()":
                    L.params = [c for c in A.kids(mth) if c.get("kind") == "ParmVarDecl"]
                    break
            L.label = "%s[%s]%s" % (L.macro, L.field, ("#%d" % k) if k else "")
            # port callbacks only: (const char *msg, RtData &data); a lambda nested inside a callback (a local helper) is
            # part of that callback's body, not a callback of its own
            if L.params is None or len(L.params) != 2 or "RtData" not in (A.qtype(L.params[1]) or ""):
                per_line[line] = k
                continue
            out.append(L)
    return out


def local(L, name):
    for x in A.walk(L.body):
        if x.get("kind") == "VarDecl" and x.get("name") == name:
            return x
    return None


def is_strcmp_args(cond, lit, args_id):
    c = A.strip_casts(cond)
    if c.get("kind") == "UnaryOperator" and c.get("opcode") == "!":
        c = A.strip_casts(A.kids(c)[0])
        if c.get("kind") == "CallExpr" and A.callee_name(c) == "strcmp":
            a = A.kids(c)[1:]
            lits = [A.string_literal(x) for x in a]
            ids = [A.ref_id(x) for x in a]
            return lit in lits and args_id in ids
    return False


def query_if(L):
    """The `if(!strcmp("", args)) ... else ...` statement of a parameter callback, or None."""
    a = local(L, "args")
    if a is None:
        return None
    for x in A.walk(L.body):
        if x.get("kind") == "IfStmt" and (is_strcmp_args(A.kids(x)[0], "", a["id"]) or _true_iff_empty(A.kids(x)[0], a["id"])):
            return x
    return None


def _true_iff_empty(cond, args_id):
    """the condition, evaluated with the type string `args` = "" / "i" / "f" / "T", holds exactly for the empty one
    (`!strcmp("", args)`, `strcmp(args, "") == 0`, `*args == '\\0'`, `!args[0]`, `strlen(args) == 0`, ...)"""
    if not any(y.get("kind") == "DeclRefExpr" and (y.get("referencedDecl") or {}).get("id") == args_id for y in A.walk(cond)):
        return False
    BASE = 4096
    res = []
    for text in ("", "i", "f", "T", "s"):
        def deref(addr, n, text=text):
            k = addr - BASE
            if 0 <= k <= len(text):
                return ord(text[k]) if k < len(text) else 0
            raise FD.Unknown("read outside the type string", n)

        def sval(v, text=text):
            return v if isinstance(v, str) else text[v - BASE:]

        def call(name, vals, n):
            if name == "strcmp":
                a_, b_ = sval(vals[0]), sval(vals[1])
                return (a_ > b_) - (a_ < b_)
            if name == "strlen":
                return len(sval(vals[0]))
            raise FD.Unknown("call to %s" % name, n)

        def hook(n, ev):
            if n.get("kind") == "StringLiteral":
                return A.string_literal(n)
            if n.get("kind") == "ImplicitCastExpr" and n.get("castKind") == "ArrayToPointerDecay" and A.string_literal(A.kids(n)[0]) is not None:
                return A.string_literal(A.kids(n)[0])
            return NotImplemented
        try:
            res.append(bool(FD.Eval(env={args_id: BASE}, deref=deref, call=call, node_hook=hook, max_steps=200).ev(cond)))
        except FD.Unknown:
            return False
    return res == [True, False, False, False, False]


def set_branches(L, qif, unit=None):
    """[(label, CompoundStmt)] of the non-query branches."""
    ks = A.kids(qif)
    if len(ks) < 3:
        # the guard-clause form `if(query) { reply; return; }` followed by the set code: the set branch is the rest of the
        # enclosing block (a block of its own, carrying the position of its first statement)
        then = ks[1]
        last = A.kids(then)[-1] if then.get("kind") == "CompoundStmt" and A.kids(then) else then
        if last.get("kind") != "ReturnStmt":
            return []
        for x in A.walk(L.body):
            if x.get("kind") == "CompoundStmt" and any(k_ is qif for k_ in x.get("inner", [])):
                inner = x["inner"]
                rest = inner[[i for i, k_ in enumerate(inner) if k_ is qif][0] + 1:]
                rest = [r_ for r_ in rest if r_.get("kind") not in A.COMMENT_KINDS]
                if not rest:
                    return []
                # the set code must be all there: a helper of the sugar header (clamp / undo event moved into an inline
                # function or template) or a local lambda is not entered by the rules that read the branch - declined
                for r_ in rest:
                    for y in A.walk(r_):
                        if y.get("kind") == "LambdaExpr":
                            return []
                        if y.get("kind") == "CallExpr":
                            cal = A.strip_casts(A.kids(y)[0]) if A.kids(y) else {}
                            rd = cal.get("referencedDecl") or {}
                            if cal.get("kind") == "UnresolvedLookupExpr":
                                return []
                            if cal.get("kind") == "DeclRefExpr" and rd.get("kind") in ("FunctionDecl", "FunctionTemplateDecl"):
                                d = unit.by_id.get(rd.get("id")) if unit is not None else None
                                f_ = A.loc(d)[0] if d is not None else None
                                if d is None:
                                    continue          # declared in a system header (not kept in the facts): a library function
                                if not f_ or f_.endswith("port-sugar.h") or f_.endswith("sugar_matrix.cpp"):
                                    return []
                blk = {"kind": "CompoundStmt", "inner": rest, "id": "rest-of-" + str(x.get("id"))}
                for key in ("loc", "range"):
                    if key in rest[0]:
                        blk[key] = rest[0][key]
                return [("value", blk)]
        return []
    e = ks[2]
    out = []
    while e.get("kind") == "IfStmt":
        kk = A.kids(e)
        out.append(("symbolic", kk[1]))
        if len(kk) < 3:
            return out
        e = kk[2]
    out.append(("value", e))
    return out


def rooted_at(e, decl_id):
    """lvalue expression e is a member/subscript chain rooted at the variable decl_id"""
    e = A.strip_casts(e)
    while e.get("kind") in ("MemberExpr", "ArraySubscriptExpr"):
        e = A.strip_casts(A.kids(e)[0])
    return e.get("kind") == "DeclRefExpr" and e["referencedDecl"]["id"] == decl_id


def stores_to(root, decl_id):
    out = []
    for x in A.walk(root):
        k = x.get("kind")
        if k == "BinaryOperator" and x.get("opcode") == "=" and rooted_at(A.kids(x)[0], decl_id) and A.strip_casts(A.kids(x)[0]).get("kind") != "DeclRefExpr":
            out.append(x)
        elif k == "CompoundAssignOperator" and rooted_at(A.kids(x)[0], decl_id) and A.strip_casts(A.kids(x)[0]).get("kind") != "DeclRefExpr":
            out.append(x)
        elif k == "UnaryOperator" and x.get("opcode") in ("++", "--") and rooted_at(A.kids(x)[0], decl_id) and A.strip_casts(A.kids(x)[0]).get("kind") != "DeclRefExpr":
            out.append(x)
        elif k == "CallExpr" and A.callee_name(x) in ("strncpy", "strcpy", "memcpy", "memset") and rooted_at(A.kids(x)[1], decl_id):
            out.append(x)
    return out


def member_calls(root, names, data_id):
    out = []
    for c in A.walk(root):
        if c.get("kind") == "CXXMemberCallExpr":
            callee = A.strip_casts(A.kids(c)[0])
            if callee.get("kind") == "MemberExpr" and callee.get("name") in names:
                base = A.strip_casts(A.kids(callee)[0]) if A.kids(callee) else {}
                if base.get("kind") == "DeclRefExpr" and base["referencedDecl"]["id"] == data_id:
                    out.append(c)
    return out


def is_loc(L, e):
    """e is `loc` (initialised from data.loc) or data.loc itself"""
    e = A.strip_casts(e)
    data_id = L.params[1]["id"]
    if e.get("kind") == "MemberExpr" and e.get("name") == "loc":
        b = A.strip_casts(A.kids(e)[0])
        return b.get("kind") == "DeclRefExpr" and b["referencedDecl"]["id"] == data_id
    if e.get("kind") == "DeclRefExpr":
        d = local(L, "loc")
        if d is not None and e["referencedDecl"]["id"] == d["id"]:
            init = A.strip_casts(A.kids(d)[-1])
            return is_loc(L, init) if init.get("kind") == "MemberExpr" else False
    return False


def incoming_member(e):
    """If e reads rtosc_argument(msg, 0).<m>, return m"""
    for x in A.walk(e):
        if x.get("kind") == "MemberExpr":
            b = A.strip_casts(A.kids(x)[0]) if A.kids(x) else {}
            if b.get("kind") == "CallExpr" and A.callee_name(b) == "rtosc_argument":
                idx = A.int_literal(A.kids(b)[2])
                return x.get("name"), idx
    return None, None


def prop_key(n):
    """n is prop["key"] -> key"""
    n0 = A.strip_casts(n)
    if n0.get("kind") == "CXXOperatorCallExpr":
        ks = A.kids(n0)
        if len(ks) == 3:
            lit = A.string_literal(ks[2])
            if lit is not None and A.ref_name(ks[1]) == "prop":
                return lit
    return None


def clamp_table(stmts, var_decl, floating, storage_ct=None):
    """Evaluate the clamp statements over test values for the four presence configurations of min/max.
    -> {config: {v: result}}"""
    LO, HI = (2, 100)
    vals = [-3, -1, 0, 1, 2, 3, 50, 99, 100, 101, 120] if not floating else [-3.5, 0.5, 1.5, 2.0, 2.5, 50.25, 100.0, 100.5, 120.0]
    vct = FD.ctype(A.qtype(var_decl))
    if storage_ct is not None and storage_ct[0] == "int":
        # only incoming values that the parameter's storage type can represent are in the property's scope
        vals = [v for v in vals if FD.wrap(v, storage_ct) == v]
    out = {}
    for has_min in (True, False):
        for has_max in (True, False):
            res = {}
            for v in vals:
                def hook(n, ev):
                    key = prop_key(n) if n.get("kind") in ("CXXOperatorCallExpr", "ImplicitCastExpr", "ExprWithCleanups", "MaterializeTemporaryExpr") else None
                    if n.get("kind") == "CXXOperatorCallExpr":
                        key = prop_key(n)
                        if key == "min":
                            return ("meta", "min") if has_min else 0
                        if key == "max":
                            return ("meta", "max") if has_max else 0
                        raise FD.Unknown("metadata key %r in clamp" % key, n)
                    return NotImplemented

                def call(name, args, n):
                    if name in ("atoi", "atof", "atol", "strtol", "strtod") and args and isinstance(args[0], tuple):
                        x = LO if args[0][1] == "min" else HI
                        return float(x) if name in ("atof", "strtod") else x
                    if name in ("atoi", "atof", "atol") and args and args[0] == 0:
                        return -999983      # converter applied to an absent key (NULL): shows up as a mismatch
                    if name in ("min", "max", "lowest") and not args:
                        # std::numeric_limits<T>::min() / max() / lowest(): T is the call's own type
                        tq = A.qtype(n) or ""
                        ct_ = FD.ctype(tq)
                        if ct_[0] == "int":
                            bits, sg = ct_[1], ct_[2]
                            lo_, hi_ = (-(1 << (bits - 1)), (1 << (bits - 1)) - 1) if sg else (0, (1 << bits) - 1)
                            return hi_ if name == "max" else lo_
                        if ct_[0] == "float":
                            dbl = "double" in tq
                            big = 1.7976931348623157e308 if dbl else 3.4028234663852886e38
                            tiny = 2.2250738585072014e-308 if dbl else 1.1754943508222875e-38
                            return {"max": big, "lowest": -big, "min": tiny}[name]     # min() of a floating type is the smallest POSITIVE value
                    if name in ("min", "max") and len(args) == 2 and all(isinstance(a_, (int, float)) and not isinstance(a_, bool) for a_ in args):
                        return min(args) if name == "min" else max(args)
                    raise FD.Unknown("call to %s in clamp" % name, n)
                # the incoming value arrives in the variable converted to the variable's own type
                ev = FD.Eval(env={var_decl["id"]: FD.wrap(v, vct) if vct[0] == "int" else v}, call=call, node_hook=hook)
                for s in stmts:
                    ev.run(s)
                res[v] = ev.env[var_decl["id"]]
            out[(has_min, has_max)] = res
    return out, LO, HI


def expected_clamp(v, lo, hi, has_min, has_max):
    if has_min and v < lo:
        v = lo
    if has_max and v > hi:
        v = hi
    return v


def snip_offsets(unit, L, probes):
    """SNIP: what a recursion callback does to its message cursor before it dispatches below - the statements of the callback
    that store to the first parameter (`msg`), run in source order on each probe address -> {probe: offset the cursor ends at}.
    Raises FD.Unknown when the callback has no such statements or they are not evaluable."""
    from .defaultval import Mem, make_libc
    msgp = L.params[0]
    body = L.body

    def stores_msg(st):
        for y in A.walk(st):
            k = y.get("kind")
            if k in ("BinaryOperator", "CompoundAssignOperator") and y.get("opcode", "").endswith("=") and y.get("opcode") not in ("==", "!=", "<=", ">=") and A.ref_id(A.kids(y)[0]) == msgp["id"]:
                return True
            if k == "UnaryOperator" and y.get("opcode") in ("++", "--") and A.ref_id(A.kids(y)[0]) == msgp["id"]:
                return True
        return False
    # the innermost block that holds the dispatch below and the stores in front of it
    disp = [c for c in A.walk(body) if c.get("kind") == "CXXMemberCallExpr" and A.strip_casts(A.kids(c)[0]).get("name") == "dispatch"]
    if len(disp) != 1:
        raise FD.Unknown("%s: expected one dispatch below, found %d" % (L.label, len(disp)), body)
    chosen = []
    for blk in A.walk(body):
        if blk.get("kind") != "CompoundStmt":
            continue
        ks = A.kids(blk)
        idx = next((i for i, s_ in enumerate(ks) if any(y is disp[0] for y in A.walk(s_))), None)
        if idx is None:
            continue
        mine = [s_ for s_ in ks[:idx] if s_.get("kind") != "DeclStmt" and stores_msg(s_)]
        chosen = chosen + mine if blk is body else mine + chosen
    if not chosen:
        raise FD.Unknown("%s: nothing moves the message cursor in front of the dispatch below" % L.label, body)
    out = {}
    for text in probes:
        mem = Mem()
        _, libc = make_libc(mem)
        base = mem.alloc(len(text) + 8)
        mem.put(base, text)

        def call(nm, vals, n):
            r = libc((nm or "").split("::")[-1], vals, n)
            if r is NotImplemented:
                fs = [f_ for f_ in unit.functions.get(nm, []) if unit.body(f_) is not None]
                if len(fs) == 1:
                    return holder["ev"].call_function(unit, fs[0], vals)      # an inline helper of the sugar header
                raise FD.Unknown("call to %s" % nm, n)
            return r
        holder = {}

        def hook(n, ev):
            if n.get("kind") == "StringLiteral":
                return mem.literal(A.string_literal(n))
            return NotImplemented
        ev = FD.Eval(env={msgp["id"]: base}, deref=lambda a, n: mem.byte(a, n), call=call, node_hook=hook, max_steps=600)
        holder["ev"] = ev
        for st in chosen:
            ev.run(st)
        out[text] = ev.env[msgp["id"]] - base
    return out
