"""OUT-PARAMETER DISCIPLINE on the -O0 IR: a local handed by address to a callee that may fail without writing it.

For every call of `callee` in a function whose k-th pointer argument is (an address inside) a local of the caller:
the local must be *defined* before the call (a store, an initialising memcpy/memset, or its address handed to any
other call, in a block that dominates the call or earlier in the same block), OR the call's result must be used (the
caller can tell failure from success), OR the local is not read after the call.  A local that fails all three is read
after a call whose failure the caller cannot see: its value is indeterminate on the failing path.

The rule is exact for the callees it is instantiated with only if those callees can return without writing the
parameter; the instantiating property module states that (and checks it: the callee must have a return path without a
store through the parameter).
"""
import re

_VAL = re.compile(r'(%[\w.]+)')


def _base(fn, v):
    """alloca a value is derived from (through bitcast / getelementptr), or None"""
    defs = fn.defs()
    for _ in range(8):
        d = defs.get(v)
        if d is None:
            return None
        if d.op == "alloca":
            return v
        if d.op in ("bitcast", "getelementptr"):
            m = _VAL.search(d.text.split(d.op, 1)[1] if d.op in d.text else d.text)
            if not m:
                return None
            v = m.group(1)
            continue
        return None
    return None


def local_name(fn, alloca):
    """source name of a local from its llvm.dbg.declare"""
    for c in fn.calls():
        if c.callee and c.callee.startswith("llvm.dbg.declare") and c.args and c.args[0].split()[-1] == alloca:
            m = re.search(r'!(\d+)', c.args[1])
            if m:
                md = fn.module.md.get(int(m.group(1)))
                if md:
                    mm = re.search(r'name: "([^"]+)"', md[1] if isinstance(md, tuple) else str(md))
                    if mm:
                        return mm.group(1)
    return alloca


def _writes(fn, alloca, skip_call):
    """instructions that (may) define the local: stores, mem intrinsics, address passed to another call"""
    out = []
    for i in fn.insts():
        if i is skip_call:
            continue
        if i.op == "store":
            vs = _VAL.findall(i.text)
            if vs and _base(fn, vs[-1]) == alloca and not (len(vs) >= 2 and vs[0] == vs[-1]):
                # the last %value of a store is the address
                if "," in i.text and _base(fn, i.text.split(",")[1].split()[-1]) == alloca:
                    out.append(i)
        elif i.op in ("call", "invoke") and i.callee and not i.callee.startswith("llvm.dbg") and not i.callee.startswith("llvm.lifetime"):
            for a in i.args:
                t = a.split()[-1] if a.split() else a
                if t.startswith("%") and _base(fn, t) == alloca:
                    out.append(i)
                    break
    return out


def _reads(fn, alloca):
    out = []
    for i in fn.insts():
        if i.op == "load":
            vs = _VAL.findall(i.text)
            if vs and _base(fn, vs[-1]) == alloca:
                out.append(i)
    return out


def _before(a, b):
    """a executes before b on every path to b (dominance; program order inside a block)"""
    return a.fn.dominates(a, b)


def _after(fn, a, b):
    """b may execute after a"""
    return fn.reaches(a, b)


def result_used(fn, call):
    if not call.res:
        return False
    pat = re.compile(re.escape(call.res) + r'(?![\w.])')
    for i in fn.insts():
        if i is call:
            continue
        if pat.search(i.text):
            return True
    return False


def check(fn, callee, arg_indices):
    """-> (instances examined, findings)"""
    seen, bad = [], []
    for c in fn.calls():
        if c.callee != callee:
            continue
        for k in arg_indices:
            if k >= len(c.args):
                continue
            t = c.args[k].split()[-1] if c.args[k].split() else c.args[k]
            if not t.startswith("%"):
                continue
            a = _base(fn, t)
            if a is None:
                continue                 # not a local of the caller (e.g. the caller's own parameter handed on)
            name = local_name(fn, a)
            defined = [w for w in _writes(fn, a, c) if _before(w, c)]
            used = result_used(fn, c)
            reads = [r for r in _reads(fn, a) if _after(fn, c, r)]
            inst = {"function": fn.name, "local": name, "call": c.where(), "argument": k, "defined_before_call": bool(defined),
                    "result_used": used, "read_after_call": [r.where() for r in reads][:4]}
            seen.append(inst)
            if not defined and not used and reads:
                bad.append(inst)
    return seen, bad


def may_return_without_writing(fn, param_index):
    """the callee has a store through its k-th parameter at all, and a `ret` that no such store dominates"""
    if param_index >= len(fn.params):
        return None
    # -O0: the parameter is spilled to an alloca; stores through it are `store T v, T* %loaded` with %loaded = load of the spill
    spill = None
    pname = fn.params[param_index]
    pname = pname if isinstance(pname, str) else getattr(pname, "name", str(pname))
    for i in fn.insts():
        if i.op == "store":
            vs = _VAL.findall(i.text)
            if len(vs) == 2 and vs[0] == pname and fn.defs().get(vs[1]) is not None and fn.defs()[vs[1]].op == "alloca":
                spill = vs[1]
                break
    if spill is None:
        return None
    loaded = {i.res for i in fn.insts() if i.op == "load" and _VAL.findall(i.text)[-1:] == [spill]}
    stores = [i for i in fn.insts() if i.op == "store" and _VAL.findall(i.text)[-1:] and _VAL.findall(i.text)[-1] in loaded]
    rets = [i for i in fn.insts() if i.op == "ret"]
    if not stores:
        return True
    entry = fn.blocks[0].label
    # is there a path entry -> ret avoiding every storing block?
    avoid = {s.block.label for s in stores}
    if entry in avoid:
        return False
    reach = fn.reachable_blocks(entry, avoid=avoid)
    return any(r.block.label in reach for r in rets)
